# C07 - option values resolve by the documented precedence and are always valid.
#
# Bounded exhaustive exploration.  A *scenario* fixes, for a small set of options, which of the documented value
# sources set them and to what.  Scenarios are enumerated exhaustively over
#   top level : all 2^4 subsets of {declared default D, project(default_options) P, machine file M, command line C}
#   subproject: all 2^8 subsets of the eight documented sources P S M C PS SC MS CS (Builtin-options.md,
#               "The value is overridden in this order")
# x option kinds x value assignments (digit scheme: any two sources get different values in some assignment, so a
# wrong winner is always visible) x native/cross x spelling variants.
#
# The command-line source has a spelling dimension (Builtin-options.md: "-Doption=value ... Some options can also be set by
# --option=value, or --option value -- a list is shown by running meson setup --help"): the *-flag families repeat the
# top-level / subproject / per-machine / prefix / invalid-value families with every command-line entry that has a long flag
# written as --name=value, as --name value, or as the bare switch of a boolean option; buildtype-top-flag enumerates every
# spelling of each of buildtype / debug / optimization in both listing orders; buildtype-configure and configure-flag do the
# same for `meson configure`.  These cases go through the argument parser that the command itself builds (msetup /
# mconf add_arguments) and cmdline.parse_cmd_line_options, in tier A and (as real commands) in tier B.
#
# The prefix has a spelling dimension of its own (prefix-spelling, prefix-spelling-flag, prefix-configure): the same directory
# written as p, p/, p//, p/. or with a doubled inner slash, given by every subset of the sources (and by meson configure), the
# spelling applied to all sources / the winning one / the losing ones; every prefix-dependent directory default is compared
# with the documented table for the directory that the winning source named.  Invalid values include array texts that start
# with a bracket but are no list and lists of non-strings; backend_max_links is a late option of the kind "backend".
#
# Tier A drives a real OptionStore in-process through the same calls and helper functions the interpreter uses
# (OptionInterpreter.process + update_project_options, _default_options_convertor, parse_cmd_line_options, the real
# machine-file parser + Environment._load_machine_file_options, initialize_from_top_level_project_call,
# initialize_from_subproject_call, add_compiler_option, set_from_configure_command) and observes get_value_for.
# Tier B writes the same scenarios as real projects (meson.build / meson.options / subprojects/sub / native and
# cross files / -D arguments), runs `meson setup --backend=none` through the fork runner and reads the values that
# the build files message() from get_option().
#
# Oracle: ref_* functions below, transcribed from docs/markdown/{Builtin-options,Build-options,Machine-files}.md
# and docs/yaml/functions/{project,subproject}.yaml -- never from options.py.  Where the docs are silent or allow
# two readings the case is either skipped (counted in skipped_unspecified) or checked against the set of values
# admissible under every reading (counted as weak).
import argparse, itertools, json, os, re, shutil, sys, types
from verif.core import Check, pmap, run_main, scratch_root, REPO, InternalError

import mesonbuild.interpreter  # noqa: F401  (must come first: optinterpreter <-> interpreter import cycle)
from mesonbuild import options as O, optinterpreter, cmdline, machinefile, mlog, mesonlib
from mesonbuild.options import OptionKey, OptionStore
from mesonbuild.mesonlib import MesonException, MachineChoice

SUB = 'sub'

# ------------------------------------------------------------------------------------------------------------
# rendering helpers
def lit(v):
    """Meson literal of a python value (meson.options `value:`, machine file right-hand side, message() output)."""
    if isinstance(v, bool):
        return 'true' if v else 'false'
    if isinstance(v, int):
        return str(v)
    if isinstance(v, str):
        return "'" + v.replace('\\', '\\\\').replace("'", "\\'") + "'"
    if isinstance(v, list):
        return '[' + ', '.join(lit(x) for x in v) + ']'
    raise InternalError('lit: %r' % (v,))


def cstr(v):
    """key=value spelling (command line, default_options list form): arrays are comma separated (Build-options.md)."""
    if isinstance(v, bool):
        return 'true' if v else 'false'
    if isinstance(v, int):
        return str(v)
    if isinstance(v, list):
        return ','.join(v)
    return v


# ------------------------------------------------------------------------------------------------------------
# spelling of a command-line source.  Builtin-options.md, "Universal options": "All these can be set by passing
# -Doption=value to meson ... Some options can also be set by --option=value, or --option value -- a list is shown by
# running meson setup --help.  For legacy reasons --warnlevel is the cli argument for the warning_level option."
# (--help spells an underscore as a hyphen and shows the boolean options as switches without a value.)
# styles: 'D' -Dname=value | 'eq' --name=value | 'sp' --name value | 'bare' --name (switch of a boolean option: true)
FLAG_STYLES = ('eq', 'sp')


def flag_of(name):
    if ':' in name:
        return None             # an option of a subproject can only be addressed with -Dsubp:name=value
    if name == 'warning_level':
        return '--warnlevel'
    return '--' + name.replace('_', '-')


class CmdlineRejected(Exception):
    pass


class _Parser(argparse.ArgumentParser):
    def error(self, message):       # argparse would print the usage and exit(2): the command is refused
        raise CmdlineRejected(message)


_PARSERS = {}


def cli_parser(cmd):
    """The argument parser of `meson setup` / `meson configure`, built by the command's own add_arguments (once per process)."""
    if cmd not in _PARSERS:
        parser = _Parser()
        if cmd == 'setup':
            from mesonbuild import msetup
            msetup.add_arguments(parser)
        else:
            from mesonbuild import mconf
            mconf.add_arguments(parser)
        _PARSERS[cmd] = parser
    return _PARSERS[cmd]


def cli_parse(cmd, argv):
    """parse_args of a fresh process: the mutable defaults ({} of -D, the two key sets) belong to the parser object and the
    actions fill them in place, so a parser that is used again gets a new namespace holding new ones."""
    ns = argparse.Namespace(cmd_line_options={}, builtin_keys=set(), d_keys=set())
    return cli_parser(cmd).parse_args(argv, namespace=ns)


_CLI_FLAGS = {}


def cli_flags(cmd='setup'):
    """What `meson <cmd> --help` lists: long flag -> 0 for a switch, 1 for a flag that takes a value."""
    if cmd not in _CLI_FLAGS:
        _CLI_FLAGS[cmd] = {s: a.nargs for s, a in cli_parser(cmd)._option_string_actions.items() if s.startswith('--')}
    return _CLI_FLAGS[cmd]


def flag_style(name, value, style, cmd='setup'):
    """The style in which `name=value` can be written as a long flag of `meson <cmd>`, None if it cannot."""
    fl = flag_of(name)
    if style == 'D' or fl is None or fl not in cli_flags(cmd):
        return None
    if cli_flags(cmd)[fl] == 0:
        return 'bare' if value == 'true' else None      # a switch can only say true
    return style


def set_spelling(scn, style):
    """Spell every command-line entry of the scenario that has a long flag in the given style; -> number of entries spelled so."""
    n = 0
    for k, v in scn['C']:
        st = flag_style(k, cstr(v), style)
        if st:
            scn['cspell'][k] = st
            n += 1
    return n


def c_entries(scn):
    sp = scn.get('cspell') or {}
    return [[k, v, sp.get(k, 'D')] for k, v in scn['C']]


def c_argv(entries):
    out = []
    for k, v, st in entries:
        v = cstr(v)         # (invalid-value cases carry typed values: they are written as -D would write them)
        if st == 'D':
            out.append('-D%s=%s' % (k, v))
        elif st == 'eq':
            out.append('%s=%s' % (flag_of(k), v))
        elif st == 'sp':
            out += [flag_of(k), v]
        elif st == 'bare':
            out.append(flag_of(k))
        else:
            raise InternalError('bad spelling style %r' % (st,))
    return out


# ------------------------------------------------------------------------------------------------------------
# option kinds.  vals: three (two for booleans) valid values; for builtins vals[0] is the documented default.
# implicit: documented default when option() has no `value:` (Build-options.md); None = docs silent.
PK = {
    'vstr':   {'type': 'string', 'vals': ['sa', 'sb', 'sc'], 'implicit': ''},
    'vbool':  {'type': 'boolean', 'vals': [False, True], 'implicit': True},
    'vint':   {'type': 'integer', 'min': 0, 'max': 9, 'vals': [3, 5, 7], 'implicit': None},
    'vcombo': {'type': 'combo', 'choices': ['a', 'b', 'c', 'd'], 'vals': ['b', 'c', 'd'], 'implicit': 'a'},
    'varr':   {'type': 'array', 'choices': ['x', 'y', 'z', 'w'], 'vals': [['x'], ['y', 'z'], []],
               'implicit': ['x', 'y', 'z', 'w']},
    'vfeat':  {'type': 'feature', 'vals': ['enabled', 'disabled', 'auto'], 'implicit': 'auto'},
    'varrf':  {'type': 'array', 'vals': [['p'], ['q', 'r'], []], 'implicit': None},
}
# builtin options: type/choices/default transcribed from the tables of Builtin-options.md.
# persub: "Per subproject" column.  section: machine-file section.
BK = {
    'warning_level':   {'type': 'combo', 'choices': ['0', '1', '2', '3', 'everything'], 'vals': ['1', '0', '3'], 'persub': True},
    'default_library': {'type': 'combo', 'choices': ['shared', 'static', 'both'], 'vals': ['shared', 'static', 'both'], 'persub': True},
    'werror':          {'type': 'boolean', 'vals': [False, True], 'persub': True},
    'strip':           {'type': 'boolean', 'vals': [False, True], 'persub': True},
    'unity':           {'type': 'combo', 'choices': ['on', 'off', 'subprojects'], 'vals': ['off', 'on', 'subprojects'], 'persub': True},
    'unity_size':      {'type': 'integer', 'min': 2, 'vals': [4, 7, 9], 'persub': True},
    'default_both_libraries': {'type': 'combo', 'choices': ['shared', 'static', 'auto'], 'vals': ['shared', 'static', 'auto'], 'persub': True},
    'optimization':    {'type': 'combo', 'choices': ['plain', '0', 'g', '1', '2', '3', 's'], 'vals': ['0', 'g', '1'], 'persub': True},
    'wrap_mode':       {'type': 'combo', 'choices': ['default', 'nofallback', 'nodownload', 'forcefallback', 'nopromote'],
                        'vals': ['default', 'nofallback', 'nodownload'], 'persub': False},
    'auto_features':   {'type': 'feature', 'vals': ['auto', 'enabled', 'disabled'], 'persub': False, 'as_string': True},
    'force_fallback_for': {'type': 'array', 'vals': [[], ['fa'], ['fb', 'fc']], 'persub': False},
    'errorlogs':       {'type': 'boolean', 'vals': [True, False], 'persub': False},
    'stdsplit':        {'type': 'boolean', 'vals': [True, False], 'persub': False},
    'layout':          {'type': 'combo', 'choices': ['mirror', 'flat'], 'vals': ['mirror', 'flat'], 'persub': False},
    # module options ("Module options": -D<module>.<option>=<value>)
    'python.purelibdir':   {'type': 'string', 'vals': ['', 'lib/pa', 'lib/pb'], 'persub': False},
    'python.bytecompile':  {'type': 'integer', 'min': -1, 'max': 2, 'vals': [0, -1, 2], 'persub': False},
    'python.install_env':  {'type': 'combo', 'choices': ['auto', 'prefix', 'system', 'venv'], 'vals': ['prefix', 'auto', 'venv'], 'persub': False},
    'pkgconfig.relocatable': {'type': 'boolean', 'vals': [False, True], 'persub': False},
    # per machine
    'pkg_config_path':   {'type': 'array', 'vals': [[], ['/pa'], ['/pb', '/pc']], 'persub': False, 'permachine': True},
    'cmake_prefix_path': {'type': 'array', 'vals': [[], ['/ca'], ['/cb', '/cc']], 'persub': False, 'permachine': True},
    # directory options without a special prefix rule
    'bindir':  {'type': 'string', 'vals': ['bin', 'mybin', '/opt/abs/bin'], 'persub': False},
    'datadir': {'type': 'string', 'vals': ['share', 'myshare', 'sh2'], 'persub': False},
}
# "late" options: only come into existence when a language is added, after the sources have been read (pending
# options).  In tier A c_std is a synthetic combo option added through add_compiler_option exactly as
# CoreData.add_compiler_options does; b_* are the real COMPILER_BASE_OPTIONS objects.
LK = {
    'c_std':    {'type': 'combo', 'choices': ['none', 'c89', 'c99', 'c11', 'c17'], 'vals': ['none', 'c99', 'c11'], 'persub': True,
                 'late': 'compiler', 'permachine': True},
    'b_ndebug': {'type': 'combo', 'choices': ['true', 'false', 'if-release'], 'vals': ['false', 'true', 'if-release'], 'persub': None, 'late': 'base'},
    'b_lto':    {'type': 'boolean', 'vals': [False, True], 'persub': None, 'late': 'base'},
    # late booleans whose documented default is true: the value that overrides the default is the "empty" one (false)
    'b_staticpic': {'type': 'boolean', 'vals': [True, False], 'persub': None, 'late': 'base'},
    'b_lundef':    {'type': 'boolean', 'vals': [True, False], 'persub': None, 'late': 'base'},
    # backend option (Build-options.md "Ninja / Max links", listed by meson configure among the Backend options, ">=0"): comes into
    # existence when the backend is chosen, after all sources have been read.  Tier A: the real Environment.init_backend_options
    # + CoreData.init_backend_options; tier B: a setup with the ninja backend.
    'backend_max_links': {'type': 'integer', 'min': 0, 'vals': [0, 3, 7], 'persub': None, 'late': 'backend'},
}


def mark_late(scn, name):
    scn['late'].append(name)
    if LK[name]['late'] != 'backend':
        scn['langs'] = True        # the option belongs to a language: tier B needs a real compiler
ALLK = {}
ALLK.update(PK)
ALLK.update(BK)
ALLK.update(LK)

# "the declared default" as a dimension of its own (fam_default).  For every kind of project option the `value:` keyword is
#   absent            -> the default that Build-options.md documents for the kind ('implicit'; None = the docs do not say), or
#   one of 'vals'     -> that value.  vals[0] is the value of the kind that says "nothing" -- the empty string, false, zero, the
#                        empty array, the first choice, 'disabled' -- and is as much a declared default as any other; the rest are
#                        the other end of the kind (last choice, a bound of the range, all the choices, 'auto' ...).
# The same lists are the values with which a higher source overrides the default.
DK = {
    'dstr':   {'type': 'string', 'vals': ['', 'sa', 'sb'], 'implicit': ''},
    'dbool':  {'type': 'boolean', 'vals': [False, True], 'implicit': True},
    'dint':   {'type': 'integer', 'min': 0, 'max': 9, 'vals': [0, 9, 4], 'implicit': None},        # zero is the lower bound
    'dintz':  {'type': 'integer', 'min': -3, 'max': 3, 'vals': [0, -3, 3], 'implicit': None},      # zero lies inside the range
    'dintu':  {'type': 'integer', 'vals': [0, 7], 'implicit': None},                               # no range at all
    'dcombo': {'type': 'combo', 'choices': ['a', 'b', 'c', 'd'], 'vals': ['a', 'd', 'b'], 'implicit': 'a'},
    'darr':   {'type': 'array', 'choices': ['x', 'y', 'z'], 'vals': [[], ['y'], ['x', 'y', 'z']], 'implicit': ['x', 'y', 'z']},
    'darrf':  {'type': 'array', 'vals': [[], ['p'], ['q', 'r']], 'implicit': None},
    'dfeat':  {'type': 'feature', 'vals': ['disabled', 'auto', 'enabled'], 'implicit': 'auto'},
}
DEF_TAGS = ['n', '0', '1', '2']      # n: no `value:` keyword; i: `value:` is vals[i]
KINDS = {}
KINDS.update(PK)
KINDS.update(DK)


def dd_name(kind, tag):
    """One option per (kind, declared default), so that one tier B project can carry every declared default of every kind."""
    return '%s_%s' % (kind, tag)

BUILDTYPE_TABLE = {  # Builtin-options.md "Details for buildtype": buildtype -> (debug, optimization)
    'plain': (False, 'plain'), 'debug': (True, '0'), 'debugoptimized': (True, '2'), 'release': (False, '3'),
    'minsize': (True, 's'),
}
# Builtin-options.md "Universal options": prefix-dependent defaults
DIR_DEFAULT = {'sysconfdir': 'etc', 'localstatedir': 'var', 'sharedstatedir': 'com'}
DIR_BY_PREFIX = {
    '/usr': {'sysconfdir': '/etc', 'localstatedir': '/var', 'sharedstatedir': '/var/lib'},
    '/usr/local': {'localstatedir': '/var/local', 'sharedstatedir': '/var/local/lib'},
}
DEFAULT_PREFIX = '/usr/local'   # "prefix defaults to C:/ on Windows, and /usr/local otherwise"


BUILTIN_EXTRA = {'buildtype', 'debug', 'prefix', 'sysconfdir', 'localstatedir', 'sharedstatedir', 'sbindir', 'libdir'}


def section_of(name):
    return 'built-in options' if (name in BK or name in LK or name in BUILTIN_EXTRA) else 'project options'


def decl_text(decls):
    """meson.options text.  decls: list of [name, kind, value-or-None, yield]."""
    out = []
    for name, kind, value, yielding in decls:
        k = KINDS[kind]
        parts = ["'%s'" % name, "type: '%s'" % k['type']]
        if 'choices' in k:
            parts.append('choices: ' + lit(k['choices']))
        if 'min' in k:
            parts.append('min: %d' % k['min'])
        if 'max' in k:
            parts.append('max: %d' % k['max'])
        if value is not None:
            parts.append('value: ' + lit(value))
        if yielding:
            parts.append('yield: true')
        out.append('option(%s)\n' % ', '.join(parts))
    return ''.join(out)


# ------------------------------------------------------------------------------------------------------------
# scenarios (plain JSON-able dicts, consumed by both tiers)
def new_scn(cross=False, has_sub=False):
    return {'cross': cross, 'has_sub': has_sub, 'top_decl': [], 'sub_decl': [], 'P': [], 'S': [], 'SC': [], 'M': [], 'N': [],
            'C': [], 'cspell': {}, 'dict_form': False, 'late': [], 'conf': [], 'confcmd': [], 'obs': [], 'langs': False}


def put(scn, sid, name, value, mstr=False):
    """Make source `sid` set option `name` to the (typed) value."""
    mval = cstr(value) if (mstr and not isinstance(value, list)) else value
    if sid == 'P':
        scn['P'].append([name, value])
    elif sid == 'PS':
        scn['P'].append([SUB + ':' + name, value])
    elif sid == 'S':
        scn['S'].append([name, value])
    elif sid == 'SC':
        scn['SC'].append([name, value])
    elif sid == 'M':
        scn['M'].append([section_of(name), name, mval])
    elif sid == 'MS':
        scn['M'].append([SUB + ':' + section_of(name), name, mval])
    elif sid == 'N':                      # native file of a cross build (build machine)
        scn['N'].append([section_of(name), name, mval])
    elif sid == 'C':
        scn['C'].append([name, cstr(value)])
    elif sid == 'CS':
        scn['C'].append([SUB + ':' + name, cstr(value)])
    elif sid == 'PB':                     # build.<opt> in project(default_options)
        scn['P'].append(['build.' + name, value])
    elif sid == 'CB':
        scn['C'].append(['build.' + name, cstr(value)])
    else:
        raise InternalError('bad source ' + sid)


def defopts_arg(pairs, dict_form):
    """The default_options keyword value as the build file would give it (list of 'k=v' or dict)."""
    if dict_form:
        return {k: v for k, v in pairs}
    return ['%s=%s' % (k, cstr(v)) for k, v in pairs]


def machine_text(entries, cross_header=False):
    secs = {}
    for sec, k, v in entries:
        if isinstance(v, int) and not isinstance(v, bool) and v < 0:
            v = str(v)      # the machine-file grammar has no negative number literal; Machine-files.md shows option2 = '2'
        secs.setdefault(sec, []).append('%s = %s\n' % (k, lit(v)))
    out = ''
    if cross_header:
        out += "[host_machine]\nsystem = 'linux'\ncpu_family = 'arm'\ncpu = 'armv7'\nendian = 'little'\n"
    for sec, lines in secs.items():
        out += '[%s]\n%s' % (sec, ''.join(lines))
    return out


def layer_texts(scn, which, cross_header=False):
    """The texts of the machine files of one kind (which: 'M' the files that describe the host machine, 'N' the native files of a
    cross build) in the order of the command line.  Ordinarily one file; scn['Mfiles'] / scn['Nfiles'] (fam_layers) give the source
    as several layers ("Loading multiple machine files"): every layer also carries a [properties] entry of its own, so that no
    layer is an empty file and every two layers share a section."""
    files = scn.get(which + 'files')
    if files is None:
        return [machine_text(scn[which], cross_header)] if (scn[which] or cross_header) else []
    return [machine_text(es, cross_header and i == 0) + '[properties]\nverif_layer%d = %d\n' % (i + 1, i + 1) for i, es in enumerate(files)]


# ------------------------------------------------------------------------------------------------------------
# Tier A: drive the real OptionStore the way Interpreter.func_project / CoreData do
_A_SEQ = [0]
_ENVMOD = {}


def _envmods():
    if not _ENVMOD:
        import mesonbuild.interpreter  # noqa: F401  (breaks the import cycle of optinterpreter)
        from mesonbuild.environment import Environment
        from mesonbuild.envconfig import Properties
        from mesonbuild.interpreter.type_checking import _default_options_convertor
        _ENVMOD.update(Environment=Environment, Properties=Properties, conv=_default_options_convertor)
    return _ENVMOD


def _tmpfile(text, suffix):
    d = os.path.join(scratch_root(), 'a%d' % os.getpid())
    os.makedirs(d, exist_ok=True)
    _A_SEQ[0] += 1
    p = os.path.join(d, '%d%s' % (_A_SEQ[0] % 64, suffix))
    with open(p, 'w', encoding='utf-8') as f:
        f.write(text)
    return p


def a_load_options(store, decls, subproject):
    """InterpreterBase._load_option_file"""
    if not decls:
        return
    mesonlib.project_meson_versions[subproject] = mesonlib.NoProjectVersion()
    path = _tmpfile(decl_text(decls), '.options')
    oi = optinterpreter.OptionInterpreter(store, subproject)
    oi.process(path)
    store.update_project_options(oi.options, subproject)


def a_machine_options(store, scn):
    """Environment.__init__: native file, then cross file, then the build-machine filter."""
    em = _envmods()
    Environment, Properties = em['Environment'], em['Properties']
    fe = types.SimpleNamespace(options={}, coredata=types.SimpleNamespace(optstore=store))
    fe.mfilestr2key = types.MethodType(Environment.mfilestr2key, fe)
    cross = scn['cross']
    native_texts = layer_texts(scn, 'N' if cross else 'M')
    if native_texts:
        cfg = machinefile.parse_machine_files([_tmpfile(t, '.ini') for t in native_texts], '/nonexistent')
        Environment._load_machine_file_options(fe, cfg, Properties(cfg.get('properties', {})),
                                               MachineChoice.BUILD if cross else MachineChoice.HOST)
    if cross:
        cfg = machinefile.parse_machine_files([_tmpfile(t, '.ini') for t in layer_texts(scn, 'M', True)], '/nonexistent')
        for key, value in list(fe.options.items()):
            if store.is_per_machine_option(key):
                fe.options[key.as_build()] = value
        Environment._load_machine_file_options(fe, cfg, Properties(cfg.get('properties', {})), MachineChoice.HOST)
    return {k: v for k, v in fe.options.items() if k.machine is MachineChoice.HOST or store.is_per_machine_option(k)}


def a_cmdline(scn, real_argparse=False):
    if real_argparse or scn.get('cspell'):
        # msetup.run: the command's own parser, then parse_cmd_line_options
        try:
            ns = cli_parse('setup', c_argv(c_entries(scn)))
        except CmdlineRejected as e:
            raise MesonException('command line refused: %s' % e)
    else:
        d = {}
        for k, v in scn['C']:
            d[OptionKey.from_string(k)] = v
        ns = types.SimpleNamespace(cmd_line_options=d, builtin_keys=set(), d_keys=set(d))
    cmdline.parse_cmd_line_options(ns)
    return ns.cmd_line_options


LATE_STD_CHOICES = ['none', 'c89', 'c99', 'c11', 'c17']


def a_add_late(store, scn, subproject, M=None):
    """CoreData.process_compiler_options for language c (host machine; plus build machine when cross); for a backend option
    Interpreter.set_backend -> Environment.init_backend_options('ninja') of the top-level project."""
    import copy
    machines = [MachineChoice.HOST] + ([MachineChoice.BUILD] if scn['cross'] else [])
    for name in scn['late']:
        if LK[name]['late'] == 'backend':
            if not subproject:
                from mesonbuild.coredata import CoreData
                Environment = _envmods()['Environment']
                cd = types.SimpleNamespace(optstore=store)
                cd.init_backend_options = types.MethodType(CoreData.init_backend_options, cd)
                fe = types.SimpleNamespace(options=dict(M or {}), coredata=cd, first_invocation=True)
                Environment.init_backend_options(fe, 'ninja')
            continue
        for m in machines:
            if name == 'c_std':
                key = OptionKey(name, subproject or None, m)
                store.add_compiler_option('c', key, O.UserComboOption(name, 'C language standard to use', 'none',
                                                                     choices=list(LATE_STD_CHOICES)))
            elif m is MachineChoice.HOST:
                key = OptionKey(name)
                skey = key.evolve(subproject=subproject) if subproject else key
                if skey not in store:
                    store.add_system_option(skey, copy.deepcopy(O.COMPILER_BASE_OPTIONS[key]))


def ref_valid_obj(opt, v):
    """Independent validity predicate; reads only the declared constraints (choices/min/max) of the option object."""
    cn = type(opt).__name__
    if cn == 'UserBooleanOption':
        return isinstance(v, bool)
    if cn in ('UserComboOption', 'UserFeatureOption', 'UserStdOption'):
        return isinstance(v, str) and v in opt.choices
    if cn == 'UserIntegerOption':
        return isinstance(v, int) and not isinstance(v, bool) and (opt.min_value is None or v >= opt.min_value) and \
            (opt.max_value is None or v <= opt.max_value)
    if cn == 'UserUmaskOption':
        return v == 'preserve' or (isinstance(v, int) and not isinstance(v, bool) and 0 <= v <= 0o777)
    if cn == 'UserStringArrayOption':
        return isinstance(v, list) and all(isinstance(x, str) for x in v) and (not opt.choices or all(x in opt.choices for x in v))
    if cn == 'UserStringOption':
        return isinstance(v, str)
    return True


def a_scan(store):
    bad = []
    for key, opt in store.options.items():
        if not ref_valid_obj(opt, opt.value):
            bad.append([str(key), repr(opt.value), type(opt).__name__])
    for key, v in store.augments.items():
        try:
            opt = store.resolve_option(key)
        except KeyError:
            continue
        if not ref_valid_obj(opt, v):
            bad.append(['augment ' + str(key), repr(v), type(opt).__name__])
    return bad


def a_observe(store, scn, where, out):
    sp = SUB if where == 'sub' else ''
    for w, name in scn['obs']:
        if w != where and not (where == 'top2' and w == 'top'):
            continue
        # Interpreter.func_get_option
        key = OptionKey.from_string(name).evolve(subproject=sp)
        try:
            v = store.get_value_for(key)
        except KeyError:
            v = '<<KeyError>>'
        if isinstance(v, list):
            v = list(v)
        elif isinstance(v, int) and not isinstance(v, bool):
            v = int(v)
        out['%s:%s' % (where, name)] = v


def run_a(scn, real_argparse=False):
    saved = mlog._logger.log_disable_stdout
    mlog._logger.log_disable_stdout = True      # restored below: forked tier-B children must log normally
    try:
        return _run_a(scn, real_argparse)
    finally:
        mlog._logger.log_disable_stdout = saved


def _run_a(scn, real_argparse):
    em = _envmods()
    res = {'rejected': None, 'obs': {}, 'bad': [], 'crash': None}
    stage = 'new'
    try:
        store = OptionStore(scn['cross'])
        store.init_builtins()
        stage = 'top-options'
        a_load_options(store, scn['top_decl'], '')
        stage = 'inputs'
        P = em['conv'](defopts_arg(scn['P'], scn['dict_form']))
        C = a_cmdline(scn, real_argparse)
        M = a_machine_options(store, scn)
        stage = 'top-init'
        store.initialize_from_top_level_project_call(P, C, M)
        stage = 'top-late'
        a_add_late(store, scn, '', M)
        a_observe(store, scn, 'top', res['obs'])
        res['bad'] += a_scan(store)
        if scn['has_sub']:
            stage = 'sub-options'
            a_load_options(store, scn['sub_decl'], SUB)
            stage = 'sub-init'
            S = em['conv'](defopts_arg(scn['S'], scn['dict_form']))
            SC = em['conv'](defopts_arg(scn['SC'], scn['dict_form']))
            store.initialize_from_subproject_call(SUB, SC, S, C, M)
            stage = 'sub-late'
            a_add_late(store, scn, SUB)
            a_observe(store, scn, 'sub', res['obs'])
            a_observe(store, scn, 'top2', res['obs'])
            res['bad'] += a_scan(store)
        for i, (k, v) in enumerate(scn['conf']):
            # `meson configure -Dk=v` : CoreData.set_from_configure_command
            stage = 'conf%d' % i
            before = {}
            a_observe(store, scn, 'top', before)
            if scn['has_sub']:
                a_observe(store, scn, 'sub', before)
            try:
                store.set_from_configure_command({OptionKey.from_string(k): v})
                res['obs']['conf%d:ok' % i] = True
            except MesonException as e:
                res['obs']['conf%d:ok' % i] = False
            after = {}
            a_observe(store, scn, 'top', after)
            if scn['has_sub']:
                a_observe(store, scn, 'sub', after)
            for kk, vv in after.items():
                res['obs']['conf%d:%s' % (i, kk)] = vv
            res['obs']['conf%d:unchanged' % i] = (before == after)
            res['bad'] += a_scan(store)
        for i, cmd in enumerate(scn.get('confcmd') or []):
            # `meson configure <args>`: mconf.run = the command's parser, parse_cmd_line_options, CoreData.set_from_configure_command
            stage = 'cc%d' % i
            before = {}
            a_observe(store, scn, 'top', before)
            try:
                ns = cli_parse('configure', c_argv(cmd) + ['bld'])
                cmdline.parse_cmd_line_options(ns)
                store.set_from_configure_command(ns.cmd_line_options)
                res['obs']['cc%d:ok' % i] = True
            except (MesonException, CmdlineRejected):
                res['obs']['cc%d:ok' % i] = False
            after = {}
            a_observe(store, scn, 'top', after)
            for kk, vv in after.items():
                res['obs']['cc%d:%s' % (i, kk)] = vv
            res['obs']['cc%d:unchanged' % i] = (before == after)
            res['bad'] += a_scan(store)
    except MesonException as e:
        res['rejected'] = [stage, str(e)[:200]]
    except Exception as e:  # anything else is an internal error of meson (unhandled exception)
        import traceback
        res['crash'] = [stage, traceback.format_exc()[-600:]]
    return res


# ------------------------------------------------------------------------------------------------------------
# reference model (from the documentation)
TOP_ORDER = ['D', 'P', 'M', 'C']   # low -> high.  Machine-files.md: "1) Command line 2) Machine file 3) Build system definitions"
SUB_ORDER = ['P', 'S', 'M', 'C', 'PS', 'SC', 'MS', 'CS']   # low -> high.  Builtin-options.md "The value is overridden in this order"
SUB_ADDRESSED = ['S', 'PS', 'SC', 'MS', 'CS']              # the sources that name the subproject's own option


def highest(order, present):
    for s in reversed(order):
        if s in present:
            return s
    return None


def ref_top(present, default):
    """Effective value of a top-level option: highest-priority present source among C > M > P, else the default."""
    w = highest(['P', 'M', 'C'], present)
    return present[w] if w else default


def ref_sub_builtin(present, default):
    """Per-subproject built-in / compiler option seen from the subproject: the documented eight-step order."""
    w = highest(SUB_ORDER, present)
    return present[w] if w else default


def ref_sub_project_option(present, d_sub):
    """The subproject's own (non-yielding) project option: only sources that address it count
    (Build-options.md: "If the value of yield is false, get_option returns the value of the subproject's option";
    "To change values in subprojects prepend the name of the subproject and a colon")."""
    w = highest(SUB_ADDRESSED, present)
    return present[w] if w else d_sub


def ndigits(nsrc, n):
    d = 1
    while n ** d < nsrc:
        d += 1
    return d


def digit(i, a, n, nd):
    ds = []
    x = i
    for _ in range(nd):
        ds.append(x % n)
        x //= n
    if a < nd:
        return ds[a]
    return (sum(ds) + (a - nd) * (i % 2)) % n


def distinct_vals(k):
    out = []
    for v in k['vals']:
        if v not in out:
            out.append(v)
    return out


def assignments(k, nsrc):
    n = len(distinct_vals(k))
    nd = ndigits(nsrc, n)
    return n, nd, max(3, nd)


# ------------------------------------------------------------------------------------------------------------
# families: generators of cases {fam, scn, exp, reject, meta}
def subsets(items):
    for r in range(len(items) + 1):
        for c in itertools.combinations(items, r):
            yield list(c)


def fam_top(names, cross, dict_form, mstr, decoy=False, with_sub=False):
    """2^4 source subsets at top level."""
    IDX = {'D': 0, 'P': 1, 'M': 2, 'C': 3}
    for name in names:
        k = ALLK[name]
        proj = name in PK
        srcs = ['D', 'P', 'M', 'C'] if proj else ['P', 'M', 'C']
        n, nd, na = assignments(k, 4)
        vals = distinct_vals(k)
        for sub in subsets(srcs):
            for a in range(na):
                scn = new_scn(cross, with_sub)
                scn['dict_form'] = dict_form
                present = {}
                val = {s: vals[digit(IDX[s], a, n, nd)] for s in IDX}
                if proj:
                    scn['top_decl'].append([name, name, val['D'] if 'D' in sub else None, False])
                    default = val['D'] if 'D' in sub else k['implicit']
                else:
                    default = vals[0]
                if name in LK:
                    mark_late(scn, name)
                for s in sub:
                    if s == 'D':
                        continue
                    put(scn, s, name, val[s], mstr)
                    present[s] = val[s]
                if decoy and cross and not k.get('permachine'):
                    # Machine-files.md: "if doing a cross build the options from the native file will be ignored"; only per-machine
                    # options take values from both files
                    put(scn, 'N', name, vals[(digit(IDX['M'], a, n, nd) + 1) % n], mstr)
                scn['obs'] = [['top', name]]
                e = ref_top(present, default)
                exp = {'top:' + name: ['eq', e] if e is not None else ['skip', 'no value: keyword: default undocumented for this type']}
                if with_sub:
                    exp['top2:' + name] = exp['top:' + name]
                yield {'fam': 'top', 'scn': scn, 'exp': exp, 'reject': 'mustnot',
                       'meta': {'name': name, 'subset': sub, 'a': a, 'winner': highest(['P', 'M', 'C'], present) or 'D',
                                'nsrc': len(present) + (1 if (not proj or 'D' in sub) else 0)}}


def fam_permachine(names):
    """Cross build: host value and build.value resolve independently (Builtin-options.md "Specifying options per machine")."""
    IDX = {'D': 0, 'P': 1, 'M': 2, 'C': 3, 'PB': 4, 'N': 5, 'CB': 6}
    for name in names:
        k = ALLK[name]
        n, nd, na = assignments(k, 7)
        vals = distinct_vals(k)
        for sub in subsets(['P', 'M', 'C', 'PB', 'N', 'CB']):
            for a in range(na):
                scn = new_scn(True, False)
                val = {s: vals[digit(IDX[s], a, n, nd)] for s in IDX}
                if name in LK:
                    mark_late(scn, name)
                host, build = {}, {}
                for s in sub:
                    put(scn, s, name, val[s])
                    if s in ('P', 'M', 'C'):
                        host[s] = val[s]
                    else:
                        build[{'PB': 'P', 'N': 'M', 'CB': 'C'}[s]] = val[s]
                scn['obs'] = [['top', name], ['top', 'build.' + name]]
                exp = {'top:' + name: ['eq', ref_top(host, vals[0])], 'top:build.' + name: ['eq', ref_top(build, vals[0])]}
                yield {'fam': 'permachine', 'scn': scn, 'exp': exp, 'reject': 'mustnot',
                       'meta': {'name': name, 'subset': sub, 'a': a, 'nsrc': len(sub) + 1}}


SUB_IDX = {'D': 0, 'DS': 1, 'P': 2, 'S': 3, 'M': 4, 'C': 5, 'PS': 6, 'SC': 7, 'MS': 8, 'CS': 9}
OTHER_KIND = {'vstr': 'vbool', 'vbool': 'vstr', 'vint': 'vstr', 'vcombo': 'vstr', 'varr': 'vstr', 'vfeat': 'vstr', 'varrf': 'vstr'}


ALIAS_PREFIX = {'pnon': 'v', 'pyield': 'y', 'pyieldT': 't', 'pnon0': 'z', 'pyield0': 'w', 'bsub': None}


def fam_sub(mode, names, cross, dict_form, mstr, only_subsets=None):
    """2^8 source subsets for an option seen from subproject `sub`.
    mode: bsub    per-subproject built-in (or compiler) option
          pnon    subproject project option, yield: false, parent declares an option of the same name and type
          pyield  the same with yield: true
          pnon0 / pyield0   parent has no option of that name
          pyieldT yield: true, parent's option of that name has another type"""
    variants = []
    for kind in names:
        variants.append((kind, None, None))
        if mode == 'pyieldT':
            # every other parent type as well (one type is a subclass of another in the implementation: feature < combo),
            # on the subsets that decide whether the parent's value is taken at all
            for pk2 in PK:
                if pk2 not in (kind, OTHER_KIND[kind]):
                    variants.append((kind, pk2, [[], ['P'], ['C'], ['S'], ['CS'], ['P', 'S']]))
    for kind, pk_override, sub_override in variants:
        k = ALLK[kind]
        name = kind if mode == 'bsub' else ALIAS_PREFIX[mode] + kind[1:]    # distinct option names per mode (tier B merges modes)
        if pk_override:
            name += '_' + pk_override[1:]
        n, nd, na = assignments(k, 10)
        vals = distinct_vals(k)
        for sub in (sub_override if sub_override is not None else only_subsets if only_subsets is not None else subsets(SUB_ORDER)):
            unprefixed = [s for s in sub if s in ('P', 'M', 'C')]
            if mode in ('pnon0', 'pyield0') and unprefixed:
                # `opt=value` addressing an option that only the subproject declares: docs speak of built-in options
                yield {'fam': 'sub-' + mode, 'skip': 'unprefixed opt=value for an option only the subproject declares',
                       'meta': {'name': name, 'subset': sub}}
                continue
            for a in range(na):
                scn = new_scn(cross, True)
                scn['dict_form'] = dict_form
                val = {s: vals[digit(SUB_IDX[s], a, n, nd)] for s in SUB_IDX}
                present = {}
                exp = {}
                weak = False
                if mode == 'bsub':
                    if name in LK:
                        mark_late(scn, name)
                    for s in sub:
                        put(scn, s, name, val[s], mstr)
                        present[s] = val[s]
                    exp['sub:' + name] = ['eq', ref_sub_builtin(present, vals[0])]
                    exp['top:' + name] = exp['top2:' + name] = ['eq', ref_top(present, vals[0])]
                else:
                    yielding = mode.startswith('pyield')
                    scn['sub_decl'].append([name, kind, val['DS'], yielding])
                    pk = None
                    if mode in ('pnon', 'pyield'):
                        pk = kind
                    elif mode == 'pyieldT':
                        pk = pk_override or OTHER_KIND[kind]
                    pvals = distinct_vals(PK[pk]) if pk else None
                    pval = None
                    if pk:
                        pn, pnd, _ = assignments(PK[pk], 10)
                        pval = {s: pvals[digit(SUB_IDX[s], a % max(3, pnd), pn, pnd)] for s in SUB_IDX}
                        scn['top_decl'].append([name, pk, pval['D'], False])
                    ppresent = {}
                    for s in sub:
                        if s in ('P', 'M', 'C'):
                            put(scn, s, name, pval[s], mstr)
                            ppresent[s] = pval[s]
                        else:
                            put(scn, s, name, val[s], mstr)
                            present[s] = val[s]
                    own = ref_sub_project_option(present, val['DS'])
                    if pk:
                        parent = ref_top(ppresent, pval['D'])
                        exp['top:' + name] = exp['top2:' + name] = ['eq', parent]
                    if mode in ('pnon', 'pnon0', 'pyield0'):
                        # pyield0: "If you build this project on its own, this option behaves like usual": nothing to yield to
                        exp['sub:' + name] = ['eq', own]
                    elif mode == 'pyield':
                        # "get_option returns the value of the superproject"; "-Dsub:some_option=anothervalue, when used with a
                        # yielding option, sets the value separately from the option it yields to"
                        if 'CS' in present:
                            exp['sub:' + name] = ['eq', present['CS']]
                        elif not present:
                            exp['sub:' + name] = ['eq', parent]
                        else:
                            # S / PS / SC / MS also name the subproject's option; the docs only spell out the -D case
                            exp['sub:' + name] = ['in', [parent, own]]
                            weak = True
                    elif mode == 'pyieldT':
                        # docs do not mention types; a parent value can only be used if it is a valid value of the option
                        acc = [own]
                        if ref_valid_kind(k, parent):
                            acc.append(parent)
                        exp['sub:' + name] = ['in', acc] if len(acc) > 1 else ['eq', own]
                        weak = len(acc) > 1
                scn['obs'] = [['top', name], ['sub', name]] if (mode == 'bsub' or scn['top_decl']) else [['sub', name]]
                yield {'fam': 'sub-' + mode, 'scn': scn, 'exp': exp, 'reject': 'mustnot', 'weak': weak,
                       'meta': {'name': name, 'kind': kind, 'subset': sub, 'a': a, 'nsrc': len(sub) + 1,
                                'winner': highest(SUB_ORDER, {s: 1 for s in sub}) or 'D'}}


def ref_valid_kind(k, v):
    """Is v a valid value for an option of the documented kind k (type / choices / range)?"""
    t = k['type']
    if t == 'string':
        return isinstance(v, str)
    if t == 'boolean':
        return isinstance(v, bool)
    if t == 'integer':
        return isinstance(v, int) and not isinstance(v, bool) and ('min' not in k or v >= k['min']) and ('max' not in k or v <= k['max'])
    if t == 'combo':
        return isinstance(v, str) and v in k['choices']
    if t == 'feature':
        return v in ('enabled', 'disabled', 'auto')
    if t == 'array':
        return isinstance(v, list) and all(isinstance(x, str) for x in v) and ('choices' not in k or all(x in k['choices'] for x in v))
    return False


# ------------------------------------------------------------------------------------------------------------
# the declared default ("... then the declared default"): the lowest source of every order, in every shape it can have
DEF_PLACES = {
    # place: the sources that can stand above the declared default there, each taken alone
    'top':    ['P', 'M', 'C'],                                  # option of the top-level project
    'own':    ['S', 'PS', 'SC', 'MS', 'CS'],                    # option that only the subproject declares
    'shadow': ['P', 'M', 'C', 'S', 'PS', 'SC', 'MS', 'CS'],     # subproject option, yield: false; the parent declares the same name
    'yield':  ['P', 'M', 'C', 'S', 'PS', 'SC', 'MS', 'CS'],     # subproject option, yield: true: the *parent's* declared default counts
}


def dd_declared(k, tag):
    """-> (what is written after `value:` or None for no keyword, the default the docs promise or None when they are silent)."""
    if tag == 'n':
        return None, k['implicit']
    v = k['vals'][int(tag)]
    return v, v


def dd_other(k, v):
    """A value of the kind that differs from v (the declared default of the *other* project's option of the same name)."""
    return [x for x in k['vals'] if x != v][0]


def fam_default(place, cross=False, dict_form=False, mstr=False):
    """Every kind of project option x every shape of its declared default (no `value:`, each of the kind's values incl. the
    empty / zero / false / first-choice one) x {no higher source} + {each single higher source of the place x each value of the
    kind}.  Expected (Build-options.md; Builtin-options.md / Machine-files.md for the order): with no higher source the declared
    default -- whatever it is -- is the effective value; a higher source replaces it -- also with the empty / zero / false value."""
    srcs = DEF_PLACES[place]
    for kind, k in DK.items():
        for tag in DEF_TAGS:
            if tag != 'n' and int(tag) >= len(k['vals']):
                continue
            name = dd_name(kind, tag)
            dval, deff = dd_declared(k, tag)
            for src in [None] + srcs:
                for oi in ([None] if src is None else range(len(k['vals']))):
                    scn = new_scn(cross, place != 'top')
                    scn['dict_form'] = dict_form
                    ov = None if src is None else k['vals'][oi]
                    unknown = ['skip', 'no value: keyword: default undocumented for this type']
                    as_exp = lambda v: ['eq', v] if v is not None else unknown
                    exp = {}
                    weak = False
                    if place == 'top':
                        scn['top_decl'].append([name, kind, dval, False])
                        scn['obs'] = [['top', name]]
                        exp['top:' + name] = as_exp(deff if src is None else ov)
                    elif place == 'own':
                        scn['sub_decl'].append([name, kind, dval, False])
                        scn['obs'] = [['sub', name]]
                        exp['sub:' + name] = as_exp(deff if src is None else ov)
                    elif place == 'shadow':
                        pdef = dd_other(k, deff)
                        scn['top_decl'].append([name, kind, pdef, False])
                        scn['sub_decl'].append([name, kind, dval, False])
                        scn['obs'] = [['top', name], ['sub', name]]
                        exp['top:' + name] = exp['top2:' + name] = ['eq', ov if src in ('P', 'M', 'C') else pdef]
                        exp['sub:' + name] = as_exp(ov if src in SUB_ADDRESSED else deff)
                    else:
                        sdef = dd_other(k, deff)
                        scn['top_decl'].append([name, kind, dval, False])
                        scn['sub_decl'].append([name, kind, sdef, True])
                        scn['obs'] = [['top', name], ['sub', name]]
                        parent = ov if src in ('P', 'M', 'C') else deff
                        exp['top:' + name] = exp['top2:' + name] = as_exp(parent)
                        if src == 'CS':
                            exp['sub:' + name] = ['eq', ov]     # "sets the value separately from the option it yields to"
                        elif src in SUB_ADDRESSED and parent is not None:
                            exp['sub:' + name] = ['in', [parent, ov]]       # (as in fam_sub: the docs only spell out the -D case)
                            weak = True
                        elif src in SUB_ADDRESSED:
                            exp['sub:' + name] = unknown
                        else:
                            exp['sub:' + name] = as_exp(parent)             # "get_option returns the value of the superproject"
                    if src is not None:
                        put(scn, src, name, ov, mstr)
                    yield {'fam': 'default-' + place, 'scn': scn, 'exp': exp, 'reject': 'mustnot', 'weak': weak,
                           'meta': {'name': name, 'kind': kind, 'place': place, 'tag': tag, 'source': src, 'oi': oi,
                                    'winner': src or 'D', 'nsrc': 1 + (src is not None)}}


def default_counters(case):
    """Coverage counters of the declared-default dimension: <place>:<kind>:<shape of the default>:<the one higher source | none>."""
    m = case['meta']
    if not case['fam'].startswith('default-'):
        return []
    if 'kind' in m:
        return ['%s:%s:%s:%s' % (m['place'], m['kind'], m['tag'], m['source'] or 'none')]
    return ['%s:%s:%s:%s' % (m['place'], d[1], d[0][-1], m['source'] or 'none')          # a merged tier B project: one per option
            for d in (case['scn']['top_decl'] if m['place'] in ('top', 'yield') else case['scn']['sub_decl'])]


def default_part(dd):
    """Summary of the counters for the evidence + the list of cells of the dimension that no case hit (must be empty)."""
    missing = []
    by_place = {}
    shapes = {}
    for place, srcs in DEF_PLACES.items():
        bp = by_place[place] = {'declared_default_in_effect': 0, 'overridden_by': {s: 0 for s in srcs}}
        for kind, k in DK.items():
            for tag in DEF_TAGS:
                if tag != 'n' and int(tag) >= len(k['vals']):
                    continue
                for src in ['none'] + srcs:
                    n = dd.get('%s:%s:%s:%s' % (place, kind, tag, src), 0)
                    if not n:
                        missing.append('%s:%s:%s:%s' % (place, kind, tag, src))
                    if src == 'none':
                        bp['declared_default_in_effect'] += n
                        shapes.setdefault(k['type'], {})
                        label = 'no value:' if tag == 'n' else lit(k['vals'][int(tag)])
                        shapes[k['type']][label] = shapes[k['type']].get(label, 0) + n
                    else:
                        bp['overridden_by'][src] += n
    return by_place, shapes, missing


# ------------------------------------------------------------------------------------------------------------
# the machine-file source given as several files.  Machine-files.md, "Loading multiple machine files": "More than one file can be
# loaded, with values from a previous file being overridden by the next.  The intention of this is not overriding, but to allow
# composing files ... first.ini will be loaded, then second.ini, with values from second.ini replacing first.ini, and so on."
# So "the machine file" of the precedence order is the composition of the files given: for every option the value of the last
# file that sets it -- whatever else that file or the other files say, in the same section or in another one.
LAYER_OPTS = [      # (option, place): which section of the machine file addresses it and where it is observed
    ('warning_level', 'top-builtin'), ('default_library', 'top-builtin'),       # [built-in options]
    ('vcombo', 'top-project'), ('varr', 'top-project'),                         # [project options]
    ('zstr', 'sub-project'), ('zfeat', 'sub-project'),                          # [sub:project options]
    ('unity', 'sub-builtin'), ('werror', 'sub-builtin'),                        # [sub:built-in options]
]
LAYER_IDX = {'D': 0, 'L': 1, 'F1': 2, 'F2': 3, 'F3': 4, 'H': 5}
# tier B: two partitions of the options into disjoint pairs (one project carries the four pairs of a partition): the two options
# of each section / two options of different sections
LAYER_MATCHINGS = [[(0, 1), (2, 3), (4, 5), (6, 7)], [(0, 2), (1, 4), (3, 6), (5, 7)]]


def layer_option(scn, exp, lay, name, place, pl, comp, a, mstr):
    """Option `name` is set by the layers pl (indices into scn['Mfiles']) of the machine-file source, by the next lower source of
    its place if comp & 1 and by the next higher one if comp & 2."""
    kind = kind_of(name)
    vals = distinct_vals(kind)
    n = len(vals)
    nd = ndigits(len(LAYER_IDX), n)
    val = {s: vals[digit(i, a, n, nd)] for s, i in LAYER_IDX.items()}
    lo, ms, hi = ('P', 'M', 'C') if place.startswith('top') else ('SC', 'MS', 'CS')
    if place == 'top-project':
        scn['top_decl'].append([name, 'v' + name[1:], val['D'], False])
        default = val['D']
    elif place == 'sub-project':
        scn['sub_decl'].append([name, 'v' + name[1:], val['D'], False])
        default = val['D']
    else:
        default = vals[0]
    present = {}
    if comp & 1:
        put(scn, lo, name, val['L'], mstr)
        present[lo] = val['L']
    if pl:
        composed = val['F%d' % (pl[-1] + 1)]        # "values from a previous file being overridden by the next"
        put(scn, ms, name, composed, mstr)          # (scn['M']: the composition, what a single file would say)
        present[ms] = composed
        for f in pl:
            t = new_scn()
            put(t, ms, name, val['F%d' % (f + 1)], mstr)
            scn['Mfiles'][f].append(t['M'][0])
    if comp & 2:
        put(scn, hi, name, val['H'], mstr)
        present[hi] = val['H']
    if place.startswith('top'):
        scn['obs'].append(['top', name])
        exp['top:' + name] = exp['top2:' + name] = ['eq', ref_top(present, default)]
    elif place == 'sub-project':
        scn['obs'].append(['sub', name])
        exp['sub:' + name] = ['eq', ref_sub_project_option(present, default)]
    else:
        scn['obs'] += [['top', name], ['sub', name]]
        exp['sub:' + name] = ['eq', ref_sub_builtin(present, default)]
        exp['top:' + name] = exp['top2:' + name] = ['eq', default]      # nothing addresses the parent's value
    sec = (SUB + ':' if ms == 'MS' else '') + section_of(name)
    lay[name] = {'place': place, 'section': sec, 'in_layers': list(pl), 'machine_source': ms,
                 'layer_values': [val['F%d' % (f + 1)] if f in pl else None for f in range(len(scn['Mfiles']))]}
    return highest([lo, ms, hi], present) or 'D'


def fam_layers(cross=False, nfiles=2, dict_form=False, mstr=False, pairs=None, only_a=None, comps=(0, 1, 2, 3)):
    """The machine-file source written as nfiles layers (--native-file a --native-file b; --cross-file a --cross-file b for a cross
    build).  Every pair of options of LAYER_OPTS (same section, different sections) x for each of the two the set of layers that
    set it (every subset; values differ from layer to layer) x {nothing else, the next lower source, the next higher source, both}
    x 3 digit-scheme value assignments.  Expected: the composition of the layers takes the place of "the machine file" in the
    documented order; a single layer that sets everything is the control."""
    plc = list(subsets(list(range(nfiles))))
    for i, j in (pairs if pairs is not None else itertools.combinations(range(len(LAYER_OPTS)), 2)):
        for pi in plc:
            for pj in plc:
                if not pi and not pj:
                    continue
                for comp in comps:
                    for a in range(3):
                        if only_a is not None and a != only_a:
                            continue
                        scn = new_scn(cross, True)
                        scn['dict_form'] = dict_form
                        scn['Mfiles'] = [[] for _ in range(nfiles)]
                        exp, lay = {}, {}
                        w = [layer_option(scn, exp, lay, LAYER_OPTS[x][0], LAYER_OPTS[x][1], pl, comp, a, mstr) for x, pl in ((i, pi), (j, pj))]
                        yield {'fam': 'machine-layers', 'scn': scn, 'exp': exp, 'reject': 'mustnot',
                               'meta': {'pair': [LAYER_OPTS[i][0], LAYER_OPTS[j][0]], 'placement': [pi, pj], 'comp': comp, 'a': a,
                                        'nfiles': nfiles, 'layers': lay, 'nsrc': len(pi) + len(pj) + 2 * bin(comp).count('1'),
                                        'winner': '%s-layers%s-of-%d' % (w[0], ''.join(str(f + 1) for f in pi) or '0', nfiles)}}


def fam_layers_merged(matching, **kwargs):
    """Tier B: one project for the four disjoint pairs of a matching (same placement, competitors and assignment)."""
    groups = {}
    for c in fam_layers(pairs=LAYER_MATCHINGS[matching], **kwargs):
        groups.setdefault((repr(c['meta']['placement']), c['meta']['comp'], c['meta']['a']), []).append(c)
    for _, g in sorted(groups.items()):
        m = merge_cases(g, 'machine-layers')
        m['scn']['Mfiles'] = [sum((c['scn']['Mfiles'][f] for c in g), []) for f in range(g[0]['meta']['nfiles'])]
        m['meta'].update(matching=matching, placement=g[0]['meta']['placement'], comp=g[0]['meta']['comp'], nfiles=g[0]['meta']['nfiles'],
                         layers={k: v for c in g for k, v in c['meta']['layers'].items()})
        yield m


def layer_counters(case):
    """Coverage counters of the layering dimension, per observed option of a case."""
    if not case['fam'].startswith('machine-layers'):
        return []
    out = []
    lay = case['meta']['layers']
    nf = case['meta']['nfiles']
    for name, L in lay.items():
        pl = L['in_layers']
        if not pl:
            out.append('option-in-no-layer')
            continue
        out.append('option-in-%d-of-%d-layers' % (len(pl), nf))
        if len(pl) > 1:
            out.append('later-layer-replaces-value-of-earlier-layer')
        later_same = [o for o, M in lay.items() if o != name and M['section'] == L['section'] and any(f > pl[-1] for f in M['in_layers'])]
        later_other = [o for o, M in lay.items() if o != name and M['section'] != L['section'] and any(f > pl[-1] for f in M['in_layers'])]
        if later_same:
            out.append('value-of-earlier-layer-stands-while-a-later-layer-has-the-same-section:' + L['section'])
        if later_other:
            out.append('value-of-earlier-layer-stands-while-a-later-layer-has-another-section')
    return out


def layer_key(case, where, name, e, got):
    """Which statement about layers the observed value contradicts (computed from the layer values of the case)."""
    L = case['meta']['layers'].get(name)
    if L is None:
        return None
    lv = [cstr(v) if v is not None else None for v in L['layer_values']]
    pl = L['in_layers']
    g = cstr(got) if isinstance(got, (bool, int, str, list)) else got
    if e[0] == 'eq' and pl and cstr(e[1]) == lv[pl[-1]] and (where != 'top' and where != 'top2' or L['machine_source'] == 'M'):
        if any(g == lv[f] and lv[f] != lv[pl[-1]] for f in pl[:-1]):
            what = 'later-layer-does-not-replace-the-value-of-an-earlier-layer'
        elif pl[-1] < len(lv) - 1:
            what = 'value-set-only-in-an-earlier-layer-not-in-effect'
        else:
            what = 'value-set-in-the-last-layer-not-in-effect'
    elif any(g == lv[f] for f in pl):
        what = 'machine-file-value-in-effect-against-a-higher-source-or-in-the-wrong-place'
    else:
        what = 'other-value'
    return 'C07:machine-layers:%s:%s' % (L['place'], what)


# ------------------------------------------------------------------------------------------------------------
# buildtype / debug / optimization
BT_STATES = [[]]
for _r in range(1, 4):
    for _c in itertools.combinations(['buildtype', 'debug', 'optimization'], _r):
        BT_STATES.append(list(_c))
        if 'buildtype' in _c and len(_c) > 1:
            BT_STATES.append([x for x in _c if x != 'buildtype'] + ['buildtype'])
BT_IDX = {'P': 1, 'S': 2, 'M': 3, 'C': 4, 'PS': 5, 'SC': 6, 'MS': 7, 'CS': 0}
BT_VALS = ['release', 'minsize', 'debugoptimized', 'plain', 'debug']


def bt_value(name, sid, a):
    i = BT_IDX[sid]
    if name == 'buildtype':
        return BT_VALS[(i + 2 * a) % 5]
    b = digit(i, a, 2, 3)
    return bool(b) if name == 'debug' else ['1', 'g'][b]   # '1' and 'g' are implied by no buildtype


def bt_levels(order, per_source, start=('debug', True, '0')):
    """Model L: a buildtype given by a source stands for the debug/optimization pair of the table *at the priority of that
    source* ("-Dbuildtype=debugoptimized is the same as -Ddebug=true -Doptimization=2"); explicit debug/optimization of the
    same source win over it ("unless they are given explicitly")."""
    bt, d, o = start
    for s in order:
        ent = per_source.get(s)
        if not ent:
            continue
        if 'buildtype' in ent:
            bt = ent['buildtype']
            if bt in BUILDTYPE_TABLE:
                d, o = BUILDTYPE_TABLE[bt]
        d = ent.get('debug', d)
        o = ent.get('optimization', o)
    return bt, d, o


def bt_explicit(order, per_source, start=('debug', True, '0')):
    """Model E: an explicitly given debug/optimization (from any source) always wins over a value implied by a buildtype."""
    bt, d, o = start
    for s in order:
        ent = per_source.get(s) or {}
        if 'buildtype' in ent:
            bt = ent['buildtype']
            d, o = BUILDTYPE_TABLE[bt]
    for s in order:
        ent = per_source.get(s) or {}
        d = ent.get('debug', d)
        o = ent.get('optimization', o)
    return bt, d, o


def bt_expect(order, per_source, start=('debug', True, '0')):
    L = bt_levels(order, per_source, start)
    E = bt_explicit(order, per_source, start)
    out = [['eq', L[0]]]
    weak = False
    for i in (1, 2):
        if L[i] == E[i]:
            out.append(['eq', L[i]])
        else:
            out.append(['in', [L[i], E[i]]])
            weak = True
    return out, weak


def fam_buildtype_top(cross=False, dict_form=False):
    for sp, sm, sc in itertools.product(BT_STATES, repeat=3):
        for a in range(3):
            scn = new_scn(cross, False)
            scn['dict_form'] = dict_form
            per = {}
            for sid, st in (('P', sp), ('M', sm), ('C', sc)):
                for nm in st:
                    v = bt_value(nm, sid, a)
                    put(scn, sid, nm, v)
                    per.setdefault(sid, {})[nm] = v
            scn['obs'] = [['top', 'buildtype'], ['top', 'debug'], ['top', 'optimization']]
            (eb, ed, eo), weak = bt_expect(['P', 'M', 'C'], per)
            exp = {'top:buildtype': eb, 'top:debug': ed, 'top:optimization': eo}
            late_bt = [s for s, st in (('P', sp), ('M', sm), ('C', sc)) if len(st) > 1 and st[-1] == 'buildtype']
            yield {'fam': 'buildtype-top', 'scn': scn, 'exp': exp, 'reject': 'mustnot', 'weak': weak,
                   'meta': {'states': [sp, sm, sc], 'a': a, 'bt_listed_last': late_bt, 'nsrc': sum(1 for x in (sp, sm, sc) if x)}}


def fam_buildtype_sub(cross=False, max_sources=2):
    ids = SUB_ORDER
    for r in range(1, max_sources + 1):
        for combo in itertools.combinations(ids, r):
            for states in itertools.product(BT_STATES[1:], repeat=r):
                for a in range(2 if r > 1 else 3):
                    scn = new_scn(cross, True)
                    per = {}
                    for sid, st in zip(combo, states):
                        for nm in st:
                            v = bt_value(nm, sid, a)
                            put(scn, sid, nm, v)
                            per.setdefault(sid, {})[nm] = v
                    scn['obs'] = [[w, n] for w in ('top', 'sub') for n in ('buildtype', 'debug', 'optimization')]
                    (tb, td, to), w1 = bt_expect(['P', 'M', 'C'], per)
                    (sb, sd, so), w2 = bt_expect(SUB_ORDER, per)
                    exp = {'top:buildtype': tb, 'top:debug': td, 'top:optimization': to,
                           'top2:buildtype': tb, 'top2:debug': td, 'top2:optimization': to,
                           'sub:buildtype': sb, 'sub:debug': sd, 'sub:optimization': so}
                    late_bt = [s for s, st in zip(combo, states) if len(st) > 1 and st[-1] == 'buildtype']
                    yield {'fam': 'buildtype-sub', 'scn': scn, 'exp': exp, 'reject': 'mustnot', 'weak': w1 or w2,
                           'meta': {'sources': list(combo), 'states': list(states), 'a': a, 'bt_listed_last': late_bt, 'nsrc': r}}


# ------------------------------------------------------------------------------------------------------------
# the spelling of the command-line source as a dimension of the families above
def fam_flagged(base, style, **kwargs):
    """The cases of family `base` whose command line sets at least one option that has a long flag, with every such entry
    written as --name=value ('eq') / --name value ('sp') / --name (boolean switch) instead of -Dname=value.  Expectations are
    those of the base family: the spelling of a source does not enter the documented precedence.  Entries that cannot be
    written as a flag (subp:name, project / compiler / base options, false for a switch) stay -D."""
    for c in globals()[base](**kwargs):
        if 'skip' in c:
            continue
        n = set_spelling(c['scn'], style)
        if not n:
            continue
        c['fam'] += '-flag'
        c['meta']['cstyle'] = style
        c['meta']['flag_spelled'] = n
        yield c


def bt_spellings(state, with_all_D):
    """Every way of spelling the listed options: buildtype / optimization as -D, --name=value, --name value; debug as -D or
    the --debug switch."""
    per = [('D', 'bare') if nm == 'debug' else ('D',) + FLAG_STYLES for nm in state]
    for styles in itertools.product(*per):
        if with_all_D or any(st != 'D' for st in styles):
            yield list(styles)


def bt_class(names, styles, vals):
    """Anti-vacuity classifier: the command gives buildtype and an explicit debug/optimization that differs from what the
    buildtype implies (so a buildtype that wins is visible) -> '<spelling of buildtype>-<its position>'."""
    if 'buildtype' not in names or len(names) < 2 or vals['buildtype'] == 'debug':
        return None     # (buildtype=debug is the documented default and implies the default debug/optimization: counted as not visible)
    d, o = BUILDTYPE_TABLE[vals['buildtype']]
    if not (('debug' in vals and vals['debug'] != d) or ('optimization' in vals and vals['optimization'] != o)):
        return None
    return '%s-%s' % ('D' if styles[names.index('buildtype')] == 'D' else 'flag', 'last' if names[-1] == 'buildtype' else 'first')


def fam_buildtype_top_flag(pm_max=1, cross=False):
    """buildtype / debug / optimization on the `meson setup` command line: every subset, both listing orders, every spelling of
    every option (all -D is fam_buildtype_top), against every state of default_options and machine file with <= pm_max entries."""
    pm_states = [st for st in BT_STATES if len(st) <= pm_max]
    for sc in BT_STATES[1:]:
        for styles in bt_spellings(sc, False):
            for sp, sm in itertools.product(pm_states, repeat=2):
                for a in range(3):
                    scn = new_scn(cross, False)
                    per = {}
                    for sid, st in (('P', sp), ('M', sm), ('C', sc)):
                        for nm in st:
                            v = bt_value(nm, sid, a)
                            if sid == 'C' and nm == 'debug' and styles[sc.index(nm)] == 'bare':
                                v = True
                            put(scn, sid, nm, v)
                            per.setdefault(sid, {})[nm] = v
                    for nm, st in zip(sc, styles):
                        if st != 'D':
                            scn['cspell'][nm] = st
                    scn['obs'] = [['top', 'buildtype'], ['top', 'debug'], ['top', 'optimization']]
                    (eb, ed, eo), weak = bt_expect(['P', 'M', 'C'], per)
                    exp = {'top:buildtype': eb, 'top:debug': ed, 'top:optimization': eo}
                    late_bt = [s for s, st in (('P', sp), ('M', sm), ('C', sc)) if len(st) > 1 and st[-1] == 'buildtype']
                    yield {'fam': 'buildtype-top-flag', 'scn': scn, 'exp': exp, 'reject': 'mustnot', 'weak': weak,
                           'meta': {'states': [sp, sm, sc], 'styles': styles, 'a': a, 'bt_listed_last': late_bt,
                                    'btclass': bt_class(sc, styles, per['C']), 'nsrc': sum(1 for x in (sp, sm, sc) if x)}}


CONF_SETUP_STATES = [[], ['optimization'], ['debug'], ['buildtype']]


def fam_buildtype_configure(setup_states=None, cross=False):
    """`meson configure` giving buildtype / debug / optimization: every subset, both listing orders, every spelling, after a
    `meson setup` whose command line gave none or one of them.  The configure command is one more command-line source on top
    of the earlier one (Builtin-options.md: "They can also be edited after setup using meson configure -Doption=value")."""
    for s0 in (CONF_SETUP_STATES if setup_states is None else setup_states):
        for sk in BT_STATES[1:]:
            for styles in bt_spellings(sk, True):
                for a in range(3):
                    scn = new_scn(cross, False)
                    per = {}
                    for nm in s0:
                        v = bt_value(nm, 'C', a)
                        put(scn, 'C', nm, v)
                        per.setdefault('C', {})[nm] = v
                    cmd = []
                    for nm, st in zip(sk, styles):
                        v = True if (nm == 'debug' and st == 'bare') else bt_value(nm, 'PS', a)   # the values of another source
                        cmd.append([nm, cstr(v), st])
                        per.setdefault('K', {})[nm] = v
                    scn['confcmd'] = [cmd]
                    scn['obs'] = [['top', 'buildtype'], ['top', 'debug'], ['top', 'optimization']]
                    (eb, ed, eo), weak = bt_expect(['C', 'K'], per)
                    exp = {'cc0:ok': ['eq', True], 'cc0:top:buildtype': eb, 'cc0:top:debug': ed, 'cc0:top:optimization': eo}
                    (sb, sd, so), _ = bt_expect(['C'], per)
                    exp.update({'top:buildtype': sb, 'top:debug': sd, 'top:optimization': so})
                    yield {'fam': 'buildtype-configure', 'scn': scn, 'exp': exp, 'reject': 'mustnot', 'weak': weak,
                           'meta': {'setup': s0, 'configure': sk, 'styles': styles, 'a': a, 'btclass': bt_class(sk, styles, per['K']),
                                    'nsrc': 1 + (1 if s0 else 0)}}


WIPE_NAMES = ['vstr', 'vcombo', 'vbool', 'warning_level', 'default_library', 'werror', 'unity_size', 'bindir', 'wrap_mode']


def fam_wipe(cross=False):
    """`meson setup --wipe` with and without new -D values, after a setup whose command line gave the option (or not): the wipe
    configures the directory again from the recorded command line plus its own, and its own command line is the highest-priority
    source (Commands.md, setup --wipe: "Wipe build directory and reconfigure using previous command line options"; a value given
    now is a command-line value like any other).  Tier B only (a real build directory)."""
    for name in WIPE_NAMES:
        k = ALLK[name]
        vals = distinct_vals(k)
        if len(vals) < 2:
            continue
        proj = name in PK
        v1, v2 = vals[1 % len(vals)], vals[-1] if vals[-1] != vals[1 % len(vals)] else vals[0]
        for first in ('C', 'none'):
            for second in ('same-option', 'none', 'other-option', 'twice'):
                scn = new_scn(cross, False)
                if proj:
                    scn['top_decl'].append([name, name, vals[0], False])
                if first == 'C':
                    put(scn, 'C', name, v1)
                now = v1 if first == 'C' else vals[0]
                cmds = []
                exp = {'top:' + name: ['eq', now]}
                other = 'datadir' if name != 'datadir' else 'bindir'
                steps = {'same-option': [[[name, cstr(v2), 'D']]], 'none': [[]], 'other-option': [[[other, 'sh2', 'D']]],
                         'twice': [[[name, cstr(v2), 'D']], []]}[second]
                for i, cmd in enumerate(steps):
                    for n_, v_, _st in cmd:
                        if n_ == name:
                            now = v2
                    exp['wc%d:ok' % i] = ['eq', True]
                    exp['wc%d:top:%s' % (i, name)] = ['eq', now]
                scn['wipecmd'] = steps
                scn['obs'] = [['top', name]]
                yield {'fam': 'wipe', 'scn': scn, 'exp': exp, 'reject': 'mustnot',
                       'meta': {'name': name, 'first': first, 'second': second, 'nsrc': 1 + (first == 'C')}}


CONF_FLAG_NAMES = ['warning_level', 'werror', 'unity_size', 'default_library', 'optimization', 'wrap_mode', 'python.bytecompile',
                   'force_fallback_for', 'bindir']


def fam_conf_flag(bases=None, cross=False):
    """`meson configure` setting one built-in option of the build, in every spelling, valid and invalid values, after a setup in
    which none / one of the documented sources set it: the command's value is the effective one, an invalid one is refused and
    changes nothing."""
    for name in CONF_FLAG_NAMES:
        k = ALLK[name]
        vals = distinct_vals(k)
        invs = [(iv, cls) for cls, iv, typed in INVALID.get(name, []) if not typed]
        for base in ([[], ['P'], ['M'], ['C']] if bases is None else bases):
            for v, valid in [(cstr(vals[-1]), None)] + invs:
                cls, valid = valid, valid is None
                for style in ('D',) + FLAG_STYLES:
                    st = 'D' if style == 'D' else flag_style(name, v, style, 'configure')
                    if st is None or (st == 'bare' and style != FLAG_STYLES[0]):
                        continue        # cannot be said with a flag / the switch has one spelling
                    scn = new_scn(cross, False)
                    present = {}
                    for s in base:
                        put(scn, s, name, vals[1 % len(vals)])
                        present[s] = vals[1 % len(vals)]
                    scn['confcmd'] = [[[name, v, st]]]
                    scn['obs'] = [['top', name]]
                    exp = {'top:' + name: ['eq', ref_top(present, vals[0])]}
                    if valid:
                        exp.update({'cc0:ok': ['eq', True], 'cc0:top:' + name: ['eq', vals[-1]]})
                    else:
                        exp.update({'cc0:ok': ['eq', False], 'cc0:unchanged': ['eq', True]})
                    yield {'fam': 'configure-flag', 'scn': scn, 'exp': exp, 'reject': 'mustnot',
                           'meta': {'name': name, 'base': base, 'value': v, 'valid': valid, 'class': cls, 'cstyle': st, 'nsrc': len(base) + 1}}


# ------------------------------------------------------------------------------------------------------------
# prefix-dependent directory defaults
PREFIXES = ['/usr', '/usr/local', '/opt/px']
DIRVALS = ['dA', 'dB', '/abs/dC']
SPECIAL_DIRS = ['sysconfdir', 'localstatedir', 'sharedstatedir']


def ref_dir_default(name, prefix):
    if name in DIR_DEFAULT:
        return DIR_BY_PREFIX.get(prefix, {}).get(name, DIR_DEFAULT[name])
    return {'bindir': 'bin', 'sbindir': 'sbin'}[name]


def fam_prefix(cross=False):
    IDX = {'P': 0, 'M': 1, 'C': 2}
    dirs = SPECIAL_DIRS + ['bindir', 'sbindir']
    for psub in subsets(['P', 'M', 'C']):
        for dsub in subsets(['P', 'M', 'C']):
            for a in range(3):
                scn = new_scn(cross, False)
                pp, dp = {}, {}
                for s in ['P', 'M', 'C']:
                    # the directory options come first in the listing on purpose: the prefix must apply whatever the order
                    if s in dsub:
                        for dn in dirs:
                            put(scn, s, dn, DIRVALS[(IDX[s] + a) % 3])
                        dp[s] = DIRVALS[(IDX[s] + a) % 3]
                    if s in psub:
                        put(scn, s, 'prefix', PREFIXES[(IDX[s] + a) % 3])
                        pp[s] = PREFIXES[(IDX[s] + a) % 3]
                prefix = ref_top(pp, DEFAULT_PREFIX)
                scn['obs'] = [['top', 'prefix']] + [['top', dn] for dn in dirs]
                exp = {'top:prefix': ['eq', prefix]}
                for dn in dirs:
                    exp['top:' + dn] = ['eq', ref_top(dp, ref_dir_default(dn, prefix))]
                yield {'fam': 'prefix', 'scn': scn, 'exp': exp, 'reject': 'mustnot',
                       'meta': {'prefix_sources': psub, 'dir_sources': dsub, 'a': a, 'nsrc': len(psub) + len(dsub)}}
    # a subproject's default prefix must not disturb the directory options of the build (prefix is not per subproject;
    # project.yaml: "not all options are taken into account when building as a subproject")
    for top_src in ([], ['C'], ['M'], ['P'], ['P', 'M'], ['M', 'C']):
        for decoy in ('S', 'SC'):
            for dv in ('/usr', '/opt/q'):
                scn = new_scn(cross, True)
                pp = {}
                for s in top_src:
                    put(scn, s, 'prefix', '/opt/px')
                    pp[s] = '/opt/px'
                put(scn, decoy, 'prefix', dv)
                prefix = ref_top(pp, DEFAULT_PREFIX)
                scn['obs'] = [['top', 'prefix']] + [['top', dn] for dn in SPECIAL_DIRS]
                exp = {}
                for w in ('top', 'top2'):
                    exp[w + ':prefix'] = ['eq', prefix]
                    for dn in SPECIAL_DIRS:
                        exp['%s:%s' % (w, dn)] = ['eq', ref_dir_default(dn, prefix)]
                yield {'fam': 'prefix-subdecoy', 'scn': scn, 'exp': exp, 'reject': 'mustnot',
                       'meta': {'prefix_sources': top_src, 'decoy': decoy, 'decoy_prefix': dv, 'nsrc': len(top_src) + 1}}
    # ... and neither must `sub:prefix=...` (default_options of the parent, [sub:built-in options] of a machine file, -Dsub:prefix=):
    # `subp:opt` addresses the option of the subproject; it is not a source of the top-level project's prefix.  What it means for the
    # subproject (prefix is not per subproject) is not said: Meson may refuse it, and the subproject's view is not observed.
    for top_src in ([], ['C'], ['M'], ['P'], ['P', 'M'], ['M', 'C']):
        for decoy in ('PS', 'MS', 'CS'):
            for dv in ('/usr', '/opt/q'):
                scn = new_scn(cross, True)
                pp = {}
                for s in top_src:
                    put(scn, s, 'prefix', '/opt/px')
                    pp[s] = '/opt/px'
                put(scn, decoy, 'prefix', dv)
                prefix = ref_top(pp, DEFAULT_PREFIX)
                scn['obs'] = [['top', 'prefix']] + [['top', dn] for dn in SPECIAL_DIRS]
                exp = {}
                for w in ('top', 'top2'):
                    exp[w + ':prefix'] = ['eq', prefix]
                    for dn in SPECIAL_DIRS:
                        exp['%s:%s' % (w, dn)] = ['eq', ref_dir_default(dn, prefix)]
                yield {'fam': 'prefix-subdecoy', 'scn': scn, 'exp': exp, 'reject': 'may',
                       'meta': {'prefix_sources': top_src, 'decoy': decoy, 'decoy_prefix': dv, 'nsrc': len(top_src) + 1}}


# ------------------------------------------------------------------------------------------------------------
# the spelling of a prefix value.  The same directory can be written in several ways; the clause "prefix-dependent directory
# defaults follow the prefix" speaks about the directory that is the prefix, not about one way of writing it.  Only texts whose
# meaning POSIX fixes without looking at the file system are generated (see same_path): no '..', no leading '//', no
# backslash (an ordinary character of a POSIX file name), no '~'.
#   canonical p | slash p/ | slash2 p// | dot p/. | inner: the first inner separator doubled (/usr//local; none in /usr)
PREFIX_SPELLINGS = ['canonical', 'slash', 'slash2', 'dot', 'inner']


def spell_prefix(p, how):
    if how == 'canonical':
        return p
    if how == 'slash':
        return p + '/'
    if how == 'slash2':
        return p + '//'
    if how == 'dot':
        return p + '/.'
    if how == 'inner':
        i = p.find('/', 1)
        return None if i < 0 else p[:i] + '/' + p[i:]
    raise InternalError('bad prefix spelling ' + how)


def fam_prefix_spelling(cross=False, dict_form=False):
    """Every non-empty subset of the sources of the prefix x rotation of the three prefixes over the sources x every
    non-canonical spelling, applied to every source / to the winning source only / to the losing sources only, x the
    directory options set by no source, by the lowest or by the highest one.  Expected: the effective prefix is the directory
    the winning source named, and every directory option that no source set has the documented default for that directory."""
    IDX = {'P': 0, 'M': 1, 'C': 2}
    dirs = SPECIAL_DIRS + ['bindir']
    for psub in subsets(['P', 'M', 'C']):
        if not psub:
            continue
        win = highest(['P', 'M', 'C'], psub)
        for how in PREFIX_SPELLINGS[1:]:
            for mode in (['all'] if len(psub) == 1 else ['all', 'winner', 'others']):
                for a in range(3):
                    for dsub in ([], ['P'], ['C']):
                        scn = new_scn(cross, False)
                        scn['dict_form'] = dict_form
                        pp, dp, spelled = {}, {}, {}
                        for s in ['P', 'M', 'C']:
                            if s in dsub:
                                for dn in dirs:
                                    put(scn, s, dn, DIRVALS[(IDX[s] + a) % 3])
                                dp[s] = DIRVALS[(IDX[s] + a) % 3]
                            if s in psub:
                                p = PREFIXES[(IDX[s] + a) % 3]
                                h = how if (mode == 'all' or (mode == 'winner') == (s == win)) else 'canonical'
                                text = spell_prefix(p, h)
                                if text is None:
                                    text, h = p, 'canonical'        # (/usr has no inner separator)
                                put(scn, s, 'prefix', text)
                                pp[s] = p
                                spelled[s] = h
                        if mode != 'others' and spelled[win] == 'canonical':
                            continue        # the winner cannot be spelled this way: the case is one of another mode / of fam_prefix
                        prefix = ref_top(pp, DEFAULT_PREFIX)
                        scn['obs'] = [['top', 'prefix']] + [['top', dn] for dn in dirs]
                        exp = {'top:prefix': ['samepath', prefix]}
                        for dn in dirs:
                            if dp:
                                exp['top:' + dn] = ['eq', ref_top(dp, None)]
                            elif dn in SPECIAL_DIRS:
                                exp['top:' + dn] = ['follows', dn, prefix, 'top:prefix']
                            else:
                                exp['top:' + dn] = ['eq', ref_dir_default(dn, prefix)]
                        yield {'fam': 'prefix-spelling', 'scn': scn, 'exp': exp, 'reject': 'mustnot',
                               'meta': {'prefix_sources': psub, 'dir_sources': dsub, 'a': a, 'how': spelled[win], 'mode': mode,
                                        'spelled': spelled, 'winner': win, 'prefix': prefix, 'table_row': prefix in DIR_BY_PREFIX,
                                        'nsrc': len(psub) + len(dsub)}}


def fam_prefix_configure(cross=False, states=None):
    """`meson configure` as a source of the prefix (Builtin-options.md: "They can also be edited after setup using meson configure
    -Doption=value"): after a setup whose prefix is the default or was given by one source, the prefix is changed to another
    directory, in every spelling of the path and every spelling of the command-line entry: the command succeeds and the effective
    prefix is the directory it named.  No directory option is ever set explicitly; each keeps the default it got at setup or
    takes the documented one for the new prefix (weak)."""
    if states is None:
        states = [(None, None)] + [(s, p) for s in ('P', 'M', 'C') for p in PREFIXES]
    for s0, p0 in states:
        eff0 = p0 or DEFAULT_PREFIX
        for p1 in PREFIXES:
            if p1 == eff0:
                continue
            for how in PREFIX_SPELLINGS:
                text = spell_prefix(p1, how)
                if text is None:
                    continue
                for style in ('D',) + FLAG_STYLES:
                    scn = new_scn(cross, False)
                    if s0:
                        put(scn, s0, 'prefix', p0)
                    scn['confcmd'] = [[['prefix', text, style]]]
                    scn['obs'] = [['top', 'prefix']] + [['top', dn] for dn in SPECIAL_DIRS]
                    exp = {'top:prefix': ['eq', eff0], 'cc0:ok': ['eq', True], 'cc0:top:prefix': ['samepath', p1]}
                    for dn in SPECIAL_DIRS:
                        exp['top:' + dn] = ['eq', ref_dir_default(dn, eff0)]
                        # the option has had a value since the setup: whether a later change of the prefix gives it the default
                        # for the new prefix again is not said anywhere (it is a statement about the life of a build directory)
                        both = [ref_dir_default(dn, eff0)] + [x for x in [ref_dir_default(dn, p1)] if x != ref_dir_default(dn, eff0)]
                        exp['cc0:top:' + dn] = ['in', both] if len(both) > 1 else ['eq', both[0]]
                    yield {'fam': 'prefix-configure', 'scn': scn, 'exp': exp, 'reject': 'mustnot',
                           'meta': {'setup_source': s0, 'setup_prefix': eff0, 'prefix': p1, 'how': how, 'cstyle': style,
                                    'table_row': p1 in DIR_BY_PREFIX, 'nsrc': 1 + (1 if s0 else 0)}}


# ------------------------------------------------------------------------------------------------------------
# invalid values.  (class, value, typed_only)
INVALID = {
    'vstr':   [('wrong-type', 5, True), ('wrong-type', True, True), ('wrong-type', ['l'], True)],
    'vbool':  [('not-boolean', 'maybe', False), ('empty', '', False), ('wrong-type', 1, True), ('wrong-type', ['true'], True)],
    'vint':   [('not-integer', 'abc', False), ('empty', '', False), ('below-min', '-1', False), ('above-max', '10', False),
               ('below-min', -1, True), ('above-max', 10, True), ('wrong-type', True, True), ('not-integer', '3.5', False)],
    'vcombo': [('outside-choices', 'zz', False), ('empty', '', False), ('wrong-type', True, True), ('wrong-type', 2, True)],
    # Build-options.md "Arrays represent an array of strings"; on the command line a value is either comma separated or, when it
    # starts with a bracket, the list form "-Doption=['a,b', 'c,d']": a bracket text that is no list is malformed, a list of
    # anything but strings is no array of strings (as text from every source, typed from the machine file / dict form / value:)
    'varr':   [('outside-choices', 'x,q', False), ('outside-choices', ['q'], True), ('wrong-type', 3, True), ('wrong-type', True, True),
               ('malformed-list', '[x', False), ('malformed-list', "['x'", False), ('non-string-elements', '[1, 2]', False),
               ('non-string-elements', [1, 2], True)],
    'varrf':  [('malformed-list', '[p', False), ('non-string-elements', [1, 2], True), ('non-string-elements', '[1, 2]', False),
               ('wrong-type', 3, True)],
    'force_fallback_for': [('malformed-list', '[fa', False)],
    'vfeat':  [('outside-choices', 'true', False), ('outside-choices', 'maybe', False), ('empty', '', False), ('wrong-type', True, True)],
    'warning_level': [('outside-choices', '4', False), ('empty', '', False)],
    'werror': [('not-boolean', 'yes', False)],
    'unity_size': [('below-min', '1', False), ('not-integer', 'x', False), ('below-min', 1, True)],
    'optimization': [('outside-choices', '4', False)],
    'default_library': [('outside-choices', 'dynamic', False)],
    'python.bytecompile': [('above-max', '3', False), ('below-min', '-2', False)],
    'c_std': [('outside-choices', 'c23x', False), ('empty', '', False)],
    'b_ndebug': [('outside-choices', 'maybe', False)],
    'b_lto': [('not-boolean', 'maybe', False), ('empty', '', False), ('wrong-type', 0, True), ('wrong-type', [], True)],
    'b_staticpic': [('not-boolean', 'maybe', False), ('empty', '', False), ('wrong-type', 0, True)],
    'backend_max_links': [('below-min', '-1', False), ('not-integer', 'x', False), ('empty', '', False), ('wrong-type', False, True)],
}
# Build-options.md does not say that repeated array elements are invalid (the implementation only deprecates them)
UNSPEC_INVALID = [('varr', 'duplicate-element', 'x,x')]


def put_raw(scn, sid, name, value):
    """Like put() but the value is written verbatim (strings stay strings, typed values need a typed spelling)."""
    typed = not isinstance(value, str)
    if sid in ('P', 'PS', 'S', 'SC'):
        lst = scn['P'] if sid in ('P', 'PS') else scn[sid]
        lst.append([(SUB + ':' if sid == 'PS' else '') + name, value])
        if typed:
            scn['dict_form'] = True
    elif sid in ('M', 'MS'):
        scn['M'].append([(SUB + ':' if sid == 'MS' else '') + section_of(name), name, value])
    elif sid in ('C', 'CS'):
        scn['C'].append([(SUB + ':' if sid == 'CS' else '') + name, value])


def fam_invalid(cross=False):
    for name, ivs in INVALID.items():
        k = ALLK[name]
        proj = name in PK
        vals = distinct_vals(k)
        for cls, iv, typed_only in ivs:
            # ---- top level
            tsrc = (['D'] if proj else []) + ['P', 'M', 'C']
            for s_inv in tsrc:
                if typed_only and s_inv == 'C':
                    continue
                for other in [None] + [s for s in tsrc if s != s_inv]:
                    scn = new_scn(cross, False)
                    if name in LK:
                        mark_late(scn, name)
                    present = {}
                    dval = vals[0]
                    if proj:
                        dval = iv if s_inv == 'D' else (vals[1] if other == 'D' else vals[0])
                        scn['top_decl'].append([name, name, dval, False])
                    for s in ('P', 'M', 'C'):
                        if s == s_inv:
                            put_raw(scn, s, name, iv)
                            present[s] = 'INVALID'
                        elif s == other:
                            put_raw(scn, s, name, vals[-1] if isinstance(vals[-1], (bool, int, list)) else vals[-1])
                            present[s] = vals[-1]
                    scn['obs'] = [['top', name]]
                    e = ref_top(present, 'INVALID' if s_inv == 'D' else dval)
                    must = (e == 'INVALID') or s_inv == 'D'
                    yield {'fam': 'invalid-top', 'scn': scn, 'exp': {} if must else {'top:' + name: ['eq', e]},
                           'reject': 'must' if must else 'either',
                           'meta': {'name': name, 'class': cls, 'value': iv, 'source': s_inv, 'other': other, 'nsrc': 1 + (other is not None)}}
            # ---- subproject
            if proj:
                ssrc = ['DS', 'S', 'PS', 'SC', 'MS', 'CS']
            elif k.get('persub'):
                ssrc = ['S', 'PS', 'SC', 'MS', 'CS']
            else:
                continue
            for s_inv in ssrc:
                if typed_only and s_inv == 'CS':
                    continue
                for other in [None] + [s for s in ssrc if s != s_inv]:
                    scn = new_scn(cross, True)
                    if name in LK:
                        mark_late(scn, name)
                    present = {}
                    if proj:
                        scn['top_decl'].append([name, name, vals[0], False])
                        dsv = iv if s_inv == 'DS' else (vals[1] if other == 'DS' else vals[0])
                        scn['sub_decl'].append([name, name, dsv, False])
                    for s in ('S', 'PS', 'SC', 'MS', 'CS'):
                        if s == s_inv:
                            put_raw(scn, s, name, iv)
                            present[s] = 'INVALID'
                        elif s == other:
                            put_raw(scn, s, name, vals[-1])
                            present[s] = vals[-1]
                    scn['obs'] = [['top', name], ['sub', name]]
                    if proj:
                        e = ref_sub_project_option(present, 'INVALID' if s_inv == 'DS' else dsv)
                    else:
                        e = ref_sub_builtin(present, vals[0])
                    must = (e == 'INVALID') or s_inv == 'DS'
                    exp = {} if must else {'sub:' + name: ['eq', e], 'top:' + name: ['eq', vals[0]], 'top2:' + name: ['eq', vals[0]]}
                    yield {'fam': 'invalid-sub', 'scn': scn, 'exp': exp, 'reject': 'must' if must else 'either',
                           'meta': {'name': name, 'class': cls, 'value': iv, 'source': s_inv, 'other': other, 'nsrc': 1 + (other is not None)}}
    for name, cls, iv in UNSPEC_INVALID:
        yield {'fam': 'invalid-top', 'skip': 'array with a repeated element: not declared invalid by the docs', 'meta': {'name': name}}


# ------------------------------------------------------------------------------------------------------------
# `meson configure -Dk=v` after setup: validity (precedence over time belongs to C08)
def fam_conf(cross=False):
    for name in ['vstr', 'vbool', 'vint', 'vcombo', 'varr', 'vfeat', 'warning_level', 'werror', 'unity_size']:
        k = ALLK[name]
        proj = name in PK
        vals = distinct_vals(k)
        invs = [(iv, cls) for cls, iv, typed in INVALID.get(name, []) if not typed]
        for mode in (('pnon', 'pyield') if proj else ('bsub',)):
            for base in ([], ['CS'], ['S'], ['C']):
                for target in ('sub', 'top'):
                    for v, valid in [(cstr(vals[-1]), None)] + invs:
                        cls, valid = valid, valid is None
                        scn = new_scn(cross, True)
                        if proj:
                            scn['top_decl'].append([name, name, vals[0], False])
                            scn['sub_decl'].append([name, name, vals[1 % len(vals)], mode == 'pyield'])
                        for s in base:
                            put(scn, s, name, vals[1 % len(vals)])
                        scn['conf'] = [[(SUB + ':' + name) if target == 'sub' else name, v]]
                        scn['obs'] = [['top', name], ['sub', name]]
                        exp = {}
                        if not valid:
                            exp['conf0:ok'] = ['eq', False]
                            exp['conf0:unchanged'] = ['eq', True]
                        else:
                            exp['conf0:ok'] = ['eq', True]
                            if target == 'sub':
                                exp['conf0:sub:' + name] = ['eq', vals[-1]]
                                # the parent's value is untouched ("sets the value separately")
                                exp['conf0:top:' + name] = ['eq', ref_top({s: vals[1 % len(vals)] for s in base if s in 'PMC'}, vals[0])]
                            else:
                                exp['conf0:top:' + name] = ['eq', vals[-1]]
                        yield {'fam': 'configure', 'scn': scn, 'exp': exp, 'reject': 'mustnot',
                               'meta': {'name': name, 'mode': mode, 'base': base, 'target': target, 'value': v, 'valid': valid, 'class': cls,
                                        'nsrc': len(base) + 1}}


# ------------------------------------------------------------------------------------------------------------
# judging one executed case (same for both tiers)
def kind_of(name):
    if name.startswith('build.'):
        name = name[6:]
    if name in ALLK:
        return ALLK[name]
    if name[:1] in 'ytzw' and ('v' + name[1:]) in PK:
        return PK['v' + name[1:]]
    if name[:-2] in DK and name[-2] == '_':
        return DK[name[:-2]]
    return None


def _listed_before_buildtype(scn, sid, name):
    if sid == 'P':
        names = [k for k, _ in scn['P'] if ':' not in k]
    elif sid == 'M':
        names = [k for sec, k, _ in scn['M'] if ':' not in sec]
    else:
        names = [k for k, _ in scn['C'] if ':' not in k]
    return 'buildtype' in names and name in names and names.index(name) < names.index('buildtype')


def classify(case, okey, e, got, obs=None):
    fam = case['fam']
    scn = case['scn']
    parts = okey.split(':')
    where, name = parts[-2], parts[-1]
    if e[0] in ('samepath', 'follows'):
        # the prefix was given in the spelling meta['how'] by the sources meta['prefix_sources'] / by meson configure
        how = case['meta'].get('how', '-')
        if e[0] == 'follows':
            return 'C07:prefix:spelled-%s:directory-default-does-not-follow-the-prefix' % how
        return 'C07:prefix:spelled-%s:effective-prefix-is-another-path' % how
    acceptable = [e[1]] if e[0] == 'eq' else e[1]
    if fam.startswith('machine-layers'):
        lk = layer_key(case, where, name, e, got)
        if lk:
            return lk
    if got in ('.', ['.']) and any(x in ('', []) for x in acceptable):
        return 'C07:value:empty-value-of-builtin-option-becomes-dot'
    if fam.startswith('buildtype') and name in ('debug', 'optimization'):
        idx = 0 if name == 'debug' else 1
        bts = [v for k, v in scn['P'] + scn['S'] + scn['SC'] + scn['C'] if k.split(':')[-1] == 'buildtype']
        bts += [v for sec, k, v in scn['M'] if k == 'buildtype']
        bts += [x[1] for cmd in (scn.get('confcmd') or []) for x in cmd if x[0] == 'buildtype']
        implied = [BUILDTYPE_TABLE[b][idx] for b in bts if b in BUILDTYPE_TABLE]
        if got in implied:
            if where == 'sub':
                return 'C07:buildtype:subproject-explicit-debug-or-optimization-overwritten-by-buildtype'
            cc = (scn.get('confcmd') or [None])[0]
            if parts[0].startswith('cc') and cc and {'buildtype', name} <= {x[0] for x in cc} and \
                    got == BUILDTYPE_TABLE.get(dict((x[0], x[1]) for x in cc)['buildtype'], (None, None))[idx]:
                return 'C07:buildtype:configure-command-explicit-value-overwritten-by-buildtype'
            for s in ('C', 'M', 'P'):
                lst = [k for k, _ in scn[s]] if s != 'M' else [k for sec, k, _ in scn['M'] if ':' not in sec]
                if name in lst:
                    if _listed_before_buildtype(scn, s, name) and s in ('P', 'M'):
                        return 'C07:buildtype:explicit-value-listed-before-buildtype-in-' + ('default_options' if s == 'P' else 'machine-file')
                    if s == 'C' and 'buildtype' in lst and not parts[0].startswith('cc') and \
                            got == BUILDTYPE_TABLE.get(dict(scn['C'])['buildtype'], (None, None))[idx]:
                        return 'C07:buildtype:command-line-explicit-value-overwritten-by-buildtype'
                    break
    if fam in ('prefix-subdecoy', 'prefix-subdecoy-flag') and case['meta'].get('decoy') in ('PS', 'MS', 'CS') and \
            (name == 'prefix' or name in SPECIAL_DIRS):
        # sub:prefix=... given by the parent's default_options (PS), a machine file (MS) or the command line (CS)
        # (directory defaults that follow a wrongly changed prefix are the same defect as the changed prefix)
        pe = case['exp'].get(where + ':prefix')
        moved = name == 'prefix' or (obs is not None and pe is not None and obs.get(where + ':prefix') != pe[1])
        return 'C07:prefix:subproject-addressed-prefix:from-%s:%s' % (
            case['meta']['decoy'], 'build-prefix-changed' if moved else 'parent-directory-options-changed')
    if fam in ('prefix-subdecoy', 'prefix-subdecoy-flag') and where == 'top2' and name in SPECIAL_DIRS and \
            got == ref_dir_default(name, case['meta']['decoy_prefix']):
        srcs = ''.join(case['meta'].get('prefix_sources', []))
        # which of the documented sources gave the build's prefix, and where the subproject's prefix default came from
        # (S = the subproject's project(), SC = subproject(default_options:))
        return 'C07:prefix:subproject-default-prefix-resets-parent-directory-options' + \
            ('' if srcs in ('', 'C') else ':top-prefix-from-%s:sub-prefix-from-%s' % (srcs, case['meta'].get('decoy')))
    if where == 'sub' and name.startswith(ALIAS_PREFIX['pyieldT']):
        # yield: true, parent option of the same name declared with another kind
        tops = {d[0]: d for d in scn.get('top_decl', [])}
        subs = {d[0]: d for d in scn.get('sub_decl', [])}
        if name in tops and name in subs:
            pk, sk = PK[tops[name][1]], PK[subs[name][1]]
            if pk['type'] == sk['type'] and not ref_valid_kind(sk, got):
                return 'C07:yield:same-type-other-choices:parent-value-outside-own-choices'
    if name in LK and LK[name]['late'] == 'backend' and 'winner' in case['meta']:
        # a backend option: which source's value is in effect instead of the documented winner's
        vals = {'P': [v for k_, v in scn['P'] if k_ == name], 'M': [v for sec, k_, v in scn['M'] if k_ == name and ':' not in sec],
                'C': [v for k_, v in scn['C'] if k_ == name]}
        src = [s_ for s_ in ('C', 'M', 'P') if any(cstr(v) == cstr(got) for v in vals[s_])]
        return 'C07:precedence:backend-option:%s-in-effect-instead-of-%s' % (src[0] if src else 'default', case['meta']['winner'])
    k = kind_of(name)
    if fam.startswith('default-') and k is not None:
        # the declared-default dimension: where the option lives, its kind, and which source should have been in effect
        src = case['meta'].get('source')
        place = fam[8:]
        if where != 'sub' or place == 'yield':
            w = src if src in ('P', 'M', 'C') or (src == 'CS' and where == 'sub') else None    # (else: the parent's declared default)
        else:
            w = src if src in SUB_ADDRESSED else None
        return 'C07:default:%s:%s:%s:%s' % (place, where, k['type'], 'value-from-%s-not-in-effect' % w if w else
                                            'declared-default-not-in-effect' + (':with-%s-set' % src if src else ''))
    return 'C07:value:%s:%s:%s' % (fam, where, (k['type'] if k else name))


def same_path(a, b):
    """Do two absolute POSIX path texts name the same directory whatever the file system holds?  (POSIX pathname resolution:
    repeated slashes count as one, a trailing slash and a '.' component change nothing for a directory.  '..' components and
    exactly two leading slashes are not decided by the text alone: such texts are not generated.)"""
    def comps(x):
        return [c for c in x.split('/') if c not in ('', '.')]
    return isinstance(a, str) and isinstance(b, str) and a.startswith('/') and not a.startswith('//') and b.startswith('/') and \
        '..' not in comps(a) + comps(b) and comps(a) == comps(b)


def acceptable_of(e, got, obs):
    """One expectation -> (acceptable values | None when nothing can be said, compared strongly?, text for the message).
      ['eq', v]                      the value v
      ['in', [v...]]                 one of several readings of the documentation (weak)
      ['samepath', p]                a prefix given in another spelling of the path p: Meson may store p or a text that names the
                                     same directory (docs silent on normalisation); p itself counts as strong
      ['follows', dir, p, okey]      a prefix-dependent directory default where the prefix is p, possibly spelled otherwise
                                     (Builtin-options.md "When the prefix is /usr: sysconfdir defaults to /etc ..."): if the
                                     effective prefix observed under okey IS p the documented default for p, strongly; if it is
                                     another spelling of p, the default for p or the general default (weak)"""
    if e[0] == 'eq':
        return [e[1]], True, repr(e[1])
    if e[0] == 'in':
        return e[1], False, 'one of %r' % (e[1],)
    if e[0] == 'samepath':
        if same_path(got, e[1]):
            return [got], got == e[1], ''
        return [e[1]], True, '%r or another spelling of that path' % e[1]
    if e[0] == 'follows':
        dn, p, pkey = e[1], e[2], e[3]
        gp = obs.get(pkey, '<<missing>>')
        if gp == p:
            return [ref_dir_default(dn, p)], True, '%r, the documented default of %s when the prefix is %s (observed prefix %r)' % (
                ref_dir_default(dn, p), dn, p, gp)
        if same_path(gp, p):
            return [ref_dir_default(dn, p), ref_dir_default(dn, None)], False, 'the default of %s for prefix %s or the general one' % (dn, p)
        return None, False, ''
    raise InternalError('bad expectation %r' % (e,))


def judge(case, res, tier):
    """-> (problems [(key, what)], stats dict)"""
    probs = []
    st = {'strong': 0, 'weak': 0, 'skipped': 0, 'rejected_invalid': 0, 'accepted_overridden_invalid': 0}
    meta = case['meta']
    fam = case['fam']
    if res.get('crash'):
        if meta.get('class'):
            # an invalid value: the class of the value and the exception that escapes name the defect (the same one is reached from
            # several sources and in both tiers)
            excs = re.findall(r'^([A-Za-z_][\w.]*(?:Error|Exception))\b', res['crash'][1], re.M)
            key = 'C07:unhandled-exception:invalid-value:%s:%s:%s' % (kind_of(meta['name'])['type'], meta['class'], excs[-1] if excs else 'unknown')
        else:
            key = 'C07:unhandled-exception:%s:tier%s' % (fam, tier)
        probs.append((key, 'python exception instead of a Meson error (%s): %s' % (json.dumps(meta, default=repr), res['crash'],)))
        return probs, st
    for b in res.get('bad', []):
        probs.append(('C07:stored-invalid:%s:%s' % (fam, b[2]), 'stored value %s of %s violates its own option object (%s)' % (b[1], b[0], b[2])))
    rj = case['reject']
    if res['rejected']:
        if rj == 'mustnot':
            probs.append(('C07:rejects-valid:%s:%s' % (fam, meta.get('name', meta.get('kind', '-'))),
                          'valid configuration rejected at %s: %s' % (res['rejected'][0], res['rejected'][1])))
        elif rj == 'may':
            st['skipped'] += 1          # the docs do not say whether this input is accepted at all
        else:
            st['rejected_invalid'] += 1
        return probs, st
    if rj == 'must':
        if meta['name'] == 'vint' and meta['value'] is True and meta['source'] in ('D', 'DS'):
            key = 'C07:invalid-accepted:integer-option-declared-with-boolean-default'
        else:
            key = 'C07:invalid-accepted:%s:%s:%s' % (kind_of(meta['name'])['type'], meta['class'], meta['source'])
        probs.append((key, 'invalid value %r (%s) for %s from source %s accepted; effective %r' % (
            meta['value'], meta['class'], meta['name'], meta['source'], res['obs'])))
        return probs, st
    if rj == 'either':
        st['accepted_overridden_invalid'] += 1
    for okey, e in case['exp'].items():
        if e[0] == 'skip':
            st['skipped'] += 1
            continue
        got = res['obs'].get(okey, '<<missing>>')
        acceptable, strong, how = acceptable_of(e, got, res['obs'])
        if acceptable is None:
            st['skipped'] += 1      # depends on another observation that is itself reported as wrong
        elif got in acceptable and type(got) in [type(x) for x in acceptable if x == got]:
            st['strong' if strong else 'weak'] += 1
        else:
            probs.append((classify(case, okey, e, got, res['obs']), '%s: expected %s, observed %r (tier %s, %s)' % (
                okey, how, got, tier, json.dumps(meta, default=repr))))
    # every observed effective value is a valid value of the option that was asked for
    for okey, got in res['obs'].items():
        parts = okey.split(':')
        if parts[0].startswith(('conf', 'cc', 'wc')) and len(parts) < 3:
            continue
        k = kind_of(parts[-1])
        # (also where the docs do not say which value it is -- an expectation of the kind 'skip' -- it has to be a valid one)
        if k is not None and got != '<<missing>>' and not ref_valid_kind(k, got) and (okey not in case['exp'] or case['exp'][okey][0] == 'skip'):
            probs.append(('C07:effective-invalid:%s:%s' % (fam, k['type']), '%s: effective value %r is not a valid %s' % (okey, got, k['type'])))
    return probs, st


def outcome_class(case, res):
    if res.get('crash'):
        return case['fam'] + ':crash'
    if res['rejected']:
        return '%s:rejected@%s' % (case['fam'], res['rejected'][0])
    m = case['meta']
    return '%s:%s' % (case['fam'], m.get('winner', 'accepted' if case['reject'] != 'mustnot' else 'ok'))


def work_a(case):
    res = run_a(case['scn'], real_argparse=case.get('argparse', False))
    probs, st = judge(case, res, 'A')
    return probs, st, outcome_class(case, res), (res['rejected'][0] if res['rejected'] else None)


# ------------------------------------------------------------------------------------------------------------
# Tier B: the same scenarios as real projects through the real CLI
def merge_cases(cases, fam):
    """One project that carries the options of many single-option cases (same source subset / assignment)."""
    out = None
    for c in cases:
        s = c['scn']
        if out is None:
            out = {'fam': fam, 'scn': new_scn(s['cross'], s['has_sub']), 'exp': {}, 'reject': 'mustnot', 'weak': False,
                   'meta': {k: v for k, v in c['meta'].items() if k in ('subset', 'a', 'winner', 'nsrc', 'cstyle')}}
            out['scn']['dict_form'] = s['dict_form']
            out['meta']['merged'] = 0
        o = out['scn']
        o['cspell'].update(s.get('cspell') or {})
        for f in ('top_decl', 'sub_decl', 'P', 'S', 'SC', 'M', 'N', 'C', 'obs'):
            o[f] += [x for x in s[f] if x not in o[f] or f not in ('obs', 'top_decl', 'sub_decl')]
        for n in s['late']:
            if n not in o['late']:
                o['late'].append(n)
        o['langs'] = o['langs'] or s['langs']
        out['exp'].update(c['exp'])
        out['weak'] = out['weak'] or c.get('weak', False)
        out['meta']['merged'] += 1
    return out


def obs_is_feature(scn, where, name):
    for n, kind, _, _ in (scn['sub_decl'] if where == 'sub' else scn['top_decl']):
        if n == name:
            return KINDS[kind]['type'] == 'feature'
    k = kind_of(name)
    return k is not None and k['type'] == 'feature' and name in ALLK


def msg_lines(scn, where):
    out = []
    for w, name in scn['obs']:
        if w != where and not (where == 'top2' and w == 'top'):
            continue
        if obs_is_feature(scn, where, name):
            out.append("message('VERIF|%s|%s|F', [get_option('%s').enabled(), get_option('%s').disabled(), get_option('%s').auto()], '|END')"
                       % (where, name, name, name, name))
        else:
            out.append("message('VERIF|%s|%s|V', [get_option('%s')], '|END')" % (where, name, name))
    return out


def b_tree(scn):
    files = {}
    langs = ", 'c'" if scn['langs'] else ''
    top = ["project('top'%s, meson_version: '>= 1.8.0', default_options: %s)" % (langs, lit_do(defopts_arg(scn['P'], scn['dict_form'])))]
    top += msg_lines(scn, 'top')
    if scn['has_sub']:
        top.append("subproject('%s', default_options: %s)" % (SUB, lit_do(defopts_arg(scn['SC'], scn['dict_form']))))
        top += msg_lines(scn, 'top2')
        sub = ["project('%s'%s, meson_version: '>= 1.8.0', default_options: %s)" % (SUB, langs, lit_do(defopts_arg(scn['S'], scn['dict_form'])))]
        sub += msg_lines(scn, 'sub')
        sub.append("message('VERIF-SUBDONE')")
        files['subprojects/%s/meson.build' % SUB] = '\n'.join(sub) + '\n'
        if scn['sub_decl']:
            files['subprojects/%s/meson.options' % SUB] = decl_text(scn['sub_decl'])
    top.append("message('VERIF-DONE')")
    files['meson.build'] = '\n'.join(top) + '\n'
    if scn['top_decl']:
        files['meson.options'] = decl_text(scn['top_decl'])
    argv = ['setup', 'bld']
    if not any(LK[n]['late'] == 'backend' for n in scn['late']):
        argv.append('--backend=none')       # (a backend option only exists with its backend: ninja, stood in for by $NINJA)
    def add_files(flag, stem, texts):
        nonlocal argv
        for i, t in enumerate(texts):
            fn = '%s%s.ini' % (stem, '' if i == 0 else str(i + 1))
            files[fn] = t
            argv += [flag, fn]
    if scn['cross']:
        add_files('--cross-file', 'cross', layer_texts(scn, 'M', True))
        add_files('--native-file', 'native', layer_texts(scn, 'N'))
    else:
        add_files('--native-file', 'native', layer_texts(scn, 'M'))
    argv += c_argv(c_entries(scn))
    return files, argv


def lit_do(x):
    if isinstance(x, dict):
        return '{' + ', '.join('%s: %s' % (lit(k), lit(v)) for k, v in x.items()) + '}'
    return lit(x)


_TOK = re.compile(r"\s*(\[|\]|,|true|false|-?\d+|'(?:[^'\\]|\\.)*')")


def parse_lit(text):
    pos = 0
    toks = []
    text = text.strip()
    while pos < len(text):
        m = _TOK.match(text, pos)
        if not m:
            raise ValueError('cannot parse %r' % text)
        toks.append(m.group(1))
        pos = m.end()
    def val(i):
        t = toks[i]
        if t == '[':
            out = []
            i += 1
            while toks[i] != ']':
                v, i = val(i)
                out.append(v)
                if toks[i] == ',':
                    i += 1
            return out, i + 1
        if t == 'true':
            return True, i + 1
        if t == 'false':
            return False, i + 1
        if t[0] == "'":
            return t[1:-1].replace("\\'", "'").replace('\\\\', '\\'), i + 1
        return int(t), i + 1
    v, i = val(0)
    if i != len(toks):
        raise ValueError('trailing tokens in %r' % text)
    return v


_MSG = re.compile(r'Message: VERIF\|(\w+)\|([\w.\-]+)\|([VF]) (.*?) \|END')
_B_SEQ = [0]


def run_b(scn, keep=False, cold=False):
    from verif import mesonproc as mp
    _B_SEQ[0] += 1
    root = os.path.join(scratch_root(), 'b%d_%d' % (os.getpid(), _B_SEQ[0]))
    files, argv = b_tree(scn)
    mp.write_tree(root, files)
    r = mp.cold_meson(argv, root, mp.base_env(), timeout=300) if cold else mp.run_meson(argv, root, timeout=120)
    res = {'rejected': None, 'obs': {}, 'bad': [], 'crash': None}
    raw = {}
    for m in _MSG.finditer(r.out):
        try:
            v = parse_lit(m.group(4))[0 if m.group(3) == 'V' else slice(None)]
        except (ValueError, IndexError):
            v = '<<unparsable %s>>' % m.group(4)
        if m.group(3) == 'F' and isinstance(v, list) and len(v) == 3:
            v = 'enabled' if v[0] else 'disabled' if v[1] else 'auto'
        raw['%s:%s' % (m.group(1), m.group(2))] = v
    if r.unhandled:
        res['crash'] = ['setup', r.out[-700:]]
    elif r.rc != 0 or 'VERIF-DONE' not in r.out:
        m = re.search(r'ERROR: (.*)', r.out)
        stage = 'sub' if 'VERIF-SUBDONE' not in r.out and scn['has_sub'] and 'top:' in ''.join(raw) else 'setup'
        res['rejected'] = [stage, (m.group(1) if m else r.out[-300:])[:200]]
    else:
        res['obs'] = raw
        for i, cmd in enumerate(scn.get('confcmd') or []):
            # `meson configure bld <args>`, observed in what the build directory then says (intro-buildoptions.json)
            def intro():
                try:
                    with open(os.path.join(root, 'bld', 'meson-info', 'intro-buildoptions.json'), encoding='utf-8') as f:
                        d = {o['name']: o['value'] for o in json.load(f)}
                except (OSError, ValueError) as e:
                    return {'top:<<intro unreadable>>': str(e)}
                return {'top:' + n: d.get(n, '<<missing>>') for w, n in scn['obs'] if w == 'top'}
            before = intro()
            cargv = ['configure', 'bld'] + c_argv(cmd)
            rc = mp.cold_meson(cargv, root, mp.base_env(), timeout=300) if cold else mp.run_meson(cargv, root, timeout=120)
            if rc.unhandled:
                res['crash'] = ['cc%d' % i, rc.out[-700:]]
                break
            after = intro()
            res['obs']['cc%d:ok' % i] = rc.rc == 0
            for kk, vv in after.items():
                res['obs']['cc%d:%s' % (i, kk)] = vv
            res['obs']['cc%d:unchanged' % i] = (before == after)
            if keep:
                res.setdefault('conf_out', []).append([cargv, rc.out[-500:]])
    if res['obs'] and not res['crash']:
        for i, cmd in enumerate(scn.get('wipecmd') or []):
            # `meson setup --wipe bld <args>`: the directory is configured again from the recorded command line plus this one
            wargv = ['setup', '--wipe', 'bld'] + c_argv(cmd)
            rw = mp.cold_meson(wargv, root, mp.base_env(), timeout=300) if cold else mp.run_meson(wargv, root, timeout=120)
            if rw.unhandled:
                res['crash'] = ['wc%d' % i, rw.out[-700:]]
                break
            res['obs']['wc%d:ok' % i] = rw.rc == 0
            try:
                with open(os.path.join(root, 'bld', 'meson-info', 'intro-buildoptions.json'), encoding='utf-8') as f:
                    d = {o['name']: o['value'] for o in json.load(f)}
            except (OSError, ValueError) as e:
                d = {}
            for w, n in scn['obs']:
                if w == 'top':
                    res['obs']['wc%d:top:%s' % (i, n)] = d.get(n, '<<missing>>')
            if keep:
                res.setdefault('conf_out', []).append([wargv, rw.out[-500:]])
    if not keep:
        shutil.rmtree(root, ignore_errors=True)
    else:
        res['root'] = root
        res['argv'] = argv
        res['out'] = r.out
    return res


def b_adjust_features(case):
    """get_option() of a feature option that is 'auto' reports the value of auto_features (Build-options.md)."""
    exp = case['exp']
    af = {}
    for w in ('top', 'sub', 'top2'):
        e = exp.get(w + ':auto_features')
        af[w] = e[1] if e and e[0] == 'eq' else 'auto'
    # auto_features is not per subproject: the subproject sees the global value
    af['sub'] = af['top']
    out = {}
    for okey, e in exp.items():
        parts = okey.split(':')
        k = kind_of(parts[-1])
        if k is not None and k['type'] == 'feature' and parts[-1] != 'auto_features' and e[0] != 'skip':
            a = af.get(parts[0], 'auto')
            sub = lambda v: a if v == 'auto' else v
            e = [e[0], sub(e[1]) if e[0] == 'eq' else [sub(x) for x in e[1]]]
        out[okey] = e
    c = dict(case)
    c['exp'] = out
    return c


def work_b_cold(case):
    """The same setup through the fork runner and through `python meson.py` in a fresh interpreter."""
    a = run_b(case['scn'])
    b = run_b(case['scn'], cold=True)
    return a['obs'] == b['obs'] and bool(a['rejected']) == bool(b['rejected']), a['obs'], b['obs']


def work_b(case):
    res = run_b(case['scn'])
    jc = b_adjust_features(case)
    probs, st = judge(jc, res, 'B')
    agree = None
    if case.get('compare_a'):
        ra = run_a(case['scn'])
        oa = {k: v for k, v in ra['obs'].items()}
        agree = bool(ra['rejected']) == bool(res['rejected']) and all(
            (kind_of(k.split(':')[-1]) or {}).get('type') == 'feature' or oa.get(k) == v for k, v in res['obs'].items())
    return probs, st, outcome_class(case, res), (res['rejected'][0] if res['rejected'] else None), agree


# ------------------------------------------------------------------------------------------------------------
def group_merge(cases, fam, keyfn):
    groups = {}
    for c in cases:
        if 'skip' in c:
            continue
        groups.setdefault(keyfn(c), []).append(c)
    return [merge_cases(v, fam) for _, v in sorted(groups.items(), key=lambda kv: repr(kv[0]))]


def tier_a_tasks(ck):
    """(generator name, kwargs) specs; every spec is expanded and executed inside a worker, sharded NSHARD ways."""
    all_names = list(PK) + list(BK) + list(LK)
    persub = [n for n in list(BK) + list(LK) if ALLK[n]['persub']]
    forms = [(False, False), (True, True)] if not ck.thorough else [(False, False), (False, True), (True, False), (True, True)]
    specs = []
    for cross in (False, True):
        for df, ms in forms:
            specs.append(('fam_top', dict(names=all_names, cross=cross, dict_form=df, mstr=ms, decoy=cross)))
    specs.append(('fam_permachine', dict(names=['pkg_config_path', 'cmake_prefix_path', 'c_std'])))
    sub_forms = [(False, False, False), (True, True, True)] if not ck.thorough else \
        [(c, d, m) for c in (False, True) for d in (False, True) for m in (False, True)]
    for cross, df, ms in sub_forms:
        specs.append(('fam_sub', dict(mode='bsub', names=persub, cross=cross, dict_form=df, mstr=ms)))
        for mode in ('pnon', 'pyield', 'pyieldT', 'pnon0', 'pyield0'):
            if cross and not ck.thorough and mode != 'pnon':
                continue        # quick: the cross variant only for built-in and plain project options
            specs.append(('fam_sub', dict(mode=mode, names=list(PK), cross=cross, dict_form=df, mstr=ms)))
    for place in DEF_PLACES:
        for cross, df, ms in sub_forms:
            specs.append(('fam_default', dict(place=place, cross=cross, dict_form=df, mstr=ms)))
    specs.append(('fam_buildtype_top', dict()))
    specs.append(('fam_buildtype_top_argparse', dict()))
    if ck.thorough:
        specs.append(('fam_buildtype_top', dict(cross=True, dict_form=True)))
    specs.append(('fam_buildtype_sub', dict(max_sources=2)))
    for cross in (False, True):
        specs.append(('fam_prefix', dict(cross=cross)))
        specs.append(('fam_prefix_spelling', dict(cross=cross, dict_form=cross)))
        if ck.thorough:
            specs.append(('fam_prefix_spelling', dict(cross=cross, dict_form=not cross)))
        specs.append(('fam_prefix_configure', dict(cross=cross)))
        specs.append(('fam_invalid', dict(cross=cross)))
        specs.append(('fam_conf', dict(cross=cross)))
    # ---- the spelling of the command-line source (-Dname=value | --name=value | --name value | --name)
    flaggable = [n for n in BK if flag_of(n) in cli_flags('setup')]
    persub_f = [n for n in flaggable if BK[n]['persub']]
    for cross in (False, True):
        for style in FLAG_STYLES:
            form = dict(dict_form=cross, mstr=cross) if not ck.thorough else dict(dict_form=(style == 'sp'), mstr=not cross)
            specs.append(('fam_flagged', dict(base='fam_top', style=style, names=flaggable, cross=cross, decoy=cross, **form)))
            specs.append(('fam_flagged', dict(base='fam_prefix', style=style, cross=cross)))
            specs.append(('fam_flagged', dict(base='fam_prefix_spelling', style=style, cross=cross, dict_form=not cross)))
            specs.append(('fam_flagged', dict(base='fam_invalid', style=style, cross=cross)))
            if ck.thorough or (style == 'sp') == cross:
                specs.append(('fam_flagged', dict(base='fam_sub', style=style, mode='bsub', names=persub_f, cross=cross, **form)))
    for style in FLAG_STYLES:
        specs.append(('fam_flagged', dict(base='fam_permachine', style=style, names=['pkg_config_path', 'cmake_prefix_path'])))
    specs.append(('fam_buildtype_top_flag', dict(pm_max=3 if ck.thorough else 1)))
    if ck.thorough:
        specs.append(('fam_buildtype_top_flag', dict(pm_max=1, cross=True)))
    for cross in (False, True):
        specs.append(('fam_buildtype_configure', dict(cross=cross)))
        specs.append(('fam_conf_flag', dict(cross=cross)))
    # ---- the machine-file source given as several layered files
    for cross in (False, True):
        specs.append(('fam_layers', dict(cross=cross, nfiles=2, dict_form=cross, mstr=cross)))
        if ck.thorough:
            specs.append(('fam_layers', dict(cross=cross, nfiles=3, dict_form=not cross, mstr=not cross)))
    if os.environ.get('C07_FAMS'):      # development aid: only the generators whose name contains one of the given texts
        specs = [sp for sp in specs if any(x in sp[0] for x in os.environ['C07_FAMS'].split(','))]
    return specs


def fam_buildtype_top_argparse():
    """buildtype family with the command line going through the real argparse actions of cmdline.py."""
    for c in fam_buildtype_top():
        c['argparse'] = True
        c['fam'] = 'buildtype-top-argparse'
        yield c


NSHARD = 16


def spelling_counters(case):
    """Coverage counters of the spelling dimension: which styles the executed command lines used, and the buildtype class."""
    scn = case['scn']
    out = set()
    for st in (scn.get('cspell') or {}).values():
        out.add('setup:' + st)
    for cmd in scn.get('confcmd') or []:
        for x in cmd:
            out.add('configure:' + x[2])
    if case['meta'].get('btclass'):
        out.add('%s:buildtype-%s-with-differing-explicit-value' % ('configure' if scn.get('confcmd') else 'setup', case['meta']['btclass']))
    return sorted(out)


def prefix_counters(case):
    """Coverage counters of the prefix-spelling dimension: <command>:<source that gives the effective prefix>:<its spelling>:<does the
    documented table have a row for that prefix>, counted where no source sets the directory options (the defaults are visible)."""
    m = case['meta']
    if case['fam'].startswith('prefix-spelling') and not m['dir_sources']:
        return ['setup:%s:%s:%s' % (m['winner'], m['how'], 'table-row' if m['table_row'] else 'other-prefix')]
    if case['fam'] == 'prefix-configure':
        return ['configure:%s:%s' % (m['how'], 'table-row' if m['table_row'] else 'other-prefix')]
    return []


def work_a_task(task):
    (gname, kwargs), shard = task
    agg = {'n': 0, 'skipped_cases': 0, 'classes': set(), 'fams': {}, 'tot': {}, 'multi': 0, 'late_rej': 0, 'problems': [], 'sample': None,
           'spell': {}, 'pspell': {}, 'dd': {}, 'layers': {}}
    perkey = {}
    cases = list(globals()[gname](**kwargs))
    mine = [c for i, c in enumerate(cases) if i % NSHARD == shard]
    mine.sort(key=lambda c: c['meta'].get('nsrc', 0))            # simplest first
    for case in mine:
        if 'skip' in case:
            agg['skipped_cases'] += 1
            continue
        probs, st, cls, rstage = work_a(case)
        agg['n'] += 1
        agg['classes'].add('A:' + cls)
        f = agg['fams'].setdefault(case['fam'], {'cases': 0, 'violating': 0})
        f['cases'] += 1
        for k, v in st.items():
            agg['tot'][k] = agg['tot'].get(k, 0) + v
        if case['meta'].get('nsrc', 0) >= 3:
            agg['multi'] += 1
        if rstage in ('top-late', 'sub-late'):
            agg['late_rej'] += 1
        for sk in spelling_counters(case):
            agg['spell'][sk] = agg['spell'].get(sk, 0) + 1
        for sk in prefix_counters(case):
            agg['pspell'][sk] = agg['pspell'].get(sk, 0) + 1
        for sk in default_counters(case):
            agg['dd'][sk] = agg['dd'].get(sk, 0) + 1
        for sk in layer_counters(case):
            agg['layers'][sk] = agg['layers'].get(sk, 0) + 1
        if agg['sample'] is None and case['meta'].get('nsrc', 0) >= 3:
            agg['sample'] = {'scn': case['scn'], 'expected': case['exp']}
        if probs:
            f['violating'] += 1
            keep = []
            for key, what in probs:
                perkey[key] = perkey.get(key, 0) + 1
                if perkey[key] <= 3:
                    keep.append((key, what))
                else:
                    agg.setdefault('more', {})
                    agg['more'][key] = agg['more'].get(key, 0) + 1
            if keep:
                agg['problems'].append((case, keep))
    return agg


def tier_b_cases(ck):
    seed = ck.seed
    out = []
    nolate = list(PK) + list(BK)
    persub = [n for n in BK if BK[n]['persub']]
    # ---- top level 2^4
    tops = [(False, False, False), (True, True, True)] if not ck.thorough else \
        [(c, d, m) for c in (False, True) for d in (False, True) for m in (False, True)]
    for cross, df, ms in tops:
        cs = list(fam_top(nolate, cross, df, ms, decoy=cross, with_sub=False))
        # built-in kinds have no D bit: they ride along with both D variants of the project kinds
        both = []
        for c in cs:
            if c['meta']['name'] in PK:
                both.append((('D' in c['meta']['subset'], tuple(s for s in c['meta']['subset'] if s != 'D'), c['meta']['a']), c))
            else:
                for d in (False, True):
                    both.append(((d, tuple(c['meta']['subset']), c['meta']['a']), c))
        groups = {}
        for k, c in both:
            groups.setdefault(k, []).append(c)
        for k in sorted(groups):
            m = merge_cases(groups[k], 'top')
            m['meta']['subset'] = (['D'] if k[0] else []) + list(k[1])
            out.append(m)
    # ---- per machine (cross)
    pm = list(fam_permachine(['pkg_config_path', 'cmake_prefix_path']))
    if not ck.thorough:
        pm = [c for c in pm if c['meta']['a'] == seed % 3]
    out += group_merge(pm, 'permachine', lambda c: (tuple(c['meta']['subset']), c['meta']['a']))
    # ---- subproject 2^8
    subs = [(False, False, False, None)] if not ck.thorough else \
        [(False, False, False, None), (True, True, True, None), (False, True, True, None)]
    for cross, df, ms, only_a in subs:
        cs = list(fam_sub('bsub', persub, cross, df, ms))
        for mode in ('pnon', 'pyield', 'pyieldT', 'pnon0', 'pyield0'):
            cs += list(fam_sub(mode, list(PK), cross, df, ms))
        if only_a is not None:
            cs = [c for c in cs if 'skip' in c or c['meta']['a'] == only_a]
        out += group_merge(cs, 'sub', lambda c: (tuple(c['meta']['subset']), c['meta']['a']))
    # ---- options that only exist once a compiler has been detected (real gcc): pending values
    late = list(LK)
    lt = list(fam_top(late, False, False, False))
    out += group_merge(lt, 'top-late', lambda c: (tuple(c['meta']['subset']), c['meta']['a']))
    ls = list(fam_sub('bsub', ['c_std'], False, False, False))
    ls = [c for c in ls if c['meta']['a'] == (seed + 1) % 3]
    if not ck.thorough:
        ls = [c for c in ls if len(c['meta']['subset']) <= 2 or len(c['meta']['subset']) == 8]
    out += group_merge(ls, 'sub-late', lambda c: (tuple(c['meta']['subset']), c['meta']['a']))
    # ---- the declared default in every shape: one project per (place, higher source, its value) carries every kind x default
    for pi, place in enumerate(DEF_PLACES):
        for cross, df, ms in ([(False, bool((seed + pi) % 2), False)] if not ck.thorough else
                              [(False, False, False), (False, True, True), (True, True, False)]):
            groups = {}
            for c in fam_default(place, cross, df, ms):
                groups.setdefault((c['meta']['source'] or '', -1 if c['meta']['oi'] is None else c['meta']['oi']), []).append(c)
            for gk in sorted(groups):
                m = merge_cases(groups[gk], 'default-' + place)
                m['meta'].update(place=place, source=gk[0] or None, oi=None if gk[1] < 0 else gk[1])
                out.append(m)
    # ---- buildtype
    bt = list(fam_buildtype_top())
    bt = [c for c in bt if c['meta']['a'] == seed % 3]       # tier A runs all three assignments
    if not ck.thorough:
        bt = [c for c in bt if c['meta']['nsrc'] <= 2]
    out += bt
    bs = list(fam_buildtype_sub(max_sources=2 if ck.thorough else 1))
    if ck.thorough:
        bs = [c for c in bs if c['meta']['a'] == 0 or c['meta']['nsrc'] == 1]
    out += bs
    # ---- prefix, invalid
    out += list(fam_prefix())
    if ck.thorough:
        out += list(fam_prefix(cross=True))
    # ---- the spelling of the prefix value: every source alone in every spelling of every prefix; several sources with one
    # rotation (quick) / all (thorough); the directory options set by nobody (quick) / also by a source (thorough)
    ps = list(fam_prefix_spelling(dict_form=bool(seed % 2)))
    ps += [c for style in FLAG_STYLES for c in fam_flagged('fam_prefix_spelling', style)]
    if not ck.thorough:
        ps = [c for c in ps if not c['meta']['dir_sources'] and c['meta']['mode'] == 'all' and
              (len(c['meta']['prefix_sources']) == 1 or c['meta']['a'] == seed % 3) and
              ('cstyle' not in c['meta'] or (c['meta']['prefix_sources'] == ['C'] and c['meta']['table_row']))]
    out += ps
    pc = list(fam_prefix_configure(states=None if ck.thorough else [(None, None), ('C', '/opt/px')]))
    if not ck.thorough:
        pc = [c for n, c in enumerate(pc) if c['meta']['cstyle'] == (('D',) + FLAG_STYLES)[(n // 3 + seed) % 3]]
    out += pc
    iv = [c for c in fam_invalid() if 'skip' not in c]
    if not ck.thorough:
        iv = [c for c in iv if c['meta']['other'] is None]
    out += iv
    # ---- the spelling of the command-line source
    flaggable = [n for n in BK if flag_of(n) in cli_flags('setup')]
    alt = lambda c: c['meta']['cstyle'] == FLAG_STYLES[c['meta']['nsrc'] % 2]     # quick: the two styles alternate over the cases
    for cross, style in ([(False, 'eq'), (True, 'sp')] if not ck.thorough else [(c, st) for c in (False, True) for st in FLAG_STYLES]):
        cs = list(fam_flagged('fam_top', style, names=flaggable, cross=cross, dict_form=cross, mstr=cross, decoy=cross))
        out += group_merge(cs, 'top-flag', lambda c: (tuple(c['meta']['subset']), c['meta']['a']))
    for base, kw in (('fam_permachine', dict(names=['pkg_config_path', 'cmake_prefix_path'])), ('fam_prefix', {})):
        cs = [c for style in FLAG_STYLES for c in fam_flagged(base, style, **kw)]
        if not ck.thorough:
            cs = [c for c in cs if c['meta'].get('a', seed % 3) == seed % 3 and alt(c)]
        if base == 'fam_permachine':
            cs = group_merge(cs, 'permachine-flag', lambda c: (tuple(c['meta']['subset']), c['meta']['a'], c['meta']['cstyle']))
        out += cs
    iv = [c for style in FLAG_STYLES for c in fam_flagged('fam_invalid', style)]
    if not ck.thorough:
        iv = [c for c in iv if c['meta']['other'] is None]
    out += iv
    if ck.thorough:
        cs = [c for c in fam_flagged('fam_sub', 'eq', mode='bsub', names=[n for n in flaggable if BK[n]['persub']], cross=False,
                                     dict_form=False, mstr=False) if c['meta']['a'] == seed % 3]
        out += group_merge(cs, 'sub-flag', lambda c: (tuple(c['meta']['subset']), c['meta']['a']))
    # (tier A runs all three assignments and, in the thorough tier, every default_options / machine-file state; here one of the
    # two assignments in which the command's buildtype is not `debug`, the default, which would change nothing)
    out += [c for c in fam_buildtype_top_flag(pm_max=1 if ck.thorough else 0) if c['meta']['a'] == 1 + seed % 2]
    out += [c for c in fam_buildtype_configure(setup_states=None if ck.thorough else [[]]) if c['meta']['a'] == seed % 2]
    out += list(fam_conf_flag(bases=None if ck.thorough else [['C']]))
    out += list(fam_wipe())
    # ---- the machine-file source given as several layered files: the four disjoint pairs of a matching per project; every
    # placement x competitors; one assignment (quick: native with two layers, cross for the pairs within a section; thorough: also three layers)
    for matching in range(len(LAYER_MATCHINGS)):
        out += list(fam_layers_merged(matching, cross=False, nfiles=2, only_a=(seed + matching) % 3))
        if ck.thorough or matching == 0:
            out += list(fam_layers_merged(matching, cross=True, nfiles=2, dict_form=True, mstr=True, only_a=(seed + 1 + matching) % 3,
                                          comps=(0, 1, 2, 3) if ck.thorough else (0, 3)))
        if ck.thorough:
            out += list(fam_layers_merged(matching, cross=bool(matching), nfiles=3, only_a=(seed + 2) % 3, comps=(0, 3)))
    if os.environ.get('C07_FAMS'):
        out = [c for c in out if any(x in 'fam_' + c['fam'].replace('machine-', '') for x in os.environ['C07_FAMS'].split(','))]
    for c in out:
        c['compare_a'] = not c['scn']['langs']
    return out


def report(ck, tier, case, probs, rerun):
    for key, what in probs:
        known = any(k.get('status') == 'known' and k['key'] == key for k in ck.known)
        if not known and ck._seen_keys.get(key, 0) < 3:
            # determinism: the reported class must reproduce when the case is executed again
            again = rerun(case)[0]
            if key not in [k for k, _ in again]:
                ck.internal('violation %s did not reproduce on re-execution (nondeterminism): %s' % (key, what))
        ck.violation(key, what, {'tier': tier, 'case': case})


# ===============================================================================================================
# Part R: a stored value must satisfy the option as it is declared NOW.  The option file is edited between two
# configurations (one bound / both bounds of an integer, shrunk / replaced choice lists of a combo and of an array);
# after `setup --reconfigure` get_option() must give the old value if the new declaration admits it, else the new default,
# and `meson configure -Dopt=<old value>` must be refused exactly when the new declaration does not admit it.
def redeclare_cases():
    cases = []

    def integer(lo, hi, dv):
        return ("type: 'integer', min: %d, max: %d, value: %d" % (lo, hi, dv), lambda v: lo <= int(v) <= hi, str(dv))

    def combo(ch, dv):
        return ("type: 'combo', choices: [%s], value: '%s'" % (', '.join("'%s'" % c for c in ch), dv), lambda v: v in ch, dv)

    def array(ch, dv):
        return ("type: 'array', choices: [%s], value: [%s]" % (', '.join("'%s'" % c for c in ch), ', '.join("'%s'" % c for c in dv)),
                lambda v: all(x in ch for x in v.split(',')) if v else True, ','.join(dv))
    base_i = integer(0, 10, 5)
    for name, new in (('both-bounds', integer(3, 8, 4)), ('min-only', integer(4, 10, 5)), ('max-only', integer(0, 6, 5)),
                      ('min-only-default-moves', integer(6, 10, 7)), ('max-only-default-moves', integer(0, 3, 2))):
        for v in ('0', '1', '5', '9', '10'):
            cases.append({'id': 'int:%s:%s' % (name, v), 'old': base_i[0], 'new': new[0], 'value': v, 'valid_new': new[1](v), 'newdef': new[2]})
    base_c = combo(['a', 'b', 'c', 'd'], 'a')
    for name, new in (('shrunk', combo(['a', 'b'], 'a')), ('shrunk-default-moves', combo(['c', 'd'], 'd')), ('replaced', combo(['x', 'b'], 'x')),
                      ('reordered', combo(['d', 'c', 'b', 'a'], 'd'))):
        for v in ('a', 'b', 'c', 'd'):
            cases.append({'id': 'combo:%s:%s' % (name, v), 'old': base_c[0], 'new': new[0], 'value': v, 'valid_new': new[1](v), 'newdef': new[2]})
    base_a = array(['x', 'y', 'z', 'w'], ['x'])
    for name, new in (('shrunk', array(['x', 'y'], ['y'])), ('replaced', array(['x', 'q'], ['q']))):
        for v in ('x', 'y,z', 'w', 'x,y'):
            cases.append({'id': 'array:%s:%s' % (name, v), 'old': base_a[0], 'new': new[0], 'value': v, 'valid_new': new[1](v), 'newdef': new[2]})
    return cases


def work_redeclare(case):
    from verif import mesonproc as mp
    root = os.path.join(scratch_root(), 'c07r.%d' % os.getpid())
    shutil.rmtree(root, ignore_errors=True)
    src, bld = os.path.join(root, 'src'), os.path.join(root, 'b')
    mb = "project('r', meson_version: '>=1.1')\no = get_option('opt')\nmessage('VERIF-R|@0@|'.format(o))\n"
    mp.write_tree(src, {'meson.build': mb, 'meson.options': "option('opt', %s)\n" % case['old']})
    probs = []

    def obs(out):
        m = re.search(r'Message: VERIF-R\|(.*)\|', out)
        if not m:
            return None
        v = m.group(1)
        if v.startswith('['):
            v = ','.join(x.strip().strip("'") for x in v.strip('[]').split(',') if x.strip())
        return v
    r = mp.run_meson(['setup', '--backend=none', bld, src, '-Dopt=' + case['value']], root)
    if r.rc != 0 or obs(r.out) != case['value']:
        shutil.rmtree(root, ignore_errors=True)
        return case['id'], [('C07:INTERNAL', 'redeclare: initial setup with -Dopt=%s failed or reads %r: %s' % (case['value'], obs(r.out), r.out[-300:]))]
    with open(os.path.join(src, 'meson.options'), 'w') as f:
        f.write("option('opt', %s)\n" % case['new'])
    r = mp.run_meson(['setup', '--reconfigure', bld, src], root)
    exp = case['value'] if case['valid_new'] else case['newdef']
    if r.unhandled:
        probs.append(('C07:redeclare:unhandled-exception', '%s: reconfigure after the edit dies with a traceback: %s' % (case['id'], r.out[-300:])))
    elif r.rc != 0:
        probs.append(('C07:redeclare:reconfigure-fails', '%s: reconfigure after the edit fails: %s' % (case['id'], r.out[-300:])))
    else:
        got = obs(r.out)
        if got != exp:
            kind = 'stored-value-outside-new-declaration' if not case['valid_new'] and got == case['value'] else 'value'
            probs.append(('C07:redeclare:%s:%s' % (kind, case['id'].split(':')[0]),
                          '%s: option declared as (%s), value %s given, then declared as (%s): get_option() gives %r, expected %r'
                          % (case['id'], case['old'], case['value'], case['new'], got, exp)))
        r2 = mp.run_meson(['configure', bld, '-Dopt=' + case['value']], root)
        if (r2.rc == 0) != case['valid_new'] and not r2.unhandled:
            probs.append(('C07:redeclare:%s:%s' % ('invalid-accepted' if r2.rc == 0 else 'valid-rejected', case['id'].split(':')[0]),
                          '%s: after the edit `meson configure -Dopt=%s` %s although the new declaration (%s) %s it'
                          % (case['id'], case['value'], 'succeeds' if r2.rc == 0 else 'fails', case['new'], 'admits' if case['valid_new'] else 'does not admit')))
        if r2.unhandled:
            probs.append(('C07:redeclare:unhandled-exception', '%s: meson configure dies with a traceback: %s' % (case['id'], r2.out[-300:])))
    shutil.rmtree(root, ignore_errors=True)
    return case['id'], probs


# ===============================================================================================================
# Part P: command-line `subp:opt` (step 8) against command-line `opt` (step 4) when they arrive in different commands of the
# build directory's life.  A subproject value given with -Dsub:opt=V stays V whatever is later said about `opt` - also when V
# happens to be the value the subproject was inheriting at that moment.  Observed where a user reads it without reconfiguring
# (`meson configure` listing, intro-buildoptions.json) and after `setup --reconfigure` (get_option in the subproject).
PIN_OPTS = {
    # name: (kind, inherited value at setup, another value, the later top-level value)
    'foo': ('yield-string', 'top', 'other', 'changed'),
    'cmb': ('yield-combo', 'a', 'b', 'c'),
    'werror': ('builtin', 'false', 'true', 'true'),
    'warning_level': ('builtin', '1', '2', '3'),
}


def pin_cases():
    cases = []
    for name, (kind, inh, other, later) in PIN_OPTS.items():
        for pinval in ('inherited', 'other'):
            for how in ('configure', 'reconfigure', 'same-command-sub-first', 'same-command-top-first'):
                for then in ('configure', 'reconfigure'):
                    if how.startswith('same-command') and then == 'reconfigure':
                        continue
                    v = inh if pinval == 'inherited' else other
                    if name == 'werror' and v == later:
                        later_v = 'false' if v == 'true' else 'true'
                    else:
                        later_v = later
                    cases.append({'id': '%s:%s:%s:%s' % (name, pinval, how, then), 'name': name, 'kind': kind, 'pin': v, 'later': later_v,
                                  'how': how, 'then': then})
    return cases


def work_pin(case):
    from verif import mesonproc as mp
    root = os.path.join(scratch_root(), 'c07p.%d' % os.getpid())
    shutil.rmtree(root, ignore_errors=True)
    src, bld = os.path.join(root, 'src'), os.path.join(root, 'b')
    names = sorted(PIN_OPTS)
    obsl = "foreach k : [%s]\n  message('VERIF-P|%%s|@0@|@1@|'.format(k, get_option(k)))\nendforeach\n" % ', '.join("'%s'" % n for n in names)
    mp.write_tree(src, {
        'meson.build': "project('p', meson_version: '>=1.1')\nsubproject('sub')\n" + obsl % 'top',
        'meson.options': "option('foo', type: 'string', value: 'top')\noption('cmb', type: 'combo', choices: ['a', 'b', 'c'], value: 'a')\n",
        'subprojects/sub/meson.build': "project('sub', meson_version: '>=1.1')\n" + obsl % 'sub',
        'subprojects/sub/meson.options': "option('foo', type: 'string', value: 'subdef', yield: true)\n"
                                         "option('cmb', type: 'combo', choices: ['a', 'b', 'c'], value: 'c', yield: true)\n"})
    n, pin, later = case['name'], case['pin'], case['later']
    probs = []
    tag = '%s: -Dsub:%s=%s (%s) then -D%s=%s (%s)' % (case['id'], n, pin, case['how'], n, later, case['then'])

    def run(argv):
        r = mp.run_meson(argv, root)
        if r.unhandled:
            probs.append(('C07:pin:unhandled-exception', '%s: `%s` dies with a traceback: %s' % (tag, ' '.join(argv[:2]), r.out[-300:])))
        elif r.rc != 0:
            probs.append(('C07:pin:command-fails', '%s: `%s` fails: %s' % (tag, ' '.join(argv), r.out[-300:])))
        return r
    r = run(['setup', '--backend=none', bld, src])
    if r.rc != 0:
        shutil.rmtree(root, ignore_errors=True)
        return case['id'], [('C07:INTERNAL', 'pin: initial setup failed: ' + r.out[-300:])]
    dsub, dtop = '-Dsub:%s=%s' % (n, pin), '-D%s=%s' % (n, later)
    if case['how'] == 'configure':
        run(['configure', bld, dsub])
    elif case['how'] == 'reconfigure':
        run(['setup', '--reconfigure', bld, src, dsub])
    if case['how'] == 'same-command-sub-first':
        run(['configure', bld, dsub, dtop])
    elif case['how'] == 'same-command-top-first':
        run(['configure', bld, dtop, dsub])
    elif case['then'] == 'configure':
        run(['configure', bld, dtop])
    else:
        run(['setup', '--reconfigure', bld, src, dtop])
    if not probs:
        # (a) what the build directory says without reconfiguring
        try:
            intro = {o['name']: o['value'] for o in json.load(open(os.path.join(bld, 'meson-info', 'intro-buildoptions.json')))}
        except Exception as e:
            intro = {'<unreadable>': str(e)}

        def norm(v):
            return ('true' if v else 'false') if isinstance(v, bool) else str(v)
        if norm(intro.get(n)) != later:
            probs.append(('C07:pin:top-value', '%s: intro-buildoptions.json shows %s=%r' % (tag, n, intro.get(n))))
        if case['kind'] != 'builtin' and norm(intro.get('sub:' + n)) != pin:
            probs.append(('C07:pin:stored:intro:%s' % case['kind'], '%s: intro-buildoptions.json shows sub:%s=%r, expected %r' % (tag, n, intro.get('sub:' + n), pin)))
        r = run(['configure', bld])
        aug, in_aug = {}, False
        for l in r.out.splitlines():
            if l.startswith('Currently set option augments'):
                in_aug = True
            elif in_aug and len(l.split()) >= 1 and ':' in l.split()[0]:
                f = l.split()
                aug[f[0]] = f[1] if len(f) > 1 else ''
        if case['kind'] == 'builtin' and aug.get('sub:' + n) != pin:
            probs.append(('C07:pin:stored:configure-listing:builtin', '%s: `meson configure` lists the augments %r, expected sub:%s=%s' % (tag, aug, n, pin)))
        # (b) after the next reconfigure
        r = run(['setup', '--reconfigure', bld, src])
        got = {(m.group(1), m.group(2)): m.group(3) for m in re.finditer(r'Message: VERIF-P\|(\w+)\|(\w+)\|([^|]*)\|', r.out)}
        if got.get(('sub', n)) != pin or got.get(('top', n)) != later:
            probs.append(('C07:pin:get_option:%s' % case['kind'], '%s: after setup --reconfigure get_option(%r) gives top %r / sub %r, expected %r / %r'
                          % (tag, n, got.get(('top', n)), got.get(('sub', n)), later, pin)))
    shutil.rmtree(root, ignore_errors=True)
    return case['id'], probs


# ===============================================================================================================
# Part K: ONE reading of "buildtype sets debug/optimization unless they are given explicitly" for every value of buildtype.
# Where a lower source gives debug / optimization explicitly and a higher source gives only a buildtype, the families above accept
# both readings case by case (the higher buildtype stands for its debug/optimization pair and wins -- "-Dbuildtype=debugoptimized is
# the same as -Ddebug=true -Doptimization=2" -- or the explicit values stay).  Whichever it is, it is a rule about sources: it cannot
# depend on WHICH buildtype the higher source names.  One case = one structure (lower source, what it gives, higher source); the
# higher source names each of the five buildtypes in turn, the explicit values always differ from the pair of that buildtype.
READING_PAIRS = [('P', 'C'), ('P', 'M'), ('M', 'C')]


def reading_cases(pairs=None):
    cases = []
    for low, high in (READING_PAIRS if pairs is None else pairs):
        for b0 in (None, 'release'):                # the lower source may also name a buildtype, listed before its explicit values
            for names in (['debug'], ['optimization'], ['debug', 'optimization']):
                cases.append({'id': '%s-under-%s:%s:%s' % (low, high, b0 or 'no-buildtype', '+'.join(names)), 'low': low, 'high': high,
                              'b0': b0, 'names': names})
    return cases


def reading_scn(case, bt):
    d, o = BUILDTYPE_TABLE[bt]
    scn = new_scn(False, False)
    explicit = {}
    if case['b0']:
        put(scn, case['low'], 'buildtype', case['b0'])
    for nm in case['names']:
        explicit[nm] = (not d) if nm == 'debug' else 'g'        # (no buildtype stands for optimization g)
        put(scn, case['low'], nm, explicit[nm])
    put(scn, case['high'], 'buildtype', bt)
    scn['obs'] = [['top', 'buildtype'], ['top', 'debug'], ['top', 'optimization']]
    return scn, explicit


def work_reading(task):
    case, tiers = task
    probs = []
    readings = {}
    for tier in tiers:
        per = {}
        for bt in BUILDTYPE_TABLE:
            scn, explicit = reading_scn(case, bt)
            res = run_a(scn) if tier == 'A' else run_b(scn)
            tag = '%s: %s gives %s%s, %s gives buildtype=%s (tier %s)' % (
                case['id'], case['low'], ('buildtype=%s, ' % case['b0']) if case['b0'] else '',
                ', '.join('%s=%s' % (k, cstr(v)) for k, v in explicit.items()), case['high'], bt, tier)
            if res.get('crash') or res['rejected']:
                probs.append(('C07:buildtype:reading:valid-configuration-fails', '%s: %r' % (tag, res.get('crash') or res['rejected'])))
                continue
            implied = dict(zip(('debug', 'optimization'), BUILDTYPE_TABLE[bt]))
            r = set()
            for nm, ev in explicit.items():
                got = res['obs'].get('top:' + nm, '<<missing>>')
                r.add('buildtype-wins' if got == implied[nm] else 'explicit-stays' if got == ev else 'other')
                if got != implied[nm] and got != ev:
                    probs.append(('C07:buildtype:reading:neither-explicit-nor-implied-value', '%s: %s is %r' % (tag, nm, got)))
            if res['obs'].get('top:buildtype') != bt:
                probs.append(('C07:buildtype:reading:buildtype-not-in-effect', '%s: buildtype is %r' % (tag, res['obs'].get('top:buildtype'))))
            per[bt] = '+'.join(sorted(r))
        readings[tier] = per
        kinds = sorted(set(per.values()) - {'other'})
        if len(kinds) > 1:
            current = case['b0'] or 'debug'         # the buildtype in effect below the higher source ('debug' is the documented default)
            stays = sorted(b for b, x in per.items() if x == 'explicit-stays')
            if stays == [current] and all(x == 'buildtype-wins' for b, x in per.items() if b != current):
                key = 'C07:buildtype:higher-source-buildtype-equal-to-the-one-in-effect-does-not-set-debug-optimization'
            else:
                key = 'C07:buildtype:reading-depends-on-the-buildtype-value'
            probs.append((key, '%s: %s gives %s%s (each time other than what the buildtype stands for); %s gives buildtype=<b>: %s (tier %s)' % (
                case['id'], case['low'], ('buildtype=%s, ' % case['b0']) if case['b0'] else '', ' and '.join(case['names']), case['high'],
                ', '.join('%s -> %s' % (b, x) for b, x in per.items()), tier)))
    return case['id'], probs, readings


def require_prefix_spelling(ck, pspell, tier, sources, hows):
    """Anti-vacuity of the prefix-spelling dimension: every source gave the effective prefix in every non-canonical spelling, for a
    prefix that has a row in the documented table (only there can a default fail to follow), and so did meson configure."""
    for how in hows:
        for src in sources:
            if how != 'canonical':
                ck.require(pspell.get('setup:%s:%s:table-row' % (src, how), 0) > 0,
                           'prefix spelling: no tier %s setup in which source %s gives a /usr-like prefix spelled %s' % (tier, src, how))
        ck.require(pspell.get('configure:%s:table-row' % how, 0) > 0,
                   'prefix spelling: no tier %s meson configure giving a /usr-like prefix spelled %s' % (tier, how))


def require_layers(ck, layc, tier):
    secs = sorted({(SUB + ':' if place.startswith('sub') else '') + section_of(o) for o, place in LAYER_OPTS})
    for need in ['option-in-2-of-2-layers', 'option-in-1-of-2-layers', 'later-layer-replaces-value-of-earlier-layer',
                 'value-of-earlier-layer-stands-while-a-later-layer-has-another-section'] + \
                ['value-of-earlier-layer-stands-while-a-later-layer-has-the-same-section:' + x for x in secs]:
        ck.require(layc.get(need, 0) > 0, 'machine-file layers: no tier %s case of class %s' % (tier, need))


def main():
    ck = Check('C07', 'exploration')
    if ck.args.replay:
        return replay(ck)
    if os.environ.get('C07_FAMS'):      # development aid (never part of a real run): the self-checks of the families left out only print
        ck.require = lambda cond, msg: None if cond else print('C07_FAMS: self-check not met:', msg)
    from verif import mesonproc as mp
    mp.preimport()
    scratch_root()
    classes = set()
    tot = {'strong': 0, 'weak': 0, 'skipped': 0, 'rejected_invalid': 0, 'accepted_overridden_invalid': 0}
    evaluations = 0
    skipped_cases = 0
    # ------------------------------------------------------------------ tier A
    if ck.want('A'):
        specs = tier_a_tasks(ck)
        tasks = [(sp, sh) for sp in specs for sh in range(NSHARD)]
        fams = {}
        multi = late_rej = stores = 0
        sample = None
        spell = {}
        pspell = {}
        dd = {}
        layc = {}
        pending = []
        for (sp, sh), agg in zip(tasks, pmap(work_a_task, tasks)):
            for k, v in agg['layers'].items():
                layc[k] = layc.get(k, 0) + v
            for k, v in agg['pspell'].items():
                pspell[k] = pspell.get(k, 0) + v
            for k, v in agg['dd'].items():
                dd[k] = dd.get(k, 0) + v
            stores += agg['n']
            skipped_cases += agg['skipped_cases']
            classes |= agg['classes']
            multi += agg['multi']
            late_rej += agg['late_rej']
            sample = sample or agg['sample']
            for k, v in agg['spell'].items():
                spell[k] = spell.get(k, 0) + v
            for k, v in agg['tot'].items():
                tot[k] += v
            for fn, fv in agg['fams'].items():
                f = fams.setdefault(fn, {'cases': 0, 'violating': 0})
                f['cases'] += fv['cases']
                f['violating'] += fv['violating']
            pending.append((specs.index(sp), agg['problems'], agg.get('more', {})))
        # simplest first: per family spec, the cases of all shards by number of competing sources
        flat = [(si, case['meta'].get('nsrc', 0), n, case, probs) for n, (si, pl, _) in enumerate(pending) for case, probs in pl]
        for si, _, _, case, probs in sorted(flat, key=lambda t: t[:3]):
            report(ck, 'A', case, probs, work_a)
        for _, _, more in pending:
            for key, n in more.items():
                if any(k.get('status') == 'known' and k['key'] == key for k in ck.known):
                    ck._known_hit[key] = ck._known_hit.get(key, 0) + n
                else:
                    ck._seen_keys[key] = ck._seen_keys.get(key, 0) + n
                    ck.n_viol += n
        evaluations += stores
        ck.part('tierA', stores=stores, families=fams, cases_with_3_or_more_competing_sources=multi,
                invalid_pending_values_rejected_when_option_appears=late_rej)
        flag_fams = {fn: fv['cases'] for fn, fv in fams.items() if fn.endswith('-flag') or fn == 'buildtype-configure'}
        ck.part('tierA_command_line_spelling', families=flag_fams, cases_by_style_and_class=dict(sorted(spell.items())),
                long_flags_of_setup=len(cli_flags('setup')), long_flags_of_configure=len(cli_flags('configure')))
        ck.require(all(flag_of(n) in cli_flags('setup') and flag_of(n) in cli_flags('configure') for n in list(BK) + sorted(BUILTIN_EXTRA)),
                   'a built-in option of the model has no long flag in `meson setup --help`: flag_of() is wrong')
        for need in ('setup:eq', 'setup:sp', 'setup:bare', 'configure:D', 'configure:eq', 'configure:sp', 'configure:bare',
                     'setup:buildtype-flag-last-with-differing-explicit-value', 'setup:buildtype-flag-first-with-differing-explicit-value',
                     'configure:buildtype-flag-last-with-differing-explicit-value', 'configure:buildtype-D-last-with-differing-explicit-value'):
            ck.require(spell.get(need, 0) > 0, 'spelling dimension: no tier A case of class ' + need)
        for fn in ('top-flag', 'sub-bsub-flag', 'permachine-flag', 'prefix-flag', 'invalid-top-flag', 'buildtype-top-flag',
                   'buildtype-configure', 'configure-flag'):
            ck.require(flag_fams.get(fn, 0) > 0, 'spelling dimension: family %s is empty' % fn)
        ck.part('tierA_prefix_spelling', families={fn: fv['cases'] for fn, fv in fams.items() if fn.startswith(('prefix-spelling', 'prefix-configure'))},
                spellings=PREFIX_SPELLINGS, cases_by_command_source_spelling_row=dict(sorted(pspell.items())))
        require_prefix_spelling(ck, pspell, 'A', ('P', 'M', 'C'), PREFIX_SPELLINGS)
        by_place, shapes, missing = default_part(dd)
        ck.part('tierA_declared_default', families={fn: fv['cases'] for fn, fv in fams.items() if fn.startswith('default-')},
                kinds={kn: [lit(v) for v in kv['vals']] for kn, kv in DK.items()}, by_place=by_place,
                declared_default_in_effect_by_type_and_shape=shapes)
        ck.require(not missing, 'declared-default dimension: no tier A case for %d cells, e.g. %s' % (len(missing), missing[:4]))
        ck.part('tierA_machine_file_layers', cases=fams.get('machine-layers', {}).get('cases', 0), options=[o for o, _ in LAYER_OPTS],
                layers_per_source=[2, 3] if ck.thorough else [2], observed_options_by_class=dict(sorted(layc.items())))
        require_layers(ck, layc, 'A')
        ck.require(multi > 1000, 'too few multi-source cases in tier A')
        ck.require(late_rej > 0, 'no pending (late) invalid value was exercised')
        ck.require(tot['rejected_invalid'] > 100 and tot['weak'] > 0 and tot['strong'] > 10000, 'tier A comparison counters')
        ck.sample({'tierA_case': sample})
    # ------------------------------------------------------------------ tier B
    if ck.want('B'):
        cases = tier_b_cases(ck)
        cases.sort(key=lambda c: c['meta'].get('nsrc', 0))
        fams = {}
        agree = disagree = 0
        for case, (probs, st, cls, rstage, ab) in zip(cases, pmap(work_b, cases, chunksize=4)):
            evaluations += 1
            classes.add('B:' + cls)
            f = fams.setdefault(case['fam'], {'setups': 0, 'violating': 0, 'options_per_setup_max': 0})
            f['setups'] += 1
            f['options_per_setup_max'] = max(f['options_per_setup_max'], case['meta'].get('merged', 1))
            for k in tot:
                tot[k] += st[k]
            if ab is True:
                agree += 1
            elif ab is False:
                disagree += 1
            if probs:
                f['violating'] += 1
                report(ck, 'B', case, probs, work_b)
        cold = cases[ck.seed % 7::max(1, len(cases) // 8)][:8]
        cold_ok = 0
        for case, (same, oa, ob) in zip(cold, pmap(work_b_cold, cold)):
            if not same:
                ck.internal('fork runner and cold `python meson.py` disagree on %s: %r vs %r' % (json.dumps(case['meta'], default=repr), oa, ob))
            cold_ok += 1
        ck.part('tierB', setups=len(cases), families=fams, tierA_same_observation=agree, tierA_differs=disagree,
                cold_revalidated=cold_ok)
        spell = {}
        for case in cases:
            for sk in spelling_counters(case):
                spell[sk] = spell.get(sk, 0) + 1
        flag_fams = {fn: fv['setups'] for fn, fv in fams.items() if fn.endswith('-flag') or fn == 'buildtype-configure'}
        ck.part('tierB_command_line_spelling', families=flag_fams, cases_by_style_and_class=dict(sorted(spell.items())),
                meson_configure_runs=sum(len(c['scn'].get('confcmd') or []) for c in cases))
        for need in ('setup:eq', 'setup:sp', 'setup:bare', 'configure:D', 'configure:eq', 'configure:sp', 'configure:bare',
                     'setup:buildtype-flag-last-with-differing-explicit-value', 'configure:buildtype-flag-last-with-differing-explicit-value'):
            ck.require(spell.get(need, 0) > 0, 'spelling dimension: no tier B case of class ' + need)
        for fn in ('top-flag', 'permachine-flag', 'prefix-flag', 'invalid-top-flag', 'buildtype-top-flag', 'buildtype-configure', 'configure-flag'):
            ck.require(flag_fams.get(fn, 0) > 0, 'spelling dimension: tier B family %s is empty' % fn)
        pspell = {}
        for case in cases:
            for sk in prefix_counters(case):
                pspell[sk] = pspell.get(sk, 0) + 1
        ck.part('tierB_prefix_spelling', families={fn: fv['setups'] for fn, fv in fams.items() if fn.startswith(('prefix-spelling', 'prefix-configure'))},
                cases_by_command_source_spelling_row=dict(sorted(pspell.items())))
        require_prefix_spelling(ck, pspell, 'B', ('P', 'M', 'C'), PREFIX_SPELLINGS)
        dd = {}
        for case in cases:
            for sk in default_counters(case):
                dd[sk] = dd.get(sk, 0) + 1
        by_place, shapes, missing = default_part(dd)
        ck.part('tierB_declared_default', setups={fn: fv['setups'] for fn, fv in fams.items() if fn.startswith('default-')},
                by_place=by_place, declared_default_in_effect_by_type_and_shape=shapes)
        ck.require(not missing, 'declared-default dimension: no tier B setup for %d cells, e.g. %s' % (len(missing), missing[:4]))
        layc = {}
        for case in cases:
            for sk in layer_counters(case):
                layc[sk] = layc.get(sk, 0) + 1
        ck.part('tierB_machine_file_layers', setups=fams.get('machine-layers', {}).get('setups', 0),
                observed_options_by_class=dict(sorted(layc.items())))
        require_layers(ck, layc, 'B')
        ck.require(len(cases) > 500, 'too few tier B setups')
        ck.require(agree > 0, 'tier A / tier B cross-validation never ran')
        files, argv = b_tree(cases[len(cases) // 2]['scn'])
        ck.sample({'tierB_argv': argv, 'meson.build': files['meson.build'][:600]})
    if ck.want('R'):
        from verif import mesonproc as mp
        mp.preimport()
        rc = redeclare_cases()
        nbad = 0
        for cid, probs in pmap(work_redeclare, rc, chunksize=2):
            evaluations += 1
            classes.add('R:' + cid.rsplit(':', 1)[0])
            for key, what in probs:
                if key == 'C07:INTERNAL':
                    ck.internal(what)
                nbad += 1
                ck.violation(key, what, {'tier': 'R', 'case': {'id': cid}})
        ck.part('redeclare', cases=len(rc), violating=nbad)
    if ck.want('P'):
        from verif import mesonproc as mp
        mp.preimport()
        pc = pin_cases()
        nbad = 0
        for cid, probs in pmap(work_pin, pc, chunksize=2):
            evaluations += 1
            classes.add('P:' + ':'.join(cid.split(':')[:2]))
            seen = set()
            for key, what in probs:
                if key == 'C07:INTERNAL':
                    ck.internal(what)
                if key in seen:
                    continue
                seen.add(key)
                nbad += 1
                ck.violation(key, what, {'tier': 'P', 'case': {'id': cid}})
        ck.part('pin', cases=len(pc), violating=nbad)
    if ck.want('K'):
        from verif import mesonproc as mp
        mp.preimport()
        kc = reading_cases()
        b_ids = {c['id'] for c in reading_cases(None if ck.thorough else READING_PAIRS[:1])}
        nbad = 0
        seen_readings = {}
        nruns = {'A': 0, 'B': 0}
        for cid, probs, readings in pmap(work_reading, [(c, ['A', 'B'] if c['id'] in b_ids else ['A']) for c in kc]):
            classes.add('K:' + cid.split(':')[0])
            seen = set()
            for tier, per in readings.items():
                evaluations += len(per)
                nruns[tier] += len(per)
                for x in per.values():
                    seen_readings[x] = seen_readings.get(x, 0) + 1
            for key, what in probs:
                if key in seen:
                    continue
                seen.add(key)
                nbad += 1
                ck.violation(key, what, {'tier': 'K', 'case': {'id': cid}})
        ck.part('buildtype_one_reading', structures=len(kc), buildtype_values=len(BUILDTYPE_TABLE), tierA_runs=nruns['A'], tierB_setups=nruns['B'],
                readings_observed=dict(sorted(seen_readings.items())), violating=nbad)
        ck.require(nruns['A'] == len(kc) * len(BUILDTYPE_TABLE) or nbad, 'buildtype reading: not every structure x buildtype was observed')
        ck.require(nruns['B'] > 0 or nbad, 'buildtype reading: no tier B setup')
        ck.require(seen_readings.get('buildtype-wins', 0) + seen_readings.get('explicit-stays', 0) > 0, 'buildtype reading: no reading observed')
    if os.environ.get('C07_SHOW_PARTS'):
        pats = [x if x != '1' else 'spelling' for x in os.environ['C07_SHOW_PARTS'].split(',')]
        print(json.dumps({k: v for k, v in ck.parts.items() if any(x in k for x in pats)}, indent=1, sort_keys=True))
    ck.assume('reference order transcribed from Builtin-options.md ("The value is overridden in this order"), Machine-files.md '
              '("Command line > Machine file > Build system definitions"), Build-options.md (yield, types), project/subproject yaml docs')
    ck.assume('non-yielding subproject project option: unprefixed opt=value addresses the parent\'s option of that name, never the subproject\'s')
    ck.assume('yielding option set through S/PS/SC/MS (not -Dsub:opt): either the parent\'s value or the addressed value is accepted (weak)')
    ck.assume('buildtype: a lower-priority explicit debug/optimization versus a higher-priority buildtype is accepted either way (weak); '
              'debug+optimization -> buildtype deduction is not part of the property and not compared')
    ck.assume('the spelling of a command-line entry (-Dname=value / --name=value / --name value / --name for a boolean) does not enter '
              'the precedence; which long flags exist is read from the parsers of meson setup / meson configure ("a list is shown by '
              'meson setup --help"); false cannot be said with a switch and the same option given in both spellings is an error: not generated')
    ck.assume('a prefix written with trailing slash(es), a trailing /. or a doubled inner slash names the same directory (POSIX pathname '
              'resolution); the docs do not say whether Meson normalises the text, so the effective prefix may be the plain path or any such '
              'spelling of it; the directory defaults are compared with the documented table for the plain path when the effective prefix '
              'is the plain path (strong), and may be the general defaults when Meson kept another spelling (weak); .., a leading //, '
              'backslashes and ~ are not generated')
    ck.assume('meson configure -Dprefix=...: the directory options that no source ever set may keep the default they got at setup or take '
              'the documented default for the new prefix (weak); at setup they must follow the prefix')
    ck.assume('meson configure giving buildtype: explicit debug/optimization of the same command win; against an explicit value of an '
              'earlier command either outcome is accepted (weak), as for a lower-priority source')
    ck.assume('buildtype, one reading: whichever of the two accepted readings holds for "lower source gives debug/optimization, higher '
              'source gives a buildtype", it is the same for every value of that buildtype (a rule about sources cannot depend on whether '
              'the buildtype named happens to be the one already in effect)')
    ck.assume('tier A replicates the two inline cross-build filtering steps of Environment.__init__; tier B runs the real thing')
    ck.assume('unspecified and skipped: unprefixed opt=value for an option only the subproject declares; integer/free-array option without value:; '
              'repeated array elements; build.* options in native builds; what sub:prefix means for the subproject (it must not change the build\'s prefix); abs paths inside prefix; deprecated-option remapping')
    ck.assume('the declared default: Build-options.md gives the default of an option without value: for string (empty), boolean (true), '
              'combo (first choice), array with choices (all choices); for integer and for an array without choices it is silent: the '
              'value is then only required to be a valid one; feature without value: is taken to be auto; a value: that is the empty '
              'string / false / 0 / [] / the first choice / disabled is a declared default like any other')
    ck.finish(evaluations=evaluations, distinct_nontrivial=len(classes),
              rule='every subset of the documented sources (2^4 top level, 2^8 subproject) x option kinds x digit-scheme value assignments x '
                   'native/cross x spellings; buildtype/debug/optimization listings; prefix x directory sources; every invalid-value class '
                   'from every source; the prefix in every spelling of the path (p, p/, p//, p/., doubled inner slash) from every source and '
                   'from meson configure, all prefix-dependent directory defaults against the documented table; the command-line source in every spelling (-Dname=value, --name=value, --name value, boolean '
                   'switch) for meson setup and meson configure, buildtype/debug/optimization in every combination of spellings and '
                   'both orders; the declared default of every kind of project option in every shape (no value:, empty / zero / false / '
                   'first choice / last choice / bounds / all choices) at top level, in a subproject, shadowing and yielding to a parent option, '
                   'alone and under each single higher source with each value; tier A on a real OptionStore, tier B through meson setup / meson configure. distinct_nontrivial = distinct '
                   '(tier, family, winning source | rejection stage) classes observed',
              exhaustive=True, compared_strong=tot['strong'], compared_weak=tot['weak'], skipped_unspecified=tot['skipped'] + skipped_cases,
              invalid_rejected=tot['rejected_invalid'], invalid_overridden_accepted=tot['accepted_overridden_invalid'])


def replay(ck):
    d = json.load(open(ck.args.replay))
    case = d['case']
    tier = d['tier']
    if tier == 'R':
        from verif import mesonproc as mp
        mp.preimport()
        c = [x for x in redeclare_cases() if x['id'] == case['id']][0]
        print('replay redeclare case', c['id'], '| old:', c['old'], '| value:', c['value'], '| new:', c['new'])
        cid, probs = work_redeclare(c)
        for k, w in probs:
            print('observed:', k, w)
        print('still violates' if probs else 'no violation')
        sys.exit(1 if probs else 0)
    if tier == 'K':
        from verif import mesonproc as mp
        mp.preimport()
        c = [x for x in reading_cases() if x['id'] == case['id']][0]
        print('replay buildtype-reading case', c)
        cid, probs, readings = work_reading((c, ['A', 'B']))
        print('observed readings per buildtype of the higher source:', json.dumps(readings, sort_keys=True))
        print('expected: the same reading for every buildtype')
        for k, w in probs:
            print('observed:', k, w)
        print('still violates' if probs else 'no violation')
        sys.exit(1 if probs else 0)
    if tier == 'P':
        from verif import mesonproc as mp
        mp.preimport()
        c = [x for x in pin_cases() if x['id'] == case['id']][0]
        print('replay pin case', c)
        cid, probs = work_pin(c)
        for k, w in probs:
            print('observed:', k, w)
        print('still violates' if probs else 'no violation')
        sys.exit(1 if probs else 0)
    print('replay tier %s family %s meta %s' % (tier, case['fam'], json.dumps(case['meta'], default=repr)))
    if tier == 'A':
        res = run_a(case['scn'], real_argparse=case.get('argparse', False))
        jc = case
    else:
        from verif import mesonproc as mp
        mp.preimport()
        res = run_b(case['scn'], keep=True)
        jc = b_adjust_features(case)
        files, argv = b_tree(case['scn'])
        print('argv:', ' '.join(argv))
        for cmd in case['scn'].get('confcmd') or []:
            print('then: configure bld', ' '.join(c_argv(cmd)), ' (observed in bld/meson-info/intro-buildoptions.json)')
        for f, t in files.items():
            print('--- %s\n%s' % (f, t), end='')
    probs, st = judge(jc, res, tier)
    print('expected:', json.dumps(jc['exp'], sort_keys=True), 'reject=' + case['reject'])
    print('observed:', json.dumps(res['obs'], sort_keys=True, default=repr), 'rejected=%r crash=%r bad=%r' % (res['rejected'], res['crash'], res['bad']))
    for k, w in probs:
        print('STILL VIOLATES %s: %s' % (k, w))
    sys.exit(1 if probs else 0)


run_main(main)
