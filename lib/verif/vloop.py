# E8 + E3: virtual asyncio loop, fake subprocess layer and the deviation-bounded stateless explorer.
#
# The unit under test (mesonbuild.mtest.TestHarness.doit() -> asyncio.run(...)) is left untouched.  Seams, all of
# them outside mesonbuild:
#   * an asyncio event-loop *policy* whose new_event_loop() returns VirtualLoop, a BaseEventLoop subclass with a
#     virtual time() and a fake `_selector`.  BaseEventLoop._run_once() calls _selector.select(timeout) with
#     timeout != 0 exactly when no callback is ready, i.e. when the program is quiescent and only the environment
#     can make progress: that call is the explorer's choice point;
#   * asyncio.create_subprocess_exec replaced (attribute of the asyncio module) by a factory of FakeProcess objects
#     with real asyncio.StreamReaders; "process p writes its output, closes its pipes and exits with status c" is
#     ONE environment event;
#   * os.killpg replaced by a stub that only knows fake pids (never signals a real process).
#
# Enabled environment events at a quiescent point:
#   exit(p)   for every running fake process that is not hanging, or that has been sent SIGTERM (then rc = -15);
#   timer     advance the virtual clock to the earliest live timer (if there is one).
# A process that was sent SIGKILL (or Process.kill()) exits before anything else happens (no choice).
# Options are ordered: exits in process start order, timer last; choice 0 (the default continuation) is therefore
# "the oldest running process finishes", and a deviation is any other choice.
#
# Explorer (E3): stateless; an execution is determined by its list of choices.  explore() runs the default
# continuation after replaying a prefix and branches at every later point while #non-default choices <= bound
# (bound None = all schedules).  Each frontier entry carries the option labels observed by its parent at every
# prefix point; a mismatch during replay raises ReplayDivergence (the check turns that into exit 2).
from __future__ import annotations
import asyncio, collections, contextlib, os, signal
import typing as T


class ExplorerError(Exception):
    pass


class ReplayDivergence(ExplorerError):
    """Replaying a recorded prefix met different options: the system under test is not deterministic."""


class Horizon(ExplorerError):
    """More choice points than the horizon allows (livelock suspicion)."""


class Deadlock(ExplorerError):
    """Quiescent, no ready callback, no timer, no enabled environment event: the program would hang forever."""


class Chooser:
    def __init__(self, prefix: T.Sequence[int] = (), sig: T.Sequence[T.Tuple[str, ...]] = (), horizon: int = 60):
        self.prefix = tuple(prefix)
        self.sig = tuple(sig)
        self.horizon = horizon
        self.trace: T.List[T.Tuple[T.Tuple[str, ...], int]] = []
        self.abort = False      # set when the run is being torn down after an ExplorerError

    def choose(self, labels: T.Sequence[str]) -> int:
        labels = tuple(labels)
        if self.abort:
            return 0
        i = len(self.trace)
        if i >= self.horizon:
            raise Horizon('more than %d environment events' % self.horizon)
        if i < len(self.prefix):
            c = self.prefix[i]
            if i < len(self.sig) and self.sig[i] != labels:
                raise ReplayDivergence('point %d: recorded options %r, now %r' % (i, self.sig[i], labels))
            if not 0 <= c < len(labels):
                raise ReplayDivergence('point %d: recorded choice %d out of range for %r' % (i, c, labels))
        else:
            c = 0
        self.trace.append((labels, c))
        return c

    @property
    def choices(self) -> T.Tuple[int, ...]:
        return tuple(c for _, c in self.trace)

    @property
    def labels(self) -> T.Tuple[T.Tuple[str, ...], ...]:
        return tuple(l for l, _ in self.trace)

    def schedule(self) -> T.List[str]:
        return [l[c] for l, c in self.trace]


class Behaviour(T.NamedTuple):
    rc: int = 0                 # exit status (negative: died from that signal by itself)
    out: bytes = b''            # written to stdout before exiting
    err: bytes = b''
    hang: bool = False          # never exits by itself


class FakeProcess:
    def __init__(self, world: 'World', pid: int, key: str, beh: Behaviour, loop: asyncio.AbstractEventLoop,
                 want_out: bool, want_err: bool):
        self.world = world
        self.pid = pid
        self.key = key
        self.beh = beh
        self.returncode: T.Optional[int] = None
        self.stdin = None
        self.stdout = asyncio.StreamReader(loop=loop) if want_out else None
        self.stderr = asyncio.StreamReader(loop=loop) if want_err else None
        self._loop = loop
        self._waiters: T.List[asyncio.Future] = []
        self.sigterm = False
        self.sigkill = False

    async def wait(self) -> int:
        if self.returncode is not None:
            return self.returncode
        fut = self._loop.create_future()
        self._waiters.append(fut)
        try:
            return await fut
        finally:
            if fut in self._waiters:
                self._waiters.remove(fut)

    def send_signal(self, sig: int) -> None:
        self.world.killpg(self.pid, sig)

    def terminate(self) -> None:
        self.world.killpg(self.pid, signal.SIGTERM)

    def kill(self) -> None:
        self.world.killpg(self.pid, signal.SIGKILL)

    # the one environment event of a process
    def _exit(self) -> int:
        if self.sigkill:
            rc = -int(signal.SIGKILL)
        elif self.sigterm:
            rc = -int(signal.SIGTERM)
        else:
            rc = self.beh.rc
        natural = not (self.sigkill or self.sigterm)
        if self.stdout is not None:
            if natural and self.beh.out:
                self.stdout.feed_data(self.beh.out)
            self.stdout.feed_eof()
        if self.stderr is not None:
            if natural and self.beh.err:
                self.stderr.feed_data(self.beh.err)
            self.stderr.feed_eof()
        self.returncode = rc
        for f in list(self._waiters):
            if not f.done():
                f.set_result(rc)
        return rc


class World:
    """Environment of one execution: fake processes, event log, choice points."""
    FIRST_PID = 5_000_000       # above the kernel's maximal pid_max (2^22): can never name a real process

    def __init__(self, chooser: Chooser, behaviour: T.Callable[[T.Sequence[str], T.Mapping[str, str]], T.Tuple[str, Behaviour]]):
        self.chooser = chooser
        self.behaviour = behaviour
        self.procs: 'collections.OrderedDict[int, FakeProcess]' = collections.OrderedDict()
        self.all: T.List[FakeProcess] = []
        self.log: T.List[T.Tuple] = []      # ('start'|'end'|'signal'|'timer', vtime, key, extra)
        self.loop: T.Optional['VirtualLoop'] = None
        self.transitions = 0
        self.next_pid = self.FIRST_PID

    def now(self) -> float:
        return self.loop.time() if self.loop is not None else 0.0

    async def create_subprocess_exec(self, *args: str, stdin: T.Any = None, stdout: T.Any = None, stderr: T.Any = None,
                                     env: T.Optional[T.Mapping[str, str]] = None, cwd: T.Optional[str] = None,
                                     preexec_fn: T.Any = None, **kw: T.Any) -> FakeProcess:
        loop = asyncio.get_running_loop()
        key, beh = self.behaviour(args, env or {})
        pid = self.next_pid
        self.next_pid += 1
        p = FakeProcess(self, pid, key, beh, loop, stdout == asyncio.subprocess.PIPE, stderr == asyncio.subprocess.PIPE)
        self.procs[pid] = p
        self.all.append(p)
        self.log.append(('start', self.now(), key, pid))
        return p

    def killpg(self, pid: int, sig: int) -> None:
        p = self.procs.get(pid)
        if p is None:
            raise ProcessLookupError(pid)
        self.log.append(('signal', self.now(), p.key, int(sig)))
        if sig == signal.SIGKILL:
            p.sigkill = True
        elif sig in (signal.SIGTERM, signal.SIGINT, signal.SIGHUP):
            p.sigterm = True

    def _deliver_exit(self, p: FakeProcess) -> None:
        rc = p._exit()
        del self.procs[p.pid]
        self.log.append(('end', self.now(), p.key, rc))
        self.transitions += 1

    # called by the fake selector: the program is quiescent
    def quiescent(self, loop: 'VirtualLoop', timeout: T.Optional[float]) -> None:
        for p in list(self.procs.values()):
            if p.sigkill:
                self._deliver_exit(p)
                return
        enabled: T.List[T.Tuple[str, T.Optional[FakeProcess]]] = []
        for p in self.procs.values():
            if p.sigterm or not p.beh.hang or self.chooser.abort:
                enabled.append(('exit:' + p.key, p))
        if timeout is not None:
            enabled.append(('timer', None))
        if not enabled:
            self.chooser.abort = True
            raise Deadlock('no ready callback, no timer, no process that can exit; running: %r'
                           % [p.key for p in self.procs.values()])
        try:
            c = self.chooser.choose([l for l, _ in enabled])
        except ExplorerError:
            self.chooser.abort = True       # tear-down: every later point takes the first option
            raise
        lab, p = enabled[c]
        if p is not None:
            self._deliver_exit(p)
        else:
            when = loop._scheduled[0]._when
            if when > loop._vtime:
                loop._vtime = when
            self.log.append(('timer', loop._vtime, '', None))
            self.transitions += 1


class _Selector:
    def __init__(self, loop: 'VirtualLoop', world: World):
        self.loop = loop
        self.world = world

    def select(self, timeout: T.Optional[float] = None) -> T.List:
        if timeout is not None and timeout <= 0:
            return []
        self.world.quiescent(self.loop, timeout)
        return []

    def close(self) -> None:
        pass


class VirtualLoop(asyncio.BaseEventLoop):
    def __init__(self, world: World):
        super().__init__()
        self._vtime = 0.0
        self._clock_resolution = 1e-9
        self._selector = _Selector(self, world)
        self._sig: T.Dict[int, T.Any] = {}
        world.loop = self

    def time(self) -> float:
        return self._vtime

    def _process_events(self, event_list: T.List) -> None:
        pass

    def _write_to_self(self) -> None:
        pass

    def add_signal_handler(self, sig: int, callback: T.Callable, *args: T.Any) -> None:
        self._sig[sig] = (callback, args)

    def remove_signal_handler(self, sig: int) -> bool:
        return self._sig.pop(sig, None) is not None


class _Policy(asyncio.DefaultEventLoopPolicy):
    def __init__(self, world: World):
        super().__init__()
        self._world = world

    def new_event_loop(self) -> asyncio.AbstractEventLoop:
        return VirtualLoop(self._world)


@contextlib.contextmanager
def installed(world: World) -> T.Iterator[World]:
    """Route asyncio.run(), asyncio.create_subprocess_exec and os.killpg of this process to `world`."""
    old_policy = asyncio.get_event_loop_policy()
    old_cse = asyncio.create_subprocess_exec
    old_killpg = os.killpg
    asyncio.set_event_loop_policy(_Policy(world))
    asyncio.create_subprocess_exec = world.create_subprocess_exec      # type: ignore
    os.killpg = world.killpg                                           # type: ignore
    try:
        yield world
    finally:
        asyncio.create_subprocess_exec = old_cse
        os.killpg = old_killpg
        asyncio.set_event_loop_policy(old_policy)


class Run(T.NamedTuple):
    choices: T.Tuple[int, ...]
    labels: T.Tuple[T.Tuple[str, ...], ...]
    result: T.Any
    error: T.Optional[str]      # 'deadlock: ...' | 'horizon: ...' | None


def execute(body: T.Callable[[World], T.Any], behaviour: T.Callable, prefix: T.Sequence[int] = (),
            sig: T.Sequence[T.Tuple[str, ...]] = (), horizon: int = 60) -> T.Tuple[Run, World]:
    """One execution of body(world) under the virtual loop, following `prefix` then default choices."""
    ch = Chooser(prefix, sig, horizon)
    world = World(ch, behaviour)
    err = None
    res = None
    with installed(world):
        try:
            res = body(world)
        except ReplayDivergence:
            raise
        except Deadlock as e:
            err = 'deadlock: %s' % e
        except Horizon as e:
            err = 'horizon: %s' % e
        except SystemExit as e:
            err = 'sysexit: %r' % (e.code,)
        except Exception as e:
            err = 'exception: %s: %s' % (type(e).__name__, e)
        finally:
            ch.abort = True
    if len(ch.trace) < len(ch.prefix) and err is None:
        raise ReplayDivergence('execution ended after %d points, recorded prefix has %d' % (len(ch.trace), len(ch.prefix)))
    return Run(ch.choices, ch.labels, res, err), world


def explore(run: T.Callable[[T.Tuple[int, ...], T.Tuple[T.Tuple[str, ...], ...]], Run],
            bound: T.Optional[int], max_runs: T.Optional[int] = None) -> T.Iterator[T.Tuple[Run, int]]:
    """Yield (Run, new_points) for every execution whose number of non-default choices is <= bound.
    Breadth-first over the number of deviations (simplest schedule first).  new_points = choice points of this
    execution (= nodes of the schedule tree) that no earlier execution has visited: the node reached by its last
    recorded deviation and everything after it."""
    queue: T.Deque[T.Tuple[T.Tuple[int, ...], T.Tuple[T.Tuple[str, ...], ...]]] = collections.deque([((), ())])
    n = 0
    while queue:
        prefix, sig = queue.popleft()
        r = run(prefix, sig)
        n += 1
        k = len(prefix)
        yield r, len(r.choices) - k + 1
        if max_runs is not None and n >= max_runs:
            return
        devs = sum(1 for c in prefix if c)
        if bound is not None and devs + 1 > bound:
            continue
        for i in range(k, len(r.choices)):
            for c in range(1, len(r.labels[i])):
                queue.append((r.choices[:i] + (c,), r.labels[:i + 1]))
