#!/bin/bash
# tools/compare_upstream_tests.sh  -- do the repairs committed to /repo break any upstream unit test that is NOT in the pinned set
# but can run here (with the ninja stub)?  Runs those test modules on the original commit and on HEAD and compares the sets of
# failing tests (tests that need a real ninja fail on both).  Scratch worktree under /tmp, removed afterwards.
set -u
base=$(git -C /repo log --format=%h | tail -1)
wt=/tmp/verif-basewt.$$
git -C /repo worktree add --detach -q "$wt" "$base" || exit 2
mods="unittests/allplatformstests.py unittests/platformagnostictests.py unittests/linuxliketests.py unittests/machinefiletests.py unittests/datatests.py unittests/failuretests.py unittests/pythontests.py unittests/subprojectscommandtests.py unittests/internaltests.py unittests/rewritetests.py"
run() { (cd "$1" && NINJA=/verif/tools/ninja PYTHONDONTWRITEBYTECODE=1 timeout 3400 /venv/bin/python -m pytest -q -p no:cacheprovider -n 6 $mods 2>&1) > "$2.full"
        grep -E "^(FAILED|ERROR) unittests" "$2.full" | sed 's/ - .*//' | sort > "$2"; echo "$1: $(tail -1 "$2.full")"; }
run "$wt" /dev/shm/ut_base.$$
wth=/tmp/verif-headwt.$$            # never run upstream's tests inside /repo itself: some of them write into their test-case directories
git -C /repo worktree add --detach -q "$wth" HEAD || exit 2
run "$wth" /dev/shm/ut_head.$$
git -C /repo worktree remove --force "$wt"
git -C /repo worktree remove --force "$wth"
if diff /dev/shm/ut_base.$$ /dev/shm/ut_head.$$ > /dev/shm/ut_diff.$$; then echo "SAME failing set ($(wc -l < /dev/shm/ut_head.$$) tests fail on both trees)"; rc=0
else echo "DIFFERENT:"; cat /dev/shm/ut_diff.$$; rc=1; fi
rm -f /dev/shm/ut_base.$$* /dev/shm/ut_head.$$* /dev/shm/ut_diff.$$
exit $rc
