# E4: run real meson CLI commands cheaply and hermetically.
#
# run_meson(argv, cwd, env=..., pre=...) forks the *current* process (which has mesonbuild pre-imported from
# REPO but has never run any meson command itself), and in the child calls mesonmain.run(argv, REPO/meson.py) --
# the very entry point the CLI uses -- with fds 0/1/2 redirected, os.environ replaced and cwd set.  The caller's
# process never executes a meson command, so every child starts from pristine module state.
#
# Server(hashseed=..., ld_preload=...) is a separate python process (own PYTHONHASHSEED / LD_PRELOAD) that
# serves run_meson requests; used where the hash seed or a preloaded shim matters (C06, C09).
#
# cold_meson() runs `python REPO/meson.py argv` in a fresh interpreter: used to show the fork path is faithful.
from __future__ import annotations
import importlib, json, os, pickle, signal, struct, subprocess, sys, time
import typing as T

from .core import REPO, VERIF, scratch_root

MESON_PY = os.path.join(REPO, 'meson.py')
NINJA_STUB = os.path.join(VERIF, 'tools', 'ninja')
PY = '/venv/bin/python'

_PREIMPORT = [
    'mesonbuild.mesonmain', 'mesonbuild.msetup', 'mesonbuild.mconf', 'mesonbuild.mintro', 'mesonbuild.minstall',
    'mesonbuild.mtest', 'mesonbuild.rewriter', 'mesonbuild.mformat', 'mesonbuild.msubprojects', 'mesonbuild.mcompile',
    'mesonbuild.interpreter', 'mesonbuild.build', 'mesonbuild.coredata', 'mesonbuild.environment',
    'mesonbuild.backend.ninjabackend', 'mesonbuild.backend.nonebackend', 'mesonbuild.compilers', 'mesonbuild.compilers.detect',
    'mesonbuild.compilers.c', 'mesonbuild.compilers.cpp', 'mesonbuild.linkers.detect', 'mesonbuild.linkers.linkers',
    'mesonbuild.dependencies', 'mesonbuild.dependencies.pkgconfig', 'mesonbuild.dependencies.detect',
    'mesonbuild.wrap.wrap', 'mesonbuild.modules', 'mesonbuild.modules.pkgconfig', 'mesonbuild.modules.fs',
    'mesonbuild.scripts.meson_exe', 'mesonbuild.scripts.uninstall', 'mesonbuild.scripts.depfixer',
    'mesonbuild.ast', 'mesonbuild.ast.printer', 'mesonbuild.ast.introspection', 'mesonbuild.optinterpreter',
    'mesonbuild.cmdline', 'mesonbuild.machinefile', 'mesonbuild.programs', 'mesonbuild.utils.universal',
    'mesonbuild.utils.posix', 'mesonbuild.mlog', 'mesonbuild.options',
]
_preimported = False


def preimport() -> None:
    global _preimported
    if _preimported:
        return
    for m in _PREIMPORT:
        try:
            importlib.import_module(m)
        except ImportError:
            pass
    _preimported = True


def base_env(home: T.Optional[str] = None, **extra: str) -> T.Dict[str, str]:
    home = home or os.path.join(scratch_root(), 'home')
    os.makedirs(home, exist_ok=True)
    e = {
        'PATH': '/usr/local/sbin:/usr/local/bin:/usr/sbin:/usr/bin:/sbin:/bin',
        'HOME': home, 'XDG_CACHE_HOME': os.path.join(home, '.cache'), 'XDG_CONFIG_HOME': os.path.join(home, '.config'),
        'XDG_DATA_HOME': os.path.join(home, '.local/share'), 'XDG_DATA_DIRS': os.path.join(home, 'share'),
        'LC_ALL': 'C.UTF-8', 'LANG': 'C.UTF-8', 'TZ': 'UTC', 'NINJA': NINJA_STUB,
        'PYTHONHASHSEED': os.environ.get('PYTHONHASHSEED', '0'), 'PYTHONDONTWRITEBYTECODE': '1',
        'MESON_VERIF': '1', 'TERM': 'dumb',
    }
    e.update(extra)
    return e


class Result(T.NamedTuple):
    rc: int
    out: str          # stdout (+stderr if merged)
    err: str
    wall: float
    signaled: int     # signal number if the child died from a signal, else 0

    @property
    def unhandled(self) -> bool:
        t = self.out + self.err
        return 'Unhandled python exception' in t or 'Traceback (most recent call last)' in t


def _child(argv, cwd, env, out_path, err_path, pre) -> T.NoReturn:
    rc = 70
    try:
        os.setpgid(0, 0)
    except OSError:
        pass
    try:
        fd0 = os.open('/dev/null', os.O_RDONLY)
        fd1 = os.open(out_path, os.O_WRONLY | os.O_CREAT | os.O_TRUNC, 0o644)
        fd2 = fd1 if err_path is None else os.open(err_path, os.O_WRONLY | os.O_CREAT | os.O_TRUNC, 0o644)
        sys.stdout.flush(); sys.stderr.flush()
        os.dup2(fd0, 0); os.dup2(fd1, 1); os.dup2(fd2, 2)
        sys.stdin = open(0, 'r', closefd=False)
        sys.stdout = open(1, 'w', closefd=False, encoding='utf-8', errors='surrogateescape', buffering=1)
        sys.stderr = open(2, 'w', closefd=False, encoding='utf-8', errors='surrogateescape', buffering=1)
        os.environ.clear()
        os.environ.update(env)
        os.chdir(cwd)
        os.umask(0o022)
        sys.argv = [MESON_PY] + list(argv)
        signal.signal(signal.SIGINT, signal.SIG_DFL)
        signal.signal(signal.SIGTERM, signal.SIG_DFL)
        if pre is not None:
            pre()
        from mesonbuild import mesonmain
        try:
            rc = mesonmain.run(list(argv), MESON_PY)
        except SystemExit as e:
            if e.code is None:
                rc = 0
            elif isinstance(e.code, int):
                rc = e.code
            else:
                print(e.code, file=sys.stderr)
                rc = 1
        if not isinstance(rc, int):
            rc = 0 if rc is None else 1
    except BaseException:
        import traceback
        traceback.print_exc()
        rc = 70
    finally:
        try:
            sys.stdout.flush(); sys.stderr.flush()
        except Exception:
            pass
        os._exit(rc & 0xff)


_counter = 0


def run_meson(argv: T.Sequence[str], cwd: str, env: T.Optional[T.Dict[str, str]] = None,
              pre: T.Optional[T.Callable[[], None]] = None, timeout: float = 300.0,
              split_err: bool = False) -> Result:
    """Fork and run one meson command through mesonmain.run in the child."""
    global _counter
    preimport()
    env = env if env is not None else base_env()
    _counter += 1
    tag = '%d.%d' % (os.getpid(), _counter)
    odir = os.path.join(scratch_root(), 'io')
    os.makedirs(odir, exist_ok=True)
    out_path = os.path.join(odir, tag + '.out')
    err_path = os.path.join(odir, tag + '.err') if split_err else None
    t0 = time.time()
    pid = os.fork()
    if pid == 0:
        _child(argv, cwd, env, out_path, err_path, pre)
    deadline = t0 + timeout
    status = None
    while True:
        wpid, st = os.waitpid(pid, os.WNOHANG)
        if wpid == pid:
            status = st
            break
        if time.time() > deadline:
            try:
                os.killpg(pid, signal.SIGKILL)
            except OSError:
                try:
                    os.kill(pid, signal.SIGKILL)
                except OSError:
                    pass
            _, status = os.waitpid(pid, 0)
            break
        time.sleep(0.002)
    wall = time.time() - t0
    sig = os.WTERMSIG(status) if os.WIFSIGNALED(status) else 0
    rc = os.WEXITSTATUS(status) if os.WIFEXITED(status) else 128 + sig
    out = _slurp(out_path)
    err = _slurp(err_path) if err_path else ''
    return Result(rc, out, err, wall, sig)


def _slurp(p: str) -> str:
    try:
        with open(p, 'r', encoding='utf-8', errors='surrogateescape', newline='') as f:
            s = f.read()
        os.unlink(p)
        return s
    except OSError:
        return ''


def cold_meson(argv: T.Sequence[str], cwd: str, env: T.Optional[T.Dict[str, str]] = None, timeout: float = 300.0) -> Result:
    env = env if env is not None else base_env()
    t0 = time.time()
    try:
        r = subprocess.run([PY, '-X', 'utf8', MESON_PY] + list(argv), cwd=cwd, env=env, stdin=subprocess.DEVNULL,
                           stdout=subprocess.PIPE, stderr=subprocess.STDOUT, timeout=timeout)
        return Result(r.returncode if r.returncode >= 0 else 128 - r.returncode, r.stdout.decode('utf-8', 'surrogateescape'), '',
                      time.time() - t0, -r.returncode if r.returncode < 0 else 0)
    except subprocess.TimeoutExpired as e:
        return Result(124, (e.stdout or b'').decode('utf-8', 'surrogateescape'), '', time.time() - t0, 9)


# ---------------------------------------------------------------------------------------------------------
# Server: a separate interpreter (own hash seed / LD_PRELOAD) answering run_meson requests over a pipe.
# Requests are pickles: {'argv', 'cwd', 'env', 'pre': (module, func, args) | None, 'timeout'}.
class Server:
    def __init__(self, hashseed: T.Union[int, str] = 0, ld_preload: T.Optional[str] = None,
                 env_extra: T.Optional[T.Dict[str, str]] = None):
        env = dict(os.environ)
        # variables that mesonbuild reads at import time (e.g. MESON_RSP_THRESHOLD) must be in the server's own environment
        env.update(env_extra or {})
        env['PYTHONHASHSEED'] = str(hashseed)
        env['PYTHONPATH'] = os.path.join(VERIF, 'lib')
        env['VERIF_REPO'] = REPO
        env['VERIF_SCRATCH'] = os.path.dirname(scratch_root())
        if ld_preload:
            env['LD_PRELOAD'] = ld_preload
        self.hashseed = str(hashseed)
        self.p = subprocess.Popen([PY, '-X', 'utf8', '-m', 'verif.mesonproc'], stdin=subprocess.PIPE, stdout=subprocess.PIPE, env=env)

    def run(self, argv, cwd, env=None, pre=None, timeout=300.0) -> Result:
        env = env if env is not None else base_env()
        env = dict(env)
        env['PYTHONHASHSEED'] = self.hashseed
        blob = pickle.dumps({'argv': list(argv), 'cwd': cwd, 'env': env, 'pre': pre, 'timeout': timeout})
        self.p.stdin.write(struct.pack('<I', len(blob)) + blob)
        self.p.stdin.flush()
        hdr = self.p.stdout.read(4)
        if len(hdr) < 4:
            raise RuntimeError('mesonproc server died')
        n = struct.unpack('<I', hdr)[0]
        return Result(*pickle.loads(self.p.stdout.read(n)))

    def close(self) -> None:
        try:
            self.p.stdin.close()
            self.p.wait(timeout=10)
        except Exception:
            self.p.kill()

    def __enter__(self):
        return self

    def __exit__(self, *a):
        self.close()


def _resolve_pre(spec):
    if spec is None:
        return None
    mod, fn, args = spec
    f = getattr(importlib.import_module(mod), fn)
    return lambda: f(*args)


def _serve() -> None:
    from .core import die_with_parent
    die_with_parent()
    preimport()
    inp, outp = sys.stdin.buffer, sys.stdout.buffer
    sys.stdout = sys.stderr
    while True:
        hdr = inp.read(4)
        if len(hdr) < 4:
            break
        req = pickle.loads(inp.read(struct.unpack('<I', hdr)[0]))
        r = run_meson(req['argv'], req['cwd'], req['env'], _resolve_pre(req['pre']), req['timeout'])
        blob = pickle.dumps(tuple(r))
        try:
            outp.write(struct.pack('<I', len(blob)) + blob)
            outp.flush()
        except BrokenPipeError:
            break           # the client is gone


# ---------------------------------------------------------------------------------------------------------
# small helpers used by many checks
def write_tree(root: str, files: T.Dict[str, T.Union[str, bytes]]) -> None:
    for rel, content in files.items():
        p = os.path.join(root, rel)
        os.makedirs(os.path.dirname(p), exist_ok=True)
        if isinstance(content, bytes):
            with open(p, 'wb') as f:
                f.write(content)
        else:
            with open(p, 'w', encoding='utf-8', newline='') as f:
                f.write(content)


def messages(out: str) -> T.List[str]:
    """The texts of `Message:` lines printed by message() in build files."""
    return [l[len('Message: '):] for l in out.splitlines() if l.startswith('Message: ')]


if __name__ == '__main__':
    _serve()
