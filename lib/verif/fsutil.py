# Directory snapshots kept in memory and restored between explored transitions.
import os, shutil


def snapshot(d):
    """{relative path: (mode, bytes) | ('link', target) | None for an empty directory ('rel/')}"""
    out = {}
    if not os.path.isdir(d):
        return None
    for base, dirs, files in os.walk(d):
        for fn in files:
            p = os.path.join(base, fn)
            rel = os.path.relpath(p, d)
            if os.path.islink(p):
                out[rel] = ('link', os.readlink(p))
            else:
                with open(p, 'rb') as f:
                    out[rel] = (os.stat(p).st_mode & 0o7777, f.read())
        for dn in dirs:
            p = os.path.join(base, dn)
            if os.path.islink(p):
                out[os.path.relpath(p, d)] = ('link', os.readlink(p))
            elif not os.listdir(p):
                out[os.path.relpath(p, d) + '/'] = None
    return out


def restore(d, snap):
    shutil.rmtree(d, ignore_errors=True)
    if snap is None:
        return
    os.makedirs(d)
    for rel, v in snap.items():
        p = os.path.join(d, rel)
        if rel.endswith('/'):
            os.makedirs(p, exist_ok=True)
            continue
        os.makedirs(os.path.dirname(p), exist_ok=True)
        if v[0] == 'link':
            os.symlink(v[1], p)
        else:
            with open(p, 'wb') as f:
                f.write(v[1])
            os.chmod(p, v[0])
