# C16 - `meson format` preserves meaning and comments and is idempotent.
#
# Bounded exhaustive exploration of the real formatter (mesonbuild.mformat.Formatter(...).format(code, path), built the
# way mformat.run() builds it: from a configuration *file*), judged with the independent reference parser E6
# (verif.reflang, written from Syntax.md; it does not import mesonbuild):
#
#   trivia   every program of a token-level grammar (statements of expression depth <= 2 over a reduced operand pool,
#            sequences of <= 3 statements) decorated at every token gap with every LEGAL trivia choice (nothing, spaces,
#            tab, newline / blank line / comment only inside brackets or at a statement end, line continuation between
#            the tokens of a statement or before its end (the statement goes on onto an empty line, also as the unterminated
#            last line of the file); never an empty gap between two word tokens), with <= 0, 1, 2 non-default gaps;
#   illformed the same skeletons with a newline-bearing trivia in the middle of a statement OUTSIDE brackets: kept only
#            if the reference parser rejects the text while the real parser accepts it; judged with the real parser as its
#            own witness and reported under C16:illformed:* keys only (the family shrinks as the parser gets stricter);
#   strings  every string body <= 3 (thorough 4) over the C01-X4 alphabet as '..', '''..''', f'..', f'''..''';
#   spellings every string body of <= 3 atoms, an atom being the identifier character a or one of @ ' \ newline (the
#            characters a literal simplification depends on) in one of its spellings: itself, its one-letter escape, \ooo,
#            \xhh, \uxxxx, \Uxxxxxxxx, \N{name}; in the same 4 quoting forms (what counts is the string DENOTED: the decoded
#            value, and whether an @id@ placeholder of an f-string is substituted in it); + the literals of <= 1 atom as the
#            only element of a call / method / keyword / array / dict / parentheses under the comma and layout options;
#   comment-text every character below U+0100 and every Unicode space/line/paragraph separator (not LF, CR) inside a
#            comment, in 3 positions of its text x 6 comment places;
#   longargs argument lists (call, method, array, dict, nested, files(), parenthesised and/or chains) whose one-line
#            length is max_line_length-1, =, +1 for max_line_length in {20, 40, 80}, with/without trailing comma;
#   configs  all 2^9 boolean options x max_line_length {20,80} x indent_by {2 spaces, tab, empty} x end_of_line {lf, crlf}
#            on the quick program set (thorough: + pairwise covering array on the big program set);
#   options  every option documented in Commands.md (checked against the manual) as a dimension of a family whose skeletons hold
#            what the option acts on - group_arg_value: argument lists <= 3 over {'--o', '--', 'v', a} in call / array / method /
#            before a keyword / array in a keyword, with and without trailing comma; no_single_comma_function: one-argument
#            calls and their look-alikes; max_line_length {20, 0}: nested argument lists and parentheses of 21..40 columns;
#            tab_width {2, 4, 8}: tab-indented calls ending at column limit-1, limit, limit+1; sort_files: files() shapes;
#            simplify_string_literals off; space_array / wide_colon / kwargs_force_multiline; indent_by and
#            indent_before_comments x 4 values on multi-line containers inside blocks; insert_final_newline off on file ends;
#            use_editor_config x 3 .editorconfig files (end_of_line: the cli part) - each decorated with every legal trivia
#            choice in <= 1 gap (<= 2 gaps inside the brackets for the argument-list options), and the number of cases in
#            which the option changes the output is measured;
#   corpus   every meson.build below REPO that the real parser accepts, under 4 configurations;
#   cli      mformat.run(): --check-only / --check-diff exit status  <=>  the bytes --inplace would write differ
#            from the file, over programs x file line ending {LF, CRLF} x end_of_line {unset, native, lf, crlf, cr}.
#
# Oracle per case: ref-parse(input) and ref-parse(output) are equal after removing whitespace, comments, commas,
# parentheses and after the documented simplifications applied as *semantic* normal forms (a string literal is its
# denoted value; an f-string without an @id@ placeholder is a plain string; files([..]) == files(..); with sort_files
# the positional arguments of files() are a multiset); the comment sequences are equal; format(output) == output.
import argparse, contextlib, hashlib, io, itertools, json, os, re, shutil, sys
from pathlib import Path
from verif.core import Check, pmap, run_main, scratch_root, REPO
from verif import reflang
from verif.reflang import SyntaxFail, Unspecified

from mesonbuild import mformat, mparser, mlog
from mesonbuild.mesonlib import MesonException
from mesonbuild.ast.printer import AstJSONPrinter
from mesonbuild.ast.visitor import FullAstVisitor

# ============================================================================================================
# Configurations.  A configuration is a dict option -> value (unset options are left to the defaults); it is turned
# into a meson.format file and loaded by the real Formatter.load_configuration.
BOOL_OPTS = ['space_array', 'kwargs_force_multiline', 'wide_colon', 'no_single_comma_function',
             'simplify_string_literals', 'insert_final_newline', 'sort_files', 'group_arg_value', 'use_editor_config']
DEFAULT_TRUE = {'simplify_string_literals', 'insert_final_newline'}


def cfg_key(cfg):
    return json.dumps(cfg, sort_keys=True)


def cfg_text(cfg):
    lines = []
    for k in sorted(cfg):
        if k.startswith('('):       # pseudo key of the harness (which .editorconfig lies beside the file), not an option
            continue
        v = cfg[k]
        if isinstance(v, bool):
            v = 'true' if v else 'false'
        elif k in ('indent_by', 'indent_before_comments'):
            v = "'%s'" % v          # quoted, otherwise the ini parser strips it
        lines.append('%s = %s' % (k, v))
    return '\n'.join(lines) + '\n'


_FMT_CACHE = {}
_DIRS = {}


def work_dirs():
    """scratch/plain/meson.build (no .editorconfig above it... except none) and scratch/ed/meson.build (an .editorconfig
    beside it sets tab_width = 8 and indent_size = 3, fields the configuration file may leave unset)."""
    if not _DIRS:
        root = os.path.join(scratch_root(), 'c16')
        os.makedirs(os.path.join(root, 'cfg'), exist_ok=True)
        os.makedirs(os.path.join(root, 'ed'), exist_ok=True)
        os.makedirs(os.path.join(root, 'cli'), exist_ok=True)
        with open(os.path.join(root, '.editorconfig'), 'w') as f:
            f.write('root = true\n[meson.build]\ntab_width = 8\nindent_style = space\nindent_size = 3\n')
        _DIRS.update(root=root, cfg=os.path.join(root, 'cfg'), src=Path(os.path.join(root, 'ed', 'meson.build')),
                     cli=os.path.join(root, 'cli'))
        # further .editorconfig files (pseudo key '(editorconfig)' of a configuration selects the directory)
        for name, text in ED_VARIANTS.items():
            os.makedirs(os.path.join(root, 'ed_' + name), exist_ok=True)
            with open(os.path.join(root, 'ed_' + name, '.editorconfig'), 'w') as f:
                f.write('root = true\n[meson.build]\n' + text)
            _DIRS['src:' + name] = Path(os.path.join(root, 'ed_' + name, 'meson.build'))
    return _DIRS


# what an .editorconfig may say (Commands.md: "`meson format` also recognizes `max_line_length`, `end_of_line`,
# `insert_final_newline` and `tab_width` options" besides the indentation); read only with use_editor_config / -e
ED_VARIANTS = {
    'tab': 'indent_style = tab\ntab_width = 2\nmax_line_length = 24\ninsert_final_newline = false\nend_of_line = crlf\n',
    'narrow': 'indent_style = space\nindent_size = 2\nmax_line_length = 20\ninsert_final_newline = true\n',
    'off': 'indent_size = 8\nmax_line_length = off\n',
}


def cfg_file(cfg):
    d = work_dirs()
    key = cfg_key(cfg)
    p = os.path.join(d['cfg'], hashlib.sha1(key.encode()).hexdigest()[:16] + '.format')
    if not os.path.exists(p):
        tmp = p + '.%d' % os.getpid()
        with open(tmp, 'w') as f:
            f.write(cfg_text(cfg))
        os.replace(tmp, p)
    return p


def formatter(cfg):
    key = cfg_key(cfg)
    f = _FMT_CACHE.get(key)
    if f is None:
        f = mformat.Formatter(Path(cfg_file(cfg)) if cfg else None, False, False)
        _FMT_CACHE[key] = f
    return f


def real_format(src, cfg):
    ed = cfg.get('(editorconfig)')
    return formatter(cfg).format(src, work_dirs()['src:' + ed if ed else 'src'])


# ============================================================================================================
# Reference side: semantic normal form of an E6 tree
PLACEHOLDER = re.compile(r'@[_a-zA-Z][_0-9a-zA-Z]*@')


def norm(e, sort_files):
    if isinstance(e, tuple):
        if not e:
            return e
        k = e[0]
        if k == 'paren':
            return norm(e[1], sort_files)
        if k == 'num':
            return ('num', e[1])
        if k == 'str':
            return ('str', e[1])
        if k == 'fstr':
            return ('fstr', e[1]) if PLACEHOLDER.search(e[1]) else ('str', e[1])
        if k == 'call' and e[1] == 'files':
            args = [norm(a, sort_files) for a in e[2]]
            kw = [(n, norm(v, sort_files)) for n, v in e[3]]
            while len(args) == 1 and not kw and isinstance(args[0], tuple) and args[0][0] == 'arr':
                args = list(args[0][1])
            if sort_files:
                args = sorted(args, key=repr)
            return ('call', 'files', args, kw)
        return tuple(norm(x, sort_files) for x in e)
    if isinstance(e, list):
        return [norm(x, sort_files) for x in e]
    return e


def first_diff(a, b, path=()):
    """(path, a_sub, b_sub) of the first difference in a pre-order walk."""
    if type(a) is not type(b):
        return path, a, b
    if isinstance(a, (tuple, list)):
        if a and b and isinstance(a, tuple) and isinstance(a[0], str) and a[0] != b[0]:
            return path, a, b
        if len(a) != len(b):
            return path, a, b
        for i, (x, y) in enumerate(zip(a, b)):
            d = first_diff(x, y, path + (i,))
            if d:
                return d
        return None
    return None if a == b else (path, a, b)


def kind_of(x):
    if isinstance(x, tuple) and x and isinstance(x[0], str):
        return x[0]
    return type(x).__name__


def comments_of(text):
    return [c.rstrip() for c in reflang.lex(text)[1]]


# ============================================================================================================
# The real parser as its own witness (only for the ill-formed family and for corpus files E6 does not accept)
def real_tree(text):
    ast = mparser.Parser(text, 'meson.build').parse()
    p = AstJSONPrinter()
    ast.accept(p)

    def strip(d):
        if isinstance(d, dict):
            return {k: strip(v) for k, v in d.items() if k not in ('lineno', 'colno', 'end_lineno', 'end_colno')}
        if isinstance(d, list):
            return [strip(x) for x in d]
        return d
    return strip(p.result)


# ============================================================================================================
# The judge.  Returns a dict: status ok|skip|viol, kind, key, what, cls (outcome class of an ok case)
CONT_RE = re.compile(r'\\[ \t]*(?:#[^\n]*)?\n')


def has_cont_in_brackets(text):
    try:
        depth = 0
        for m in reflang._TOK.finditer(text):
            k = m.lastgroup
            if k == 'op':
                s = m.group()
                if s in '([{':
                    depth += 1
                elif s in ')]}':
                    depth -= 1
            elif k == 'cont' and depth > 0:
                return True
    except Exception:
        pass
    return False


def neutralise_cont(text):
    """Replace every line continuation that is outside string literals by a space (comments on it are kept as trivia
    is not the point here: they are dropped, the function is only used for cause attribution)."""
    out = []
    i = 0
    for m in reflang._TOK.finditer(text):
        if m.start() != i:
            return None
        out.append(' ' if m.lastgroup == 'cont' else m.group())
        i = m.end()
    return ''.join(out) if i == len(text) else None


def drop_final_cont(text):
    """The text with its last line continuation replaced by a space if only blanks, newlines and comments follow that
    continuation (the statement is continued onto a rest of the file that holds no token); None otherwise."""
    last = None
    i = 0
    for m in reflang._TOK.finditer(text):
        if m.start() != i:
            return None
        i = m.end()
        if m.lastgroup == 'cont':
            last = m
        elif m.lastgroup not in ('ws', 'nl', 'comment'):
            last = None
    if last is None or i != len(text):
        return None
    return text[:last.start()] + ' ' + text[last.end():]


def single_quote_triples(text):
    """Every triple-quoted literal that holds no newline, quote or backslash written with single quotes (the documented
    simplification done by hand); None if there is none."""
    out = []
    i = 0
    hit = False
    for m in reflang._TOK.finditer(text):
        if m.start() != i:
            return None
        t = m.group()
        if m.lastgroup in ('mstr', 'mfstr') and not any(c in t[:-3].split("'''", 1)[1] for c in "\n'\\"):
            t = t.replace("'''", "'")
            hit = True
        out.append(t)
        i = m.end()
    return ''.join(out) if hit and i == len(text) else None


def raw_violations(src, cfg, ref=True):
    """All oracle clauses on one (src, cfg).  Returns (status, list of (kind, detail), out, info)."""
    sort_files = bool(cfg.get('sort_files', False))
    info = {}
    tree = comments = None
    if ref:
        try:
            tree, comments = reflang.parse_with_comments(src)
        except SyntaxFail:
            return 'ref_rejects', [], None, info
        except Unspecified:
            return 'unspecified', [], None, info
        except RecursionError:
            return 'unspecified', [], None, info
    try:
        out = real_format(src, cfg)
    except MesonException as e:
        return 'impl_rejects', [], None, info
    except RecursionError:
        return 'unspecified', [], None, info
    except Exception as e:
        return 'viol', [('crash', type(e).__name__ + ': ' + str(e)[:120])], None, info
    viols = []
    if ref:
        try:
            tree2, comments2 = reflang.parse_with_comments(out)
        except SyntaxFail as e:
            viols.append(('unparseable', str(e)))
            tree2 = None
        except Unspecified as e:
            # the output uses a construct whose meaning the docs do not fix (malformed escapes, \N{..}): not comparable.
            # Exception: a newline inside '...' (deprecated, "use ''' for multiline strings") that the input did not have.
            if 'newline inside' in str(e):
                viols.append(('output-unspecified', str(e)))
                tree2 = None
            else:
                return 'unspecified', [], out, info
        if tree2 is not None:
            a, b = norm(tree, sort_files), norm(tree2, sort_files)
            if a != b:
                d = first_diff(a, b)
                viols.append(('tree', d))
            ca, cb = [c.rstrip() for c in comments], [c.rstrip() for c in comments2]
            if ca != cb:
                # unspecified corner: sort_files moves the arguments of files() and the comments attached to them; the
                # order of those comments is not compared (only if the order is kept with sort_files off)
                if sort_files and sorted(ca) == sorted(cb) and has_files(src) and \
                        comments_of(real_format(src, dict(cfg, sort_files=False))) == ca:
                    info['comment_order_unspecified'] = True
                else:
                    viols.append(('comments', (ca, cb)))
    else:
        # the real parser judges itself
        try:
            t1 = real_tree(src)
            try:
                t2 = real_tree(out)
            except MesonException as e:
                viols.append(('unparseable', str(e)[:100]))
                t2 = None
            if t2 is not None and t1 != t2:
                viols.append(('tree', None))
        except Exception as e:   # the json printer cannot print some ill-formed trees; not the formatter's business
            info['no_self_tree'] = True
        try:
            ca, cb = comments_of(src), comments_of(out)
            if ca != cb:
                viols.append(('comments', (ca, cb)))
        except (SyntaxFail, Unspecified):
            pass
    try:
        out2 = real_format(out, cfg)
        if out2 != out:
            viols.append(('idem', out2))
    except MesonException as e:
        if not any(v[0] == 'unparseable' for v in viols):
            viols.append(('unparseable', 'second pass: ' + str(e)[:100]))
    except Exception as e:
        viols.append(('crash', 'second pass: ' + type(e).__name__ + ': ' + str(e)[:120]))
    info['changed'] = out != src
    return ('viol' if viols else 'ok'), viols, out, info


def still(kind, src, cfg, ref=True):
    """Does a violation of this kind persist on a variant of the input?  (cause attribution)"""
    if src is None:
        return True
    st, viols, _, _ = raw_violations(src, cfg, ref)
    if st != 'viol':
        return False if st == 'ok' else True
    return any(k == kind for k, _ in viols)


ML_BACKSLASH = re.compile(r"'''(?:(?!''')[^\n'])*\\(?:(?!''')[^\n'])*'''")


def rename_files(src):
    """files -> filez for every identifier token `files` (switches the files() special cases off)."""
    out = []
    i = 0
    hit = False
    for m in reflang._TOK.finditer(src):
        if m.start() != i:
            return None
        t = m.group()
        if m.lastgroup == 'id' and t == 'files':
            t = 'filez'
            hit = True
        out.append(t)
        i = m.end()
    return ''.join(out) if hit and i == len(src) else None


def multiline_container_without_comma(text):
    """Is there an array or dict literal that starts a new line right after its opening bracket and whose last element is
    not followed by a comma?  The formatter never leaves one behind on purpose: only the argument list of a call with a
    single argument may lose its trailing comma (no_single_comma_function)."""
    stack = []
    prev = None
    for m in reflang._TOK.finditer(text):
        k = m.lastgroup
        if k in ('ws', 'cont', 'comment'):
            continue
        t = m.group()
        if k == 'nl':
            if stack and stack[-1]['n'] == 0:
                stack[-1]['ml'] = True
            continue
        if stack:
            stack[-1]['n'] += 1
        if k == 'op' and t in '([{':
            is_call = t == '(' and prev is not None and prev[0] == 'id'
            stack.append({'open': t, 'call': is_call, 'n': 0, 'ml': False, 'last': None})
        elif k == 'op' and t in ')]}':
            if stack:
                fr = stack.pop()
                if fr['open'] in '[{' and fr['ml'] and fr['n'] > 1 and fr['last'] != ',':
                    return True
            if stack:
                stack[-1]['last'] = 'x'
        elif stack:
            stack[-1]['last'] = ',' if (k == 'op' and t == ',') else 'x'
        prev = (k, t)
    return False


def has_files(src):
    return rename_files(src) is not None


def neutralise_ml_backslash(src):
    return ML_BACKSLASH.sub(lambda m: m.group().replace('\\', 'B'), src)


def walk(e):
    if isinstance(e, tuple):
        yield e
    if isinstance(e, (tuple, list)):
        for x in e:
            yield from walk(x)


def ref_tree_or_none(src):
    try:
        return reflang.parse(src)
    except (SyntaxFail, Unspecified, RecursionError):
        return None


def nested_files(src):
    t = ref_tree_or_none(src)
    for n in walk(t) if t is not None else ():
        if n and n[0] == 'call' and n[1] == 'files' and len(n[2]) == 1 and not n[3]:
            a = reflang.strip_parens(n[2][0])
            if a[0] == 'arr' and len(a[1]) == 1 and reflang.strip_parens(a[1][0])[0] == 'arr':
                return True
    return False


def call_in_parens(src):
    t = ref_tree_or_none(src)
    for n in walk(t) if t is not None else ():
        if n and n[0] == 'paren':
            for m in walk(n[1]):
                if m and m[0] in ('call', 'meth') and (m[-2] or m[-1]):
                    return True
    return False


def paren_in_parens(src):
    t = ref_tree_or_none(src)
    for n in walk(t) if t is not None else ():
        if n and n[0] == 'paren':
            for m in walk(n[1]):
                if m and m[0] == 'paren':
                    return True
    return False


class _EmptyParens(FullAstVisitor):
    def __init__(self):
        self.found = False

    def visit_ParenthesizedNode(self, node):
        if isinstance(node.inner, mparser.EmptyNode):
            self.found = True
        super().visit_ParenthesizedNode(node)


def missing_operand(src):
    """'empty-parens' / 'missing-operand' / None: the real parser accepted `()` around nothing, or an operator / assignment
    / foreach with nothing in an operand position (EmptyNode anywhere but as the absent else block of an if)."""
    try:
        ast = mparser.Parser(src, 'meson.build').parse()
        v = _EmptyParens()
        ast.accept(v)
        if v.found:
            return 'empty-parens'
        t = real_tree(src)
    except Exception:
        return None

    def rec(d, key=None):
        if isinstance(d, dict):
            if d.get('node') == 'EmptyNode' and key != 'else':
                return True
            return any(rec(v, k) for k, v in d.items())
        if isinstance(d, list):
            return any(rec(x, key) for x in d)
        return False
    return 'missing-operand' if rec(t) else None


def idem_causes(src, cfg, out=''):
    """Known mechanisms behind a missing fixed point: (key suffix, description, neutraliser (src, cfg) -> (src, cfg))."""
    causes = []
    if drop_final_cont(src) is not None:
        causes.append(('continuation-before-end-of-file',
                       'a statement continued (backslash-newline) onto a rest of the file that holds no token (nothing, blank lines, '
                       'comments) gains one more blank line with every format run',
                       lambda s, c: (drop_final_cont(s), c)))
    if has_cont_in_brackets(src):
        causes.append(('continuation-in-brackets',
                       'a backslash line continuation inside brackets needs more than one format run to reach a fixed point',
                       lambda s, c: (neutralise_cont(s), c)))
    if cfg.get('no_single_comma_function') and cfg.get('simplify_string_literals', True) and single_quote_triples(src) is not None:
        causes.append(('no-single-comma-function:triple-quoted-argument',
                       "no_single_comma_function: a call whose only argument is a '''..''' literal is laid out multi-line because of "
                       "the triple quotes, the literal is simplified to '..' in the same run, and the next run joins the call",
                       lambda s, c: (single_quote_triples(s), c)))
    if cfg.get('no_single_comma_function') and not multiline_container_without_comma(out):
        causes.append(('no-single-comma-function',
                       'no_single_comma_function: the run that removes the comma of a single-argument call keeps it multi-line, '
                       'the next run joins it',
                       lambda s, c: (s, dict(c, no_single_comma_function=False))))
    if has_files(src):
        if cfg.get('sort_files'):
            causes.append(('files-sort-after-flatten',
                           'sort_files: files([...]) is flattened by the first run and only sorted by the next one',
                           lambda s, c: (s, dict(c, sort_files=False))))
        if nested_files(src):
            causes.append(('files-nested-flatten', 'files([[...]]) loses one array level per format run',
                           lambda s, c: (rename_files(s), c)))
    return causes


def indent_only_key(src, out, out2):
    """(key, what) if the second run only re-indents lines and the input holds one of the shapes known for that."""
    if not indent_only(out, out2):
        return None
    if call_in_parens(src):
        return ('C16:idem:indent-only:call-in-multiline-parens',
                'a call with split arguments inside a multi-line parenthesised expression is re-indented by every further run')
    if paren_in_parens(src):
        return ('C16:idem:indent-only:parens-in-multiline-parens',
                'parentheses inside a parenthesised expression that the line-length pass splits: the inner closing parenthesis is '
                'not indented by the first run, the next run indents it')
    return None


def indent_only(a, b):
    return a != b and [l.lstrip(' \t') for l in a.split('\n')] == [l.lstrip(' \t') for l in b.split('\n')]


def classify(kind, detail, src, cfg, out, ref=True):
    """Narrow key of one violation.  Known mechanisms are attributed by re-judging the input with the suspected cause
    removed (the key of a mechanism is used only if removing it makes this kind of violation disappear)."""
    fam = 'C16:' if ref else 'C16:illformed:'
    simplify = cfg.get('simplify_string_literals', True)
    if kind == 'crash':
        return fam + 'crash:' + detail.replace('second pass: ', '').split(':')[0].strip(), 'formatter raised ' + detail
    if kind in ('unparseable', 'tree', 'output-unspecified'):
        # suspect 8: a multiline string without newline/quote but with a backslash is simplified
        if simplify and ML_BACKSLASH.search(src) and not still(kind, neutralise_ml_backslash(src), cfg, ref):
            return ('C16:mlstring-backslash:' + ('tree' if kind == 'tree' else 'unparseable'),
                    "'''..''' holding a backslash is rewritten to '..' where the backslash starts an escape")
    if kind == 'comments':
        ca, cb = detail
        if sorted(ca) == sorted(cb):
            sub = 'reordered'
        elif len(cb) < len(ca) and all(c in ca for c in cb):
            sub = 'lost'
        elif len(cb) > len(ca):
            sub = 'added'
        else:
            sub = 'changed'
        # a character that str.splitlines() takes for a line boundary vanishes from the comment
        if sub == 'changed' and ca != cb and any(ch in c for c in ca for ch in LINE_BOUNDARY_CHARS) and \
                [c.translate(_NO_LB) for c in ca] == [c.translate(_NO_LB) for c in cb]:
            return ('C16:comments:changed:line-boundary-char',
                    'a comment holding VT, FF, FS, GS, RS, NEL, LS or PS (what str.splitlines() splits at) loses that character and the blanks around it: '
                    '%r -> %r' % ([c for c in ca if c not in cb][:1], [c for c in cb if c not in ca][:1]))
        # suspect 16: the comment hangs off the brackets of the array that files([...]) flattening removes
        if sub == 'lost' and has_files(src) and not still('comments', rename_files(src), cfg, ref):
            return ('C16:comments:lost:files-flatten',
                    'comment attached to the brackets of the array in files([...]) is dropped by the flattening')
    if kind == 'idem':
        causes = idem_causes(src, cfg, out)
        for name, what, fn in causes:
            s2, c2 = fn(src, cfg)
            if not still('idem', s2, c2, ref):
                return 'C16:idem:' + name, what
        if len(causes) > 1:
            s2, c2 = src, cfg
            for name, what, fn in causes:
                if s2 is not None:
                    s2, c2 = fn(s2, c2)
            if not still('idem', s2, c2, ref):
                return 'C16:idem:' + causes[0][0], causes[0][1] + ' (together with: %s)' % ', '.join(c[0] for c in causes[1:])
        k = indent_only_key(src, out, detail)
        if k:
            return k
        if causes:
            # a known mechanism together with a re-indentation: neutralise the former, look at what is left
            s2, c2 = src, cfg
            for name, what, fn in causes:
                if s2 is not None:
                    s2, c2 = fn(s2, c2)
            if s2 is not None:
                st2, v2, out2, _ = raw_violations(s2, c2, ref)
                d2 = next((d for kd, d in v2 if kd == 'idem'), None) if st2 == 'viol' else None
                k = indent_only_key(s2, out2, d2) if d2 is not None else None
                if k:
                    return k[0], k[1] + ' (together with: %s)' % ', '.join(c[0] for c in causes)
    # not explained by a known mechanism
    mo = missing_operand(src) if not ref else None
    if mo == 'missing-operand':
        return ('C16:illformed:missing-operand:' + kind,
                'ill-formed input accepted by the parser (operator or assignment without operand before a newline): formatting '
                'joins the next line to it')
    if mo == 'empty-parens':
        return ('C16:illformed:empty-parens:' + kind,
                'ill-formed input accepted by the parser (parentheses around nothing): every format run adds a blank line inside')
    if kind == 'tree':
        if not ref:
            return fam + 'tree', 'the real parser reads a different program from the formatted text'
        path, a, b = detail
        return fam + 'tree:%s->%s' % (kind_of(a), kind_of(b)), 'tree differs at %r: %r -> %r' % (path, a, b)
    if kind == 'unparseable':
        return fam + 'unparseable-output', 'formatted text does not parse: ' + str(detail)
    if kind == 'output-unspecified':
        return fam + 'output:newline-in-plain-string', 'formatted text has a newline inside a plain quoted string (deprecated): ' + str(detail)
    if kind == 'comments':
        return fam + 'comments:' + sub, 'comments %r -> %r' % (ca, cb)
    if kind == 'idem':
        return fam + 'idem:other', 'format(format(x)) != format(x): %r -> %r' % (out, detail)
    return fam + kind, str(detail)


FEATURES = [('ml', re.compile(r"'''")), ('f', re.compile(r"\bf'")), ('files', re.compile(r'\bfiles\s*\(')),
            ('cont', CONT_RE), ('cmt', re.compile(r'#')), ('if', re.compile(r'\bif\b')), ('for', re.compile(r'\bforeach\b'))]


def outcome_class(src, out):
    """Coarse class of what the formatter did (for the distinct_nontrivial measure)."""
    if out == src:
        return ('fixed-point',)
    a, b = src.count('\n'), out.count('\n')
    f = tuple(n for n, r in FEATURES if r.search(src))
    g = tuple(n for n, r in FEATURES[:2] if bool(r.search(src)) != bool(r.search(out)))
    commas = (out.count(',') > src.count(',')) - (out.count(',') < src.count(','))
    return ('lines+' if b > a else 'lines-' if b < a else 'lines=', commas, f, g)


def judge_out(src, cfg, ref=True):
    """-> (status, [(key, what)], outcome_class, formatted text or None)"""
    st, viols, out, info = raw_violations(src, cfg, ref)
    if st == 'ref_rejects' and ref:
        return st, [], None, None
    if st != 'viol':
        cls = outcome_class(src, out) if st == 'ok' else None
        if cls and info.get('comment_order_unspecified'):
            cls = cls + ('comment-order-unspecified',)
        return st, [], cls, out
    res = []
    for kind, detail in viols:
        res.append(classify(kind, detail, src, cfg, out, ref))
    return 'viol', res, None, out


def judge(src, cfg, ref=True):
    """-> (status, [(key, what)], outcome_class)"""
    return judge_out(src, cfg, ref)[:3]


# ============================================================================================================
# Token-level program grammar.  A token is (text, kind, default gap before it); kinds: w word, s string, o open bracket,
# c close bracket, p punctuation/operator, n end-of-statement newline.
def tk(text, kind, gap=''):
    return [(text, kind, gap)]


def wg(toks, gap):
    t = toks[0]
    return [(t[0], t[1], gap)] + list(toks[1:])


def ID(n):
    return tk(n, 'w')


def NUM(n):
    return tk(str(n), 'w')


def STR(lit):
    return tk(lit, 's')


def arglist(pos=(), kw=(), trailing=False):
    items = [list(p) for p in pos] + [tk(k, 'w') + tk(':', 'p') + wg(v, ' ') for k, v in kw]
    out = []
    for i, it in enumerate(items):
        if i:
            out += tk(',', 'p')
            out += wg(it, ' ')
        else:
            out += it
    if trailing and items:
        out += tk(',', 'p')
    return out


def CALL(name, pos=(), kw=(), trailing=False):
    return tk(name, 'w') + tk('(', 'o') + arglist(pos, kw, trailing) + tk(')', 'c')


def METH(obj, name, pos=(), kw=(), trailing=False):
    return list(obj) + tk('.', 'p') + tk(name, 'w') + tk('(', 'o') + arglist(pos, kw, trailing) + tk(')', 'c')


def ARR(pos=(), trailing=False):
    return tk('[', 'o') + arglist(pos, (), trailing) + tk(']', 'c')


def DICT(items=(), trailing=False):
    out = []
    for i, (k, v) in enumerate(items):
        it = list(k) + tk(':', 'p') + wg(v, ' ')
        if i:
            out += tk(',', 'p') + wg(it, ' ')
        else:
            out += it
    if trailing and items:
        out += tk(',', 'p')
    return tk('{', 'o') + out + tk('}', 'c')


def BIN(l, op, r):
    ops = op.split()
    o = []
    for w in ops:
        o += tk(w, 'w' if w.isalpha() else 'p', ' ')
    return list(l) + o + wg(r, ' ')


def NOT(e):
    return tk('not', 'w') + wg(e, ' ')


def NEG(e):
    return tk('-', 'p') + list(e)


def TERN(c, a, b):
    return list(c) + tk('?', 'p', ' ') + wg(a, ' ') + tk(':', 'p', ' ') + wg(b, ' ')


def IDX(e, i):
    return list(e) + tk('[', 'o') + list(i) + tk(']', 'c')


def PAR(e):
    return tk('(', 'o') + list(e) + tk(')', 'c')


NL = [('\n', 'n', '')]


def ASSIGN(name, e, op='='):
    return tk(name, 'w') + tk(op, 'p', ' ') + wg(e, ' ') + NL


def EXPR(e):
    return list(e) + NL


def indent(stmts, by='    '):
    out = []
    bol = True
    for t in stmts:
        out.append((t[0], t[1], by + t[2]) if bol else t)
        bol = t[1] == 'n'
    return out


def IF(clauses, els=None):
    out = []
    for i, (c, body) in enumerate(clauses):
        out += tk('if' if i == 0 else 'elif', 'w') + wg(c, ' ') + NL + indent(body)
    if els is not None:
        out += tk('else', 'w') + NL + indent(els)
    return out + tk('endif', 'w') + NL


def FOREACH(names, it, body):
    out = tk('foreach', 'w') + tk(names[0], 'w', ' ')
    for n in names[1:]:
        out += tk(',', 'p') + tk(n, 'w', ' ')
    return out + tk(':', 'p', ' ') + wg(it, ' ') + NL + indent(body) + tk('endforeach', 'w') + NL


def render(toks, gaps=None, tail=''):
    out = []
    for i, t in enumerate(toks):
        out.append(t[2] if gaps is None or i not in gaps else gaps[i])
        out.append(t[0])
    out.append(tail)
    return ''.join(out)


# ---- operand pools -----------------------------------------------------------------------------------------
A, B, ONE = ID('a'), ID('b'), NUM(1)
LEAVES = [('a', A), ('1', ONE), ("'p'", STR("'p'")), ('true', ID('true')), ('f()', CALL('f')), ('[]', ARR()), ('{}', DICT()),
          ("'''m'''", STR("'''m'''")), ("f'p'", STR("f'p'")), ("f'@a@'", STR("f'@a@'")), ("'''l\\nl'''", STR("'''l1\nl2'''")),
          ("f'''m@a@'''", STR("f'''m@a@'''")), ('0x1F', tk('0x1F', 'w'))]

# contexts: name, arity, builder
CTX = [
    ('call1', 1, lambda x: CALL('f', [x])),
    ('call2', 2, lambda x, y: CALL('f', [x, y])),
    ('callkw', 1, lambda x: CALL('f', [], [('k', x)])),
    ('callmix', 2, lambda x, y: CALL('f', [x], [('k', y)])),
    ('callmix2', 2, lambda x, y: CALL('f', [x], [('k', y), ('l', ONE)])),
    ('calltc', 1, lambda x: CALL('f', [x], trailing=True)),
    ('meth0', 1, lambda x: METH(x, 'm')),
    ('meth1', 2, lambda x, y: METH(x, 'm', [y])),
    ('methkw', 2, lambda x, y: METH(x, 'm', [], [('k', y)])),
    ('arr1', 1, lambda x: ARR([x])),
    ('arr2', 2, lambda x, y: ARR([x, y])),
    ('arrtc', 2, lambda x, y: ARR([x, y], trailing=True)),
    ('dict1', 1, lambda x: DICT([(STR("'k'"), x)])),
    ('dict2', 2, lambda x, y: DICT([(STR("'k'"), x), (STR("'l'"), y)])),
    ('dictkey', 2, lambda x, y: DICT([(x, y)])),
    ('add', 2, lambda x, y: BIN(x, '+', y)),
    ('sub', 2, lambda x, y: BIN(x, '-', y)),
    ('mul', 2, lambda x, y: BIN(x, '*', y)),
    ('div', 2, lambda x, y: BIN(x, '/', y)),
    ('eq', 2, lambda x, y: BIN(x, '==', y)),
    ('and', 2, lambda x, y: BIN(x, 'and', y)),
    ('or', 2, lambda x, y: BIN(x, 'or', y)),
    ('in', 2, lambda x, y: BIN(x, 'in', y)),
    ('notin', 2, lambda x, y: BIN(x, 'not in', y)),
    ('not', 1, lambda x: NOT(x)),
    ('neg', 1, lambda x: NEG(x)),
    ('tern', 3, lambda x, y, z: TERN(x, y, z)),
    ('idx', 2, lambda x, y: IDX(x, y)),
    ('paren', 1, lambda x: PAR(x)),
    ('files1', 1, lambda x: CALL('files', [x])),
    ('filesarr', 2, lambda x, y: CALL('files', [ARR([x, y])])),
    ('filesarrtc', 2, lambda x, y: CALL('files', [ARR([x, y], trailing=True)])),
    ('files2', 2, lambda x, y: CALL('files', [x, y])),
    ('filesnested', 2, lambda x, y: CALL('files', [ARR([ARR([x, y])])])),
]
DEFAULT_FILL = [A, B, ONE]
FILES_FILL = [STR("'y.c'"), STR("'x.c'"), STR("'z.c'")]
# grammar restrictions of E6 (unary operators do not stack, comparisons do not chain, no ternary in a ternary)
LOWPREC = {'add', 'sub', 'mul', 'div', 'eq', 'and', 'or', 'in', 'notin', 'not', 'neg', 'tern'}


def fill_of(cname):
    return FILES_FILL if cname.startswith('files') else DEFAULT_FILL


def depth1():
    """(name, tokens): every context with the default fill, and every context with each leaf in its first hole."""
    out = []
    for cname, ar, b in CTX:
        fill = fill_of(cname)
        out.append((cname, b(*fill[:ar])))
    for cname, ar, b in CTX:
        if cname.startswith('files'):
            continue
        for lname, l in LEAVES[1:]:
            out.append((cname + '<' + lname + '>', b(*([l] + DEFAULT_FILL[1:ar]))))
    return out


def depth2():
    """every context with one hole holding a depth-1 expression (default fill), the other holes default."""
    inner = [(cname, b(*fill_of(cname)[:ar])) for cname, ar, b in CTX if cname != 'filesnested']
    out = []
    for cname, ar, b in CTX:
        if cname == 'filesnested':      # (already three brackets deep: kept as a depth-1 statement only)
            continue
        for h in range(ar):
            for iname, itoks in inner:
                if cname.startswith('files') and not iname.startswith(('arr', 'call', 'files')):
                    continue
                if cname == 'tern' and iname == 'tern':
                    continue        # E6: a ternary inside a ternary is rejected (C01's clause), even parenthesised
                sub = itoks
                if iname in LOWPREC and cname in LOWPREC | {'meth0', 'meth1', 'methkw', 'idx'} and not (cname in ('meth1', 'methkw', 'idx') and h == 1):
                    sub = PAR(itoks)    # keep the intended tree: parenthesise operands of operators
                args = list(fill_of(cname)[:ar])
                args[h] = sub
                out.append(('%s[%d:%s]' % (cname, h, iname), b(*args)))
    # method chains
    out.append(('chain2', METH(METH(A, 'm'), 'n', [B])))
    out.append(('chain3', METH(METH(CALL('f', [A]), 'm', [], [('k', ONE)]), 'n')))
    out.append(('idxchain', METH(IDX(A, ONE), 'm', [B])))
    return out


def statements(exprs):
    out = []
    for name, e in exprs:
        out.append(('x=' + name, ASSIGN('x', e)))
    return out


BODY1 = ASSIGN('y', ONE)
BODY2 = EXPR(CALL('g', [A]))


def block_statements():
    out = []
    c1 = BIN(A, '==', ONE)
    out.append(('if', IF([(A, BODY1)])))
    out.append(('if-else', IF([(c1, BODY1)], BODY2)))
    out.append(('if-elif-else', IF([(A, BODY1), (NOT(B), BODY2)], BODY1)))
    out.append(('if-empty', IF([(A, [])])))
    out.append(('if-call', IF([(CALL('f', [A], [('k', ONE)]), BODY1 + BODY2)])))
    out.append(('if-nested', IF([(A, IF([(B, BODY1)]))])))
    out.append(('foreach', FOREACH(['i'], ARR([A, B]), BODY1)))
    out.append(('foreach-kv', FOREACH(['k', 'v'], ID('d'), BODY2)))
    out.append(('foreach-if', FOREACH(['i'], A, IF([(BIN(ID('i'), '==', ONE), EXPR(ID('continue')))]) + BODY1)))
    out.append(('foreach-break', FOREACH(['i'], CALL('f'), EXPR(ID('break')))))
    out.append(('foreach-empty', FOREACH(['i'], A, [])))
    out.append(('plusassign', ASSIGN('x', ARR([A]), '+=')))
    out.append(('exprcall', EXPR(CALL('f', [A], [('k', ONE)]))))
    out.append(('exprmeth', EXPR(METH(A, 'm', [B]))))
    out.append(('exprfiles', EXPR(CALL('files', [ARR(FILES_FILL[:2])]))))
    return out


# ---- trivia alphabets ----------------------------------------------------------------------------------------
def gap_kinds(toks):
    """kind of every gap 0..n (gap i is before token i; gap n is the end of file) and word adjacency."""
    n = len(toks)
    kinds = []
    depth = 0
    for i in range(n + 1):
        prev = toks[i - 1] if i else None
        nxt = toks[i] if i < n else None
        if i == n:
            k = 'eof'
        elif prev is None or prev[1] == 'n':
            k = 'bol'
        elif nxt[1] == 'n':
            k = 'eol'
        elif depth > 0:
            k = 'in'
        else:
            k = 'top'
        ww = bool(prev and nxt and prev[1] == 'w' and (nxt[0][:1].isalnum() or nxt[0][:1] == '_'))
        kinds.append((k, ww))
        if nxt is not None:
            if nxt[1] == 'o':
                depth += 1
            elif nxt[1] == 'c':
                depth -= 1
    return kinds


def choices(kind, ww, i, full, indent_):
    c = '#c%d' % i
    if kind == 'in':
        ch = ['', ' ', '\n', ' ' + c + '\n', ' \\\n', '  ']
        if full:
            ch += ['\t', '\n\n', c + '\n', '\n' + c + '\n', '\\\n', '\n        ', ' \\ ' + c + '\n', '\n' + c + '\n' + c + 'b\n']
    elif kind == 'top':
        ch = ['', ' ', '  ', ' \\\n']
        if full:
            ch += ['\t', '\\\n', ' \\\n    ', ' \\ ' + c + '\n']
    elif kind == 'eol':
        ch = ['', ' ' + c, ' ']
        if full:
            ch += ['  ' + c, c, '\t' + c + ' ', ' \\\n']      # (the last: the statement is continued onto an empty line)
    elif kind == 'bol':
        ch = [indent_, indent_ + c + '\n' + indent_, '\n' + indent_, indent_ + '  ']
        if full:
            ch += ['', '\t', '\n\n' + indent_, c + '\n\n' + indent_, '\n' + indent_ + c + '\n' + indent_, '  \n' + indent_]
    else:  # eof
        ch = ['', c, '\n']
        if full:
            ch += [c + '\n', '  ', '\n\n', '\n' + c]
    if ww:
        ch = [x for x in ch if x != '']
    return ch


ILL_TOP = ['\n', '\n\n', ' #ci\n', '\n#ci\n']


def variants(toks, dev, full, ill=False, only=None):
    """All decorations with exactly `dev` non-default gaps (legal trivia).  With ill=True exactly one gap (a 'top' one)
    carries a newline-bearing trivia that is NOT legal there, and dev-1 further gaps carry legal trivia.  With only = a set of
    gap kinds, the gaps of every other kind keep their default (and the final newline stays)."""
    n = len(toks)
    kinds = gap_kinds(toks)
    defaults = [t[2] for t in toks] + ['']
    opts = []
    for i, (k, ww) in enumerate(kinds):
        ind = defaults[i] if k == 'bol' else ''
        o = [x for x in choices(k, ww, i, full, ind) if x != defaults[i]] if only is None or k in only else []
        opts.append(o)
    # the final newline may be missing: modelled as an extra choice of the last gap pair (drop the last NL token)
    if not ill:
        for pos in itertools.combinations(range(n + 1), dev):
            for pick in itertools.product(*[opts[p] for p in pos]):
                gaps = dict(zip(pos, pick))
                tail = gaps.pop(n, '')
                yield render(toks, gaps, tail)
        if dev >= 1 and toks and toks[-1][1] == 'n' and only is None:
            # "no newline at end of file" counts as one deviation
            short = toks[:-1]
            for pos in itertools.combinations(range(n - 1), dev - 1):
                for pick in itertools.product(*[opts[p] for p in pos]):
                    yield render(short, dict(zip(pos, pick)), '')
                    if full:        # ... and the unterminated last line may be the empty continuation of the statement
                        yield render(short, dict(zip(pos, pick)), ' \\\n')
    else:
        tops = [i for i, (k, ww) in enumerate(kinds) if k == 'top']
        for t in tops:
            for bad in ILL_TOP:
                rest = [p for p in range(n + 1) if p != t]
                for pos in itertools.combinations(rest, dev - 1):
                    for pick in itertools.product(*[opts[p] for p in pos]):
                        gaps = dict(zip(pos, pick))
                        gaps[t] = bad
                        tail = gaps.pop(n, '')
                        yield render(toks, gaps, tail)


# ============================================================================================================
# Work items (executed in forked workers; PROGS is inherited)
PROGS = {}       # family -> list of (name, tokens)
CAP_PER_KEY = 4


def summarise(results):
    """results: iterable of (src, cfg, status, viols, cls)"""
    s = {'n': 0, 'ok': 0, 'changed': 0, 'skip': {}, 'classes': set(), 'viol': {}, 'nviol': 0}
    for src, cfg, st, viols, cls in results:
        s['n'] += 1
        if st == 'ok':
            s['ok'] += 1
            if cls[-1] == 'comment-order-unspecified':
                cls = cls[:-1]
                s['skip']['clause_comment_order_under_sort_files'] = s['skip'].get('clause_comment_order_under_sort_files', 0) + 1
            s['classes'].add(cls)
            if cls != ('fixed-point',):
                s['changed'] += 1
        elif st == 'viol':
            s['nviol'] += 1
            for key, what in viols:
                e = s['viol'].setdefault(key, [0, []])
                e[0] += 1
                if len(e[1]) < CAP_PER_KEY:
                    e[1].append((what, src, cfg))
        else:
            s['skip'][st] = s['skip'].get(st, 0) + 1
            if os.environ.get('C16_DEBUG'):
                print('SKIP', st, repr(src), cfg_key(cfg), flush=True)
    return s


def merge(a, b):
    a['n'] += b['n']
    a['ok'] += b['ok']
    a['changed'] += b['changed']
    a['nviol'] += b['nviol']
    a['classes'] |= b['classes']
    for k, v in b['skip'].items():
        a['skip'][k] = a['skip'].get(k, 0) + v
    for k, (n, ex) in b['viol'].items():
        e = a['viol'].setdefault(k, [0, []])
        e[0] += n
        e[1] = sorted(e[1] + ex, key=lambda t: (len(t[1]), t[1], cfg_key(t[2])))[:CAP_PER_KEY]
    return a


def empty_summary():
    return {'n': 0, 'ok': 0, 'changed': 0, 'skip': {}, 'classes': set(), 'viol': {}, 'nviol': 0}


def w_trivia(item):
    fam, idx, dev, full, cfg = item
    toks = PROGS[fam][idx][1]
    seen = set()

    def gen():
        for src in variants(toks, dev, full):
            if src in seen:
                continue
            seen.add(src)
            st, v, cls = judge(src, cfg)
            yield src, cfg, st, v, cls
    return summarise(gen())


def w_ill(item):
    fam, idx, dev, full, cfg = item
    toks = PROGS[fam][idx][1]
    seen = set()

    def gen():
        for src in variants(toks, dev, full, ill=True):
            if src in seen:
                continue
            seen.add(src)
            # member of the family iff E6 rejects and the real parser accepts
            try:
                reflang.parse(src)
                yield src, cfg, 'ill_but_ref_accepts', [], None
                continue
            except SyntaxFail:
                pass
            except Unspecified:
                yield src, cfg, 'unspecified', [], None
                continue
            st, v, cls = judge(src, cfg, ref=False)
            yield src, cfg, st, v, cls
    return summarise(gen())


def w_sources(item):
    srcs, cfgs = item
    return summarise((src, cfg) + judge(src, cfg) for src in srcs for cfg in cfgs)


# ============================================================================================================
# Families of plain sources
X4_ALPHA = ['a', '7', '\\', "'", 'n', 't', 'x', 'u', '0', '@', '{', '}', '\n', ' ']


def gen_strings(maxlen):
    for k in range(0, maxlen + 1):
        for tup in itertools.product(X4_ALPHA, repeat=k):
            body = ''.join(tup)
            yield "x = '%s'\n" % body
            yield "x = '''%s'''\n" % body
            yield "x = f'%s'\n" % body
            yield "x = f'''%s'''\n" % body
    for esc in ['\\\\', "\\'", '\\n', '\\t', '\\0', '\\101', '\\x41', '\\u00e9', '\\U0001F600', '\\q', '\\@', '\\N{BULLET}']:
        for pre, post in [('', ''), ('a', 'b'), ('@a@', '')]:
            for q in ("'", "'''"):
                for f in ('', 'f'):
                    yield 'x = %s%s%s%s%s%s\n' % (f, q, pre, esc, post, q)
                    yield 'y = g(%s%s%s%s%s%s, k: 1)  #c\n' % (f, q, pre, esc, post, q)


# ---- spellings: the characters a literal simplification depends on, in every way Syntax.md lets one write them -------
# Whether '''..''' may become '..' depends on the body holding a newline, a quote or a backslash; whether f'..' may become
# '..' depends on an @id@ placeholder: all of it in the string the literal DENOTES (Syntax.md: escapes are decoded in
# '...' and f'...', '''...''' is raw; the f-string substitution works on the denoted string).  So each of @ ' \ newline is
# an atom of the body alphabet in each of its spellings: itself, its one-letter escape, \ooo, \xhh, \uxxxx, \Uxxxxxxxx and
# \N{name}; the only other atom is the identifier character a (so that @a@ exists).  Bodies are all atom sequences up to a
# length, in the four quoting forms.  The reference parser is told the four \N names used (nothing else of the database).
SIGNIFICANT = [('@', 'at', 'COMMERCIAL AT', '\\@'), ("'", 'quote', 'APOSTROPHE', "\\'"),
               ('\\', 'backslash', 'REVERSE SOLIDUS', '\\\\'), ('\n', 'newline', 'LINE FEED', '\\n')]
reflang.NAMED_ESCAPES.update({name: c for c, _, name, _ in SIGNIFICANT})
SPELLINGS = ['lit', 'simple', 'oct', 'hex', 'u', 'U', 'N']


def spell_atoms(extra=()):
    """[(text, char name or None, spelling)]"""
    atoms = [('a', None, 'lit')] + [(x, None, 'lit') for x in extra]
    for c, cname, uname, simple in SIGNIFICANT:
        o = ord(c)
        for sp, text in zip(SPELLINGS, [c, simple, '\\%03o' % o, '\\x%02x' % o, '\\u%04x' % o, '\\U%08x' % o, '\\N{%s}' % uname]):
            atoms.append((text, cname, sp))
    return atoms


SPELL_ATOMS = []            # set by main (tier dependent), inherited by the workers
SPELL_KINDS = [("'", ''), ("'''", ''), ("'", 'f'), ("'''", 'f')]
SPELL_CTX = ['x = %s\n']


def first_string(text):
    for t in reflang.lex(text)[0]:
        if t.kind == 'str':
            return t
    return None


def spell_src(tup, ki, ctx=0):
    q, f = SPELL_KINDS[ki]
    return SPELL_CTX[ctx] % (f + q + ''.join(SPELL_ATOMS[i][0] for i in tup) + q)


def spell_cases(maxlen):
    """(atom index tuple, quoting form index), simplest first, one per distinct source text."""
    seen = set()
    out = []
    for k in range(0, maxlen + 1):
        for tup in itertools.product(range(len(SPELL_ATOMS)), repeat=k):
            for ki in range(len(SPELL_KINDS)):
                src = spell_src(tup, ki)
                if src not in seen:
                    seen.add(src)
                    out.append((tup, ki))
    return out


def w_spell(item):
    """item: (list of (atom-index tuple, quoting form index), configurations).  -> (summary, counters)"""
    cases, cfgs = item
    cnt = {}

    def bump(*key):
        k = ' '.join(key)
        cnt[k] = cnt.get(k, 0) + 1

    def gen():
        for tup, ki in cases:
            atoms = [SPELL_ATOMS[i] for i in tup]
            body = ''.join(a[0] for a in atoms)
            src = spell_src(tup, ki)
            for cfg in cfgs:
                st, v, cls, out = judge_out(src, cfg)
                yield src, cfg, st, v, cls
                if st != 'ok':
                    continue
                # coverage bookkeeping, from the reference reading of input and output
                tin = first_string(src)
                tout = first_string(out)
                is_f, is_m, raw = tin.extra
                of, om, _ = tout.extra
                kind = ('f' if is_f else '') + ("'''" if is_m else "'")
                okind = ('f' if of else '') + ("'''" if om else "'")
                if raw != body or (SPELL_KINDS[ki][1] + SPELL_KINDS[ki][0]) != kind:
                    bump('text reads as another literal than the one spelled out')      # e.g. ' + '\n' + ' is '''\n'''
                    continue
                for a in set(atoms):
                    if a[1]:
                        bump('cell', kind, a[1] + ':' + a[2])
                if okind != kind:
                    bump('rewritten', kind, '->', okind)
                if cfg.get('simplify_string_literals', True):
                    if is_f and PLACEHOLDER.search(tin.val):
                        for sp in {a[2] for a in atoms if a[1] == 'at'}:
                            bump('f kept: placeholder with @ spelled', kind, sp)
                        if '@' not in raw:
                            bump('f kept: placeholder only in the decoded value', kind)
                    elif is_f and '@' in tin.val:
                        bump('f without placeholder but with @ in the value', kind, '->', okind)
                    if is_m and not om:
                        bump('triple->single', kind)
                    if is_m and om:
                        for c, cname, _, _ in SIGNIFICANT[1:]:
                            if c in tin.val:
                                bump('triple kept: value holds', cname)
    s = summarise(gen())
    return s, cnt


# ---- comment text: every character a comment may hold ------------------------------------------------------------------
# "A comment starts with the # character and extends until the end of the line" (Syntax.md): its text is arbitrary.  The
# alphabet is every character below U+0100 and every Unicode space / line / paragraph separator above it (plus BOM, ZWSP
# and one astral character), except LF (ends the comment) and CR (part of a line ending: whether a lone CR ends a line
# is not stated; the CLI reads files with universal newlines).  Each character stands after the #, or in the middle of
# the text (a trailing one is trailing whitespace for several of them, which the oracle ignores), in every comment place.
COMMENT_CHARS = [chr(i) for i in range(0x100) if chr(i) not in '\n\r'] + \
                [chr(i) for i in (0x1680, *range(0x2000, 0x200c), 0x2028, 0x2029, 0x202f, 0x205f, 0x3000, 0xfeff, 0x1f600)]
COMMENT_CTX = ['x = 1 %s\n', '%s\nx = 1\n', 'x = [\n  1,  %s\n  2,\n]\n', 'x = f(a,  %s\n  b)\n', 'x = a \\ %s\n  + 1\n',
               'if a  %s\n  %s\n  x = 1\nendif\n']
LINE_BOUNDARY_CHARS = '\x0b\x0c\x1c\x1d\x1e\x85\u2028\u2029'       # (what str.splitlines() splits at, besides LF and CR)


_NO_LB = {ord(c): None for c in LINE_BOUNDARY_CHARS + ' \t'}     # (the blanks around such a character go with it)


def gen_comment_texts():
    for ch in COMMENT_CHARS:
        for cm in ('#%sfoo' % ch, '# foo%sbar' % ch, '# %s%s x' % (ch, ch)):
            for ctx in COMMENT_CTX:
                yield ctx.replace('%s', cm)


def sized_atoms(n, width, kind):
    if kind == 'id':
        return [ID(('v%d' % i).ljust(width, 'x')) for i in range(n)]
    return [STR("'" + ('s%d' % i).ljust(max(width - 2, 2), 'y') + "'") for i in range(n)]


def one_line_len(toks):
    return len(render(toks).split('\n')[0])


def gen_longargs(lengths):
    """Containers whose one-line rendering has length L-1, L, L+1 (the last atom is padded to get there)."""
    out = []

    def containers(atoms, tc):
        n = len(atoms)
        yield 'call', lambda at: ASSIGN('x', CALL('f', at, trailing=tc))
        yield 'exprcall', lambda at: EXPR(CALL('f', at, trailing=tc))
        yield 'callkw', lambda at: ASSIGN('x', CALL('f', at[:1], [('k%d' % i, a) for i, a in enumerate(at[1:])], trailing=tc))
        yield 'meth', lambda at: ASSIGN('x', METH(ID('obj'), 'm', at, trailing=tc))
        yield 'arr', lambda at: ASSIGN('x', ARR(at, trailing=tc))
        yield 'dict', lambda at: ASSIGN('x', DICT([(STR("'k%d'" % i), a) for i, a in enumerate(at)], trailing=tc))
        yield 'arr-in-kw', lambda at: ASSIGN('x', CALL('f', [ID('a')], [('k', ARR(at, trailing=tc))]))
        yield 'call-in-call', lambda at: ASSIGN('x', CALL('f', [CALL('g', at, trailing=tc), ID('b')]))
        yield 'files-arr', lambda at: ASSIGN('x', CALL('files', [ARR(at, trailing=tc)]))
        yield 'files', lambda at: ASSIGN('x', CALL('files', at, trailing=tc))
        yield 'in-if', lambda at: IF([(ID('c'), ASSIGN('x', CALL('f', at, trailing=tc)))])
        yield 'if-cond', lambda at: IF([(CALL('f', at, trailing=tc), BODY1)])
        yield 'chain', lambda at: ASSIGN('x', METH(METH(ID('o'), 'm', at[:1]), 'n', at[1:], trailing=tc))
        yield 'paren-and', lambda at: ASSIGN('x', PAR(andchain(at)))
        yield 'paren-nested', lambda at: ASSIGN('x', CALL('f', [PAR(PAR(at[0]))] + [PAR(BIN(a, '+', ONE)) for a in at[1:]], trailing=tc))
        yield 'paren-call', lambda at: ASSIGN('x', PAR(CALL('f', at, trailing=tc)))
        yield 'paren-call+nested', lambda at: ASSIGN('x', PAR(CALL('f', at, trailing=tc))) + ASSIGN('y', CALL('g', [CALL('h', at)]))
        yield 'paren-meth-or', lambda at: IF([(PAR(BIN(METH(METH(ID('o'), 'm', at), 'n'), 'or', ID('b'))), BODY1)]) + EXPR(CALL('g', [CALL('h', at)]))
        yield 'group', lambda at: EXPR(CALL('f', [x for i, a in enumerate(at) for x in (STR("'--o%d'" % i), a)], trailing=tc))
        # one-element containers whose element ends in a call (the comma rule for a single *function argument* must not leak)
        yield 'arr-of-call', lambda at: ASSIGN('x', ARR([CALL('g', at)], trailing=tc))
        yield 'dict-of-meth', lambda at: ASSIGN('x', DICT([(STR("'k'"), METH(ID('o'), 'm', at))], trailing=tc))
        yield 'kw-arr-of-call', lambda at: EXPR(CALL('f', [ID('a')], [('k', ARR([CALL('g', at)], trailing=tc))]))

    def andchain(at):
        e = at[0]
        for i, a in enumerate(at[1:]):
            e = BIN(e, 'and' if i % 2 == 0 else 'or', a)
        return e

    for L in lengths:
        for n in (1, 2, 3, 5):
            for kind in ('id', 'str'):
                for tc in (False, True):
                    base = sized_atoms(n, 4, kind)
                    for cname, build in containers(base, tc):
                        if cname.startswith('files') and kind == 'id':
                            continue
                        l0 = one_line_len(build(base))
                        for d in (-1, 0, 1):
                            pad = L + d - l0
                            if pad < 0:
                                continue
                            at = list(base)
                            t = at[-1][0]
                            if kind == 'id':
                                at[-1] = [(t[0] + 'z' * pad, t[1], t[2])]
                            else:
                                at[-1] = [(t[0][:-1] + 'z' * pad + "'", t[1], t[2])]
                            toks = build(at)
                            if one_line_len(toks) != L + d and cname not in ('in-if', 'if-cond', 'paren-meth-or'):
                                continue
                            out.append(render(toks))
    seen = set()
    res = []
    for s in out:
        if s not in seen:
            seen.add(s)
            res.append(s)
    return res


QUICK_PROGRAMS = [
    "x = f(a, k: [1, 2], l: {'k': 'v'})\n",
    "x = f(aaaaaaaaaa, bbbbbbbbbb, cccccccccc, k: dddddddddd)  # c1\n",
    "# c0\n\nx = [\n  'a',  # c1\n  'b'\n]\n",
    "x = files(['b.c', 'a10.c', 'a2.c'])\ny = files('z.c', 'y.c', )\n",
    "if a and (b or c)  # c1\n  x = '''m'''\nelif not d\n  y = f'p'\nelse\n  # c2\n  z = f'@a@'\nendif\n",
    "foreach k, v : {'a': 1, 'b': 2}\n  message(k, v)  # c1\n  continue\nendforeach\n",
    "x = a.m(b).n(k: 1).o()\n",
    "executable('prog', 'main.c', '--opt', 'val', '--flag', dependencies: [dep1, dep2], install: true)\n",
    "x = (a\n  and b\n  and c)\n",
    "x = {'key': [1, 2, 3], 'other': f(a), }\n",
    "x = a ? b : c\ny = -a + b * (c - d) / e % f\nz = a not in b\n",
    "x = '''l1\nl2'''\ny = f'''@a@\n'''\n",
    "x = f(\n  # c1\n  a,\n  b,  # c2\n)\n",
    "x = f(g(h(aaaaaaaa, bbbbbbbb), cccccccc), dddddddd)\n",
    "x = [[1, 2], [3, 4]]\nx += [5]\n",
    "x=f ( a ,k :1 )#c1\n",
    "x = f(a)",
    "",
    "# only a comment",
    "x = f(a,\n      b)\n\n\n\ny = 1\n",
    "subdir('a')\n\nif true\n\tx = f(k: 1)\nendif\n",
    "x = files([\n  'b.c',  # c1\n  'a.c',\n])\n",
    "x = f('--a', 'b', '--c', '--d', 'e', f)\n",
    "x = a[0][1].m()[2]\n",
    "x = f(\n  a,\n)\nmessage('a single argument that is much longer than the maximal line length of eighty columns')\n",
    "run_command('prog', '--opt',  # c1\n  'val', '--', 'x', '--flag', '--o2',\n  # c2\n  'v2', check: true)\nx = ['--a', 'b',  # c3\n]\n",
]

CORPUS_CFGS = [
    {},
    {'max_line_length': 40, 'indent_by': '\t', 'space_array': True, 'wide_colon': True, 'kwargs_force_multiline': True},
    {'sort_files': True, 'no_single_comma_function': True, 'group_arg_value': True, 'simplify_string_literals': False,
     'indent_by': '  '},
    {'max_line_length': 20, 'insert_final_newline': False, 'indent_before_comments': ' ', 'sort_files': True},
]


def all_configs():
    out = []
    for bits in itertools.product([False, True], repeat=len(BOOL_OPTS)):
        for mll in (20, 80):
            for ind in ('  ', '\t', ''):
                for eol in (('lf', 'crlf') if ind else ('lf',)):
                    cfg = dict(zip(BOOL_OPTS, bits))
                    cfg.update(max_line_length=mll, indent_by=ind, end_of_line=eol)
                    out.append(cfg)
    return out


def pairwise_configs():
    """Covering array of strength 2 over the 9 booleans x mll {20,40,80} x indent {2sp,4sp,tab}, built greedily
    (deterministic); every pair of (option, value) choices appears in at least one configuration."""
    params = [(o, [False, True]) for o in BOOL_OPTS if o != 'use_editor_config'] + \
             [('max_line_length', [20, 40, 80]), ('indent_by', ['  ', '    ', '\t', ''])]
    need = set()
    for (i, (a, va)), (j, (b, vb)) in itertools.combinations(enumerate(params), 2):
        for x in va:
            for y in vb:
                need.add((i, x, j, y))
    rows = []
    cands = [dict(zip([p[0] for p in params], vals)) for vals in itertools.product(*[p[1] for p in params])]
    # greedy over a deterministic candidate subsequence
    step = 7
    cands = cands[::step]
    while need:
        best, bestc = None, -1
        for c in cands:
            vals = [c[p[0]] for p in params]
            cov = sum(1 for (i, x, j, y) in need if vals[i] == x and vals[j] == y)
            if cov > bestc:
                best, bestc = c, cov
        if bestc <= 0:
            break
        vals = [best[p[0]] for p in params]
        need = {(i, x, j, y) for (i, x, j, y) in need if not (vals[i] == x and vals[j] == y)}
        rows.append(best)
    return rows, len(need)


# ============================================================================================================
# Option families.  Every option that Commands.md documents for `meson format` is a dimension of a family whose skeletons
# hold what the option acts on (so that the option changes the output of cases of the family: measured, `effect`), decorated
# with the legal trivia alphabet at every token gap like the trivia families: the passes that implement the options move
# and rewrite exactly the whitespace nodes that carry the comments.  The oracle is the general one (tree, comments, fixed
# point); what an option is documented to do is used only to choose inputs and to count that it happened.
DOCUMENTED_OPTIONS = ['max_line_length', 'indent_by', 'space_array', 'kwargs_force_multiline', 'wide_colon',
                      'no_single_comma_function', 'end_of_line', 'indent_before_comments', 'simplify_string_literals',
                      'insert_final_newline', 'tab_width', 'sort_files', 'group_arg_value', 'use_editor_config']


def documented_options_in_manual():
    """The option names of the list "The following options are recognized" in docs/markdown/Commands.md."""
    text = open(os.path.join(REPO, 'docs', 'markdown', 'Commands.md'), encoding='utf-8').read()
    sec = text.split('\n### format\n', 1)[1].split('\n### ', 1)[0]
    lst = sec.split('The following options are recognized:', 1)[1].split('The first six options', 1)[0]
    return re.findall(r'^- (\w+) \(', lst, re.M)


def S(text):
    return STR("'%s'" % text)


ML_M, ML_P, F_P = STR("'''m'''"), STR("f'''p'''"), STR("f'p'")

# --- group_arg_value: "string argument with `--` prefix followed by string argument without `--` prefix are grouped on the
# same line, in multiline arguments".  Argument sequences over: an option string, `--` alone, a value string, a non-string.
GAV_ATOMS = [('O', S('--o')), ('D', S('--')), ('V', S('v')), ('N', ID('a'))]
GAV_ATOMS_T = GAV_ATOMS + [('S', S('-s')), ('F', STR("f'--@a@'")), ('M', STR("'''--m'''"))]
GAV_CTX = [
    ('call', lambda at, tc: EXPR(CALL('f', at, trailing=tc))),
    ('arr', lambda at, tc: ASSIGN('x', ARR(at, trailing=tc))),
    ('meth', lambda at, tc: ASSIGN('x', METH(ID('o'), 'm', at, trailing=tc))),
    ('callkw', lambda at, tc: EXPR(CALL('f', at, [('k', ONE)], trailing=tc))),
    ('kwarr', lambda at, tc: EXPR(CALL('f', [], [('k', ARR(at, trailing=tc))]))),
]


def gav_skeletons(atoms, length, ctxs):
    out = []
    for tup in itertools.product(atoms, repeat=length):
        for cname, build in ctxs:
            for tc in (False, True):
                out.append(('%s:%s%s' % (cname, ''.join(n for n, _ in tup), ',' if tc else ''), build([t for _, t in tup], tc)))
    return out


def opt_skeletons():
    """name -> [(skeleton name, tokens)]"""
    a4, b4, c4, d4 = ID('aaaa'), ID('bbbb'), ID('cccc'), ID('dddd')
    o = ID('o')
    sk = {}
    # single-argument calls and what looks like them (no_single_comma_function: "a comma is never appended to function
    # arguments if there is only one argument, even if using multiline arguments")
    sk['single'] = [
        ('call1', ASSIGN('x', CALL('f', [A]))),
        ('call1,', ASSIGN('x', CALL('f', [A], trailing=True))),
        ('exprcall1', EXPR(CALL('f', [A]))),
        ('kw1', ASSIGN('x', CALL('f', [], [('k', A)]))),
        ('kw1,', ASSIGN('x', CALL('f', [], [('k', A)], trailing=True))),
        ('meth1', ASSIGN('x', METH(o, 'm', [A]))),
        ('meth1,', ASSIGN('x', METH(o, 'm', [A], trailing=True))),
        ('call1arr', ASSIGN('x', CALL('f', [ARR([A, B])]))),
        ('call1arr,', ASSIGN('x', CALL('f', [ARR([A, B], trailing=True)]))),
        ('call1call', ASSIGN('x', CALL('f', [CALL('g', [A])]))),
        ('call1call,', ASSIGN('x', CALL('f', [CALL('g', [A], trailing=True)], trailing=True))),
        ('arr-of-call', ASSIGN('x', ARR([CALL('f', [A])], trailing=True))),
        ('dict-of-call', ASSIGN('x', DICT([(S('k'), CALL('f', [A]))], trailing=True))),
        ('call2,', ASSIGN('x', CALL('f', [A, B], trailing=True))),
        ('call1ml', ASSIGN('x', CALL('f', [ML_M]))),
        ('call1paren', ASSIGN('x', CALL('f', [PAR(A)]))),
        ('call0', ASSIGN('x', CALL('f'))),
        ('if-call1,', IF([(CALL('f', [A], trailing=True), BODY1)])),
        ('call1long', EXPR(CALL('f', [ID('a' * 20)]))),
        ('methkw-paren', ASSIGN('z', METH(ID('y'), 'foo', [], [('bar', BIN(PAR(BIN(ONE, '+', NUM(2))), '*', NUM(3)))]))),
    ]
    # argument lists / parentheses of 21..40 columns (max_line_length: "When an array, a dict, a function or a method would be
    # longer that this, it is formatted one argument per line"), nested in each other and in blocks
    sk['long'] = [
        ('call-kwarr', ASSIGN('x', CALL('f', [a4, b4], [('k', ARR([c4, d4]))]))),
        ('chain', ASSIGN('x', METH(METH(o, 'm', [a4, b4]), 'n', [c4, d4]))),
        ('dict-arr', ASSIGN('x', DICT([(S('kkkk'), ARR([a4, b4])), (S('l'), c4)]))),
        ('methkw-paren', ASSIGN('z', METH(ID('y'), 'foo', [], [('bar', BIN(PAR(BIN(ONE, '+', NUM(2))), '*', NUM(3)))]))),
        ('paren-and-or', ASSIGN('x', PAR(BIN(BIN(a4, 'and', b4), 'or', c4)))),
        ('paren-paren', ASSIGN('x', PAR(BIN(PAR(BIN(a4, '+', b4)), '*', c4)))),
        ('paren-call', ASSIGN('x', PAR(CALL('f', [a4, b4, c4])))),
        ('if-call', IF([(CALL('f', [a4, b4, c4, d4]), BODY1)])),
        ('nest3', ASSIGN('x', CALL('f', [CALL('g', [CALL('h', [a4, b4]), c4]), d4]))),
        ('files', ASSIGN('x', CALL('files', [S('bbbb.c'), S('aaaa.c'), S('cccc.c')]))),
        ('in-blocks', FOREACH(['i'], A, IF([(B, EXPR(CALL('f', [a4, b4], [('k', c4)])))]))),
        ('one-string', EXPR(CALL('message', [S('one argument longer than 20')]))),
        ('idx-call', ASSIGN('x', METH(IDX(a4, CALL('f', [b4, c4])), 'm', [d4]))),
    ]
    # files(): "arguments of `files()` function are sorted", naturally (a2 before a10), directories first
    sk['files'] = [
        ('files2', ASSIGN('x', CALL('files', [S('b.c'), S('a.c')]))),
        ('files2,', ASSIGN('x', CALL('files', [S('b.c'), S('a.c')], trailing=True))),
        ('files-arr3', ASSIGN('x', CALL('files', [ARR([S('b.c'), S('a10.c'), S('a2.c')])]))),
        ('files-arr3,', ASSIGN('x', CALL('files', [ARR([S('b.c'), S('a10.c'), S('a2.c')], trailing=True)]))),
        ('files-arr2,,', EXPR(CALL('files', [ARR([S('b.c'), S('a.c')], trailing=True)], trailing=True))),
        ('files-nested', ASSIGN('x', CALL('files', [ARR([ARR([S('b.c'), S('a.c')])])]))),
        ('files-id', ASSIGN('x', CALL('files', [S('b.c'), A, S('a.c')]))),
        ('files-dirs', ASSIGN('x', CALL('files', [S('b/a.c'), S('a.c'), S('a/b.c')]))),
        ('files-same', ASSIGN('x', CALL('files', [S('a.c'), S('a.c')]))),
        ('meth-files', ASSIGN('x', METH(o, 'files', [S('b.c'), S('a.c')]))),
        ('files-in-kw', EXPR(CALL('f', [], [('k', CALL('files', [S('b.c'), S('a.c')]))]))),
        ('files1', ASSIGN('x', CALL('files', [S('a.c')]))),
        ('files-ml-f', ASSIGN('x', CALL('files', [STR("'''b.c'''"), STR("f'a.c'")]))),
    ]
    # string literals that simplify_string_literals rewrites (or must keep)
    sk['strings'] = [
        ('ml', ASSIGN('x', ML_M)),
        ('f', ASSIGN('x', F_P)),
        ('fml', ASSIGN('x', ML_P)),
        ('call2', ASSIGN('x', CALL('f', [ML_M, F_P]))),
        ('call1', ASSIGN('x', CALL('f', [ML_M]))),
        ('kw', ASSIGN('x', CALL('f', [], [('k', ML_P)]))),
        ('arr', ASSIGN('x', ARR([ML_M, STR("f'@a@'")]))),
        ('dict', ASSIGN('x', DICT([(STR("'''k'''"), F_P)]))),
        ('newline', ASSIGN('x', CALL('f', [STR("'''l1\nl2'''"), A]))),
        ('quote', ASSIGN('x', ARR([STR("'''q'r'''")]))),
    ]
    # arrays, dicts, keyword arguments (space_array, wide_colon, kwargs_force_multiline)
    sk['layout'] = [
        ('arr2', ASSIGN('x', ARR([A, B]))),
        ('arr1', ASSIGN('x', ARR([A]))),
        ('arr0', ASSIGN('x', ARR())),
        ('arr2,', ASSIGN('x', ARR([A, B], trailing=True))),
        ('arr-arr', ASSIGN('x', ARR([ARR([A]), ARR([B])]))),
        ('call-arr-kwarr', ASSIGN('x', CALL('f', [ARR([A, B])], [('k', ARR([ONE]))]))),
        ('dict2', ASSIGN('x', DICT([(S('k'), A), (S('l'), ARR([B]))]))),
        ('dict0', ASSIGN('x', DICT())),
        ('call-kw2', ASSIGN('x', CALL('f', [], [('k', A), ('l', B)]))),
        ('meth-pos-kw', ASSIGN('x', METH(o, 'm', [A], [('k', B)]))),
        ('kw-dict', ASSIGN('x', CALL('f', [A], [('k', DICT([(S('k'), B)]))]))),
        ('kw-call-kw', EXPR(CALL('f', [], [('k', CALL('g', [], [('l', A)]))]))),
        ('foreach-arr', FOREACH(['i'], ARR([A, B]), BODY1)),
        ('idx', ASSIGN('x', IDX(A, B))),
        ('tern-in-dict', ASSIGN('x', DICT([(S('k'), TERN(A, B, ONE))]))),
    ]
    # multi-line containers inside blocks (indent_by, indent_before_comments, .editorconfig indentation)
    sk['nested'] = [
        ('if-arr,', IF([(A, ASSIGN('x', ARR([A, B], trailing=True)))])),
        ('foreach-if-call,', FOREACH(['i'], A, IF([(B, EXPR(CALL('f', [A], [('k', B)], trailing=True)))], BODY1))),
        ('if-paren', IF([(PAR(BIN(A, 'and', B)), BODY1)])),
        ('dict-arr,', ASSIGN('x', DICT([(S('k'), ARR([A, B], trailing=True))], trailing=True))),
        ('chain,', ASSIGN('x', METH(METH(A, 'm', [B], trailing=True), 'n'))),
        ('if-else-call,', IF([(A, BODY2)], EXPR(CALL('g', [A, B], trailing=True)))),
        ('call-call,', EXPR(CALL('f', [CALL('g', [A], trailing=True)], trailing=True))),
        ('if-if', IF([(A, IF([(B, BODY1)]))])),
    ]
    # the end of the file (insert_final_newline)
    sk['eof'] = [
        ('empty', []),
        ('assign', ASSIGN('x', ONE)),
        ('call,', EXPR(CALL('f', [A], trailing=True))),
        ('if', IF([(A, BODY1)])),
        ('two', ASSIGN('x', ONE) + EXPR(CALL('f', [A]))),
    ]
    return sk


TABW_L = 24


def tabw_skeletons(widths):
    """A call at block depth 1 and 2, indented by tabs, whose line ends at column TABW_L-1, TABW_L, TABW_L+1 when a tab stop is
    `w` wide, for every w (tab_width: "Width of tab stops, used to compute line length when `indent_by` uses tab characters")."""
    out = []
    seen = set()
    for depth in (1, 2):
        for w in widths:
            for d in (-1, 0, 1):
                stmt_len = TABW_L + d - depth * w
                pad = stmt_len - len("x = f(v, w)")
                if pad < 0 or (depth, stmt_len) in seen:
                    continue
                seen.add((depth, stmt_len))
                body = ASSIGN('x', CALL('f', [ID('v' + 'z' * pad), ID('w')]))
                for _ in range(depth):
                    body = IF([(A, body)])
                out.append(('depth%d:len%d' % (depth, stmt_len), body))
    return out


def without(cfg, *opts):
    return {k: v for k, v in cfg.items() if k not in opts}


def option_families(T):
    """[(option, family name, skeletons, [(configuration, the same without the option)],
         [(devs, full alphabet, gap kinds or None, first n skeletons or None)])]"""
    sk = opt_skeletons()
    fams = []

    def add(opt, name, skels, cfgs, plans):
        fams.append((opt, name, skels, cfgs, plans))

    IN = ('in',)
    std = [((0, 1), True, None, None)]
    # group_arg_value
    gav = {'group_arg_value': True}
    tabbed = (dict(gav, indent_by='\t', indent_before_comments=' '), {'indent_by': '\t', 'indent_before_comments': ' '})
    add('group_arg_value', 'args2', gav_skeletons(GAV_ATOMS, 2, GAV_CTX if T else GAV_CTX[:3]), [(gav, {})] + ([tabbed] if T else []), std)
    if not T:
        add('group_arg_value', 'args2:kw', gav_skeletons(GAV_ATOMS, 2, GAV_CTX[3:]), [(gav, {})], [((0, 1), False, None, None)])
        add('group_arg_value', 'args2:tab', gav_skeletons(GAV_ATOMS, 2, GAV_CTX[:2]), [tabbed], [((0, 1), False, None, None)])
    add('group_arg_value', 'args2:dev2', gav_skeletons(GAV_ATOMS, 2, GAV_CTX[:3] if T else GAV_CTX[:1]), [(gav, {})], [((2,), False, IN, None)])
    add('group_arg_value', 'args3', gav_skeletons(GAV_ATOMS, 3, GAV_CTX if T else GAV_CTX[:1]), [(gav, {})], [((0, 1), T, None, None)])
    if T:
        add('group_arg_value', 'args2:more-strings', gav_skeletons(GAV_ATOMS_T, 2, GAV_CTX[:2]),
            [(gav, {}), (dict(gav, max_line_length=20), {'max_line_length': 20})], std)
        add('group_arg_value', 'args4', gav_skeletons(GAV_ATOMS, 4, GAV_CTX[:1]), [(gav, {})], [((0, 1), False, None, None)])
    # no_single_comma_function
    n1 = {'no_single_comma_function': True}
    n2 = {'no_single_comma_function': True, 'max_line_length': 20, 'kwargs_force_multiline': True}
    add('no_single_comma_function', 'single', sk['single'], [(n1, {}), (n2, without(n2, 'no_single_comma_function'))],
        std + [((2,), T, IN, None if T else 4)])
    # max_line_length
    add('max_line_length', 'long', sk['long'], [({'max_line_length': m}, {}) for m in ((20, 0, 30, 10) if T else (20, 0))] +
        [({'max_line_length': 20, 'indent_by': '\t', 'tab_width': 8}, {'indent_by': '\t', 'tab_width': 8})],
        [((0, 1), T, None, None)])
    # tab_width
    widths = (1, 2, 4, 8) if T else (2, 4, 8)
    tb = {'indent_by': '\t', 'max_line_length': TABW_L}
    add('tab_width', 'tabs', tabw_skeletons(widths), [(dict(tb, tab_width=w), tb) for w in widths], [((0, 1), T, None, None)])
    # sort_files
    s2_ = {'sort_files': True, 'max_line_length': 20, 'no_single_comma_function': True}
    add('sort_files', 'files', sk['files'], [({'sort_files': True}, {}), (s2_, without(s2_, 'sort_files'))],
        std + [((2,), T, IN, None if T else 2)])
    # simplify_string_literals
    s3_ = {'simplify_string_literals': False, 'no_single_comma_function': True, 'max_line_length': 20}
    add('simplify_string_literals', 'strings', sk['strings'],
        [({'simplify_string_literals': False}, {}), (without(s3_, 'max_line_length'), {'no_single_comma_function': True}),
         (dict(s3_, simplify_string_literals=True), s3_)], std)
    # space_array, wide_colon, kwargs_force_multiline
    three = ('space_array', 'wide_colon', 'kwargs_force_multiline')
    for o_ in three:
        add(o_, 'layout', sk['layout'], [({o_: True}, {})], std)
    if T:
        for o_, p_ in itertools.combinations(three, 2):
            add(o_, 'layout:+' + p_, sk['layout'], [({o_: True, p_: True}, {p_: True})], std)
    # indent_by, indent_before_comments
    add('indent_by', 'nested', sk['nested'],
        [({'indent_by': v}, {}) for v in (('  ', '\t', '', '   ', ' \t', ' ' * 8) if T else ('  ', '\t', '', '   '))], [((0, 1), T, None, None)])
    add('indent_before_comments', 'nested', sk['nested'], [({'indent_before_comments': v}, {}) for v in ('', ' ', '\t', '    ')],
        [((0, 1), T, None, None)])
    # insert_final_newline
    add('insert_final_newline', 'eof', sk['eof'],
        [({'insert_final_newline': False}, {}), ({'insert_final_newline': False, 'indent_by': ''}, {'indent_by': ''})], [((0, 1), True, None, None), ((2,), T, None, None)])
    # use_editor_config (an .editorconfig beside the file; the configuration file may set the same things and then wins)
    uec = {'use_editor_config': True}
    add('use_editor_config', 'nested+long', sk['nested'] + sk['long'],
        [(dict(uec, **{'(editorconfig)': v}), {}) for v in sorted(ED_VARIANTS)] +
        [(dict(uec, **{'(editorconfig)': 'tab', 'indent_by': '  ', 'tab_width': 4}), {'indent_by': '  ', 'tab_width': 4}),
         ({'use_editor_config': False, '(editorconfig)': 'tab'}, {})],
        [((0, 1), T, None, None)])
    return fams


OPT_FAMS = []


OPTION_THEN_VALUE = re.compile(r"'--\w+'(?P<before>[^',]*),(?P<after>[^']*)f?'(?!--|'')")


def w_option(item):
    """item: (family index, skeleton index, dev, full, gap kinds, cfg, base).  -> (summary, number of cases (dev <= 1) whose output
    differs from the output under `base`, the configuration without the option; counters of the judged cases in which an option
    string is followed by a value string with a comment / a newline / a line continuation in the gap before / after the comma)"""
    fi, idx, dev, full, only, cfg, base = item
    toks = OPT_FAMS[fi][2][idx][1]
    seen = set()
    eff = [0]
    cnt = {}

    def gen():
        for src in variants(toks, dev, full, only=set(only) if only else None):
            if src in seen:
                continue
            seen.add(src)
            st, v, cls, out = judge_out(src, cfg)
            if st == 'ok' and dev <= 1:
                try:
                    eff[0] += real_format(src, base) != out
                except MesonException:
                    pass
            if st in ('ok', 'viol'):
                for m in OPTION_THEN_VALUE.finditer(src):
                    for where in ('before', 'after'):
                        g = m.group(where)
                        for what, hit in (('comment', '#' in g), ('continuation', '\\' in g), ('newline', '\n' in g and '#' not in g and '\\' not in g),
                                          ('nothing or blanks', not g.strip() and '\n' not in g)):
                            if hit:
                                k = '%s %s the comma' % (what, where)
                                cnt[k] = cnt.get(k, 0) + 1
            yield src, cfg, st, v, cls
    return summarise(gen()), eff[0], cnt


# ============================================================================================================
# CLI: --check-only / --check-diff / --inplace / --output through mformat.run
_AP = None


def cli(argv):
    global _AP
    if _AP is None:
        _AP = argparse.ArgumentParser()
        mformat.add_arguments(_AP)
    opts = _AP.parse_args(argv)
    buf = io.StringIO()
    with contextlib.redirect_stdout(buf):
        rc = mformat.run(opts)
    return rc, buf.getvalue()


NEWLINES = {'lf': '\n', 'crlf': '\r\n', 'cr': '\r', 'native': os.linesep, None: os.linesep}


def cli_case(src, file_nl, cfg, tag, ec_eol=None):
    """-> list of (kind, what) violations for one file content x configuration.  ec_eol: end_of_line given by an .editorconfig
    beside the file (read because of -e) instead of / in addition to the configuration file."""
    d = os.path.join(work_dirs()['cli'], '%d-%s' % (os.getpid(), tag))
    os.makedirs(d, exist_ok=True)
    f = os.path.join(d, 'meson.build')
    data = src.replace('\n', file_nl).encode()
    cf = cfg_file(cfg)
    viols = []
    ecp = os.path.join(d, '.editorconfig')
    if ec_eol:
        with open(ecp, 'w') as fh:
            fh.write('root = true\n[meson.build]\nend_of_line = %s\n' % ec_eol)
    elif os.path.exists(ecp):
        os.unlink(ecp)
    E = ['-e'] if ec_eol else []

    def put():
        with open(f, 'wb') as fh:
            fh.write(data)

    def get(p=f):
        with open(p, 'rb') as fh:
            return fh.read()
    try:
        put()
        rc_check, _ = cli(E + ['-c', cf, '--check-only', f])
        if get() != data:
            viols.append(('check-only-writes', '--check-only modified the file'))
            put()
        rc_diff, diff = cli(E + ['-c', cf, '--check-diff', f])
        if get() != data:
            viols.append(('check-diff-writes', '--check-diff modified the file'))
            put()
        rc_in, _ = cli(E + ['-c', cf, '--inplace', f])
        written = get()
        rc_in2, _ = cli(E + ['-c', cf, '--inplace', f])
        written2 = get()
        o = os.path.join(d, 'out.build')
        put()
        cli(E + ['-c', cf, '--output', o, f])
        outb = get(o)
    except MesonException:
        return 'impl_rejects', [], {}
    would_change = written != data
    info = 'file_nl=%r end_of_line=%r editorconfig end_of_line=%r' % (file_nl, cfg.get('end_of_line'), ec_eol)
    if (rc_check == 1) != would_change:
        norm_eq = written.replace(b'\r\n', b'\n').replace(b'\r', b'\n') == data.replace(b'\r\n', b'\n').replace(b'\r', b'\n')
        if rc_check == 0 and norm_eq:
            viols.append(('check-only:eol-bytes', '--check-only exits 0 but --inplace rewrites the line endings (%s)' % info))
        else:
            viols.append(('check-only:status', '--check-only exit %d but --inplace %s the file (%s)' % (
                rc_check, 'changes' if would_change else 'does not change', info)))
    if rc_diff != rc_check:
        viols.append(('check-diff:status', '--check-diff exit %d but --check-only exit %d (%s)' % (rc_diff, rc_check, info)))
    try:
        f1 = real_format(src, cfg)
        inproc_fixed = real_format(f1, cfg) == f1
    except MesonException:
        inproc_fixed = False
    if written2 != written and inproc_fixed:      # (a missing in-process fixed point is reported by the other parts)
        viols.append(('inplace:not-idempotent', 'a second --inplace run rewrites the file again (%s)' % info))
    if outb != written:
        viols.append(('output-vs-inplace', '--output and --inplace write different bytes (%s)' % info))
    # the bytes written are the in-process result with the configured line ending
    try:
        formatted = real_format(src, cfg)
        nl = NEWLINES[cfg.get('end_of_line') or ec_eol]      # the configuration file wins over .editorconfig
        if written != formatted.replace('\n', nl).encode():
            viols.append(('inplace:bytes', '--inplace bytes are not format() with end_of_line applied (%s)' % info))
    except MesonException:
        pass
    return ('viol' if viols else 'ok'), viols, {'crlf': b'\r\n' in written, 'changed': would_change, 'rc': rc_check}


def cli_multi_case(arr, mode, how):
    """One invocation over several build files: arr is a tuple of 'F' (already formatted) / 'U' (would change).
    -> list of (kind, what)"""
    d = os.path.join(work_dirs()['cli'], '%d-multi' % os.getpid())
    shutil.rmtree(d, ignore_errors=True)
    os.makedirs(d)
    paths, datas = [], []
    for i, a in enumerate(arr):
        sub = d if (how == 'recursive' and i == 0) else os.path.join(d, 'd%d' % i)
        os.makedirs(sub, exist_ok=True)
        p_ = os.path.join(sub, 'meson.build')
        text = "x%d = f(a, k: 1)\n" % i if a == 'F' else "x%d=f(a,k:1)\n" % i
        if how == 'recursive' and i == 0:
            text += ''.join("subdir('d%d')\n" % j for j in range(1, len(arr)))      # --recursive follows the subdir() calls
        data = text.encode()
        with open(p_, 'wb') as fh:
            fh.write(data)
        paths.append(p_)
        datas.append(data)
    argv = ['--' + mode] + (['--recursive', d] if how == 'recursive' else paths)
    what = 'meson format %s over files %s (%s)' % ('--' + mode, ''.join(arr), how)
    try:
        rc, out = cli(argv)
    except MesonException as e:
        return [('multi:rejected', '%s raised %s' % (what, e))]
    viols = []
    exp = 1 if 'U' in arr else 0
    if rc != exp:
        viols.append(('multi:%s:status' % mode, '%s: exit status %d, expected %d (a difference is reported iff formatting would change a file)' % (what, rc, exp)))
    for p_, data in zip(paths, datas):
        with open(p_, 'rb') as fh:
            if fh.read() != data:
                viols.append(('multi:%s:writes' % mode, '%s modified %s' % (what, os.path.relpath(p_, d))))
    return viols


CLI_PROGRAMS = [
    "x = f(a, k: 1)\n",                       # already formatted
    "x=f(a,k:1)\n",                           # not formatted
    "# c\nif a\n    x = [\n        1,\n        2,\n    ]\nendif\n",   # formatted, multi-line
    "if a\n  x = 1\nendif\n",
    "x = '''l1\nl2'''\n",                     # newline inside a string
    "x = 1",                                  # no final newline
    "",
    "x = files('a.c', 'b.c')\ny = 2\n",
    "# c0\n\nx = a \\\n  + 1  # c1\nif x\n    y = [\n        1,  # c2\n    ]\nendif\n",     # every kind of trivia that holds a line ending
]


def w_cli(item):
    idx, src, file_nl, cfg = item[:4]
    ec = item[4] if len(item) > 4 else None
    st, viols, info = cli_case(src, file_nl, cfg, 'c%d' % (idx % 64), ec)
    return src, file_nl, dict(cfg, **({'(editorconfig end_of_line)': ec} if ec else {})), st, viols, info


# ============================================================================================================
def corpus_files():
    out = []
    for root, dirs, files in os.walk(REPO):
        dirs.sort()
        if '.git' in dirs:
            dirs.remove('.git')
        if 'meson.build' in files:
            out.append(os.path.join(root, 'meson.build'))
    return sorted(out)


def w_corpus(path):
    try:
        src = open(path, encoding='utf-8').read()
    except (UnicodeDecodeError, OSError):
        return path, 'unreadable', []
    try:
        mparser.Parser(src, path).parse()
    except MesonException:
        return path, 'impl_rejects', []
    except RecursionError:
        return path, 'unspecified', []
    ref = True
    try:
        reflang.parse(src)
    except SyntaxFail:
        ref = False
    except (Unspecified, RecursionError):
        return path, 'unspecified', []
    res = []
    for cfg in CORPUS_CFGS:
        st, v, cls = judge(src, cfg, ref=ref)
        res.append((cfg, st, v, cls))
    return path, ('ref' if ref else 'noref'), res


# ============================================================================================================
def report(ck, fam, s):
    """Turn a merged summary into violations (parent process)."""
    for key in sorted(s['viol']):
        n, ex = s['viol'][key]
        for what, src, cfg in ex[:2]:
            ck.violation(key, '%s | input %r | config %s | %d case(s) in %s' % (what, src, cfg_key(cfg), n, fam),
                         {'src': src, 'cfg': cfg, 'family': fam, 'ref': not key.startswith('C16:illformed:')})
    ck.part(fam, cases=s['n'], ok=s['ok'], changed=s['changed'], violating_cases=s['nviol'],
            skipped=dict(sorted(s['skip'].items())),
            violation_counts={k: v[0] for k, v in sorted(s['viol'].items())})


def run_items(worker, items, chunksize=1):
    total = empty_summary()
    for s in pmap(worker, items, chunksize=chunksize):
        merge(total, s)
    return total


def main():
    ck = Check('C16', 'exploration')
    mlog._logger.log_disable_stdout = True
    if ck.args.replay:
        return replay(ck)
    work_dirs()
    T = ck.thorough
    classes = set()
    evaluations = 0
    skipped_unspec = 0
    fixed_points = 0
    changed = 0
    exhaustive = True
    unmet = []

    def need(cond, msg):
        """Anti-vacuity condition, evaluated at the end: a run that has found violations keeps its verdict (exit 1)."""
        if not cond:
            unmet.append(msg)

    d1 = depth1()
    d2 = depth2()
    blocks = block_statements()
    s1 = statements(d1) + blocks
    s2 = statements(d2)
    PROGS['s1'] = s1
    PROGS['s2'] = s2
    # small pool for sequences
    pool_names = ['x=call2', 'x=callmix', 'x=arrtc', 'x=dict2', 'x=filesarr', 'if-else', 'foreach', 'exprcall',
                  "x=arr1<'''m'''>", 'x=paren', 'x=meth1', 'plusassign']
    if T:
        pool_names += ['x=and', 'x=tern', 'x=not', 'x=idx', 'if', 'if-elif-else', 'if-empty', 'foreach-kv', 'foreach-if',
                       'foreach-break', 'exprmeth', 'exprfiles', "x=call1<f'p'>", "x=call1<f'@a@'>", "x=call1<'''l\\nl'''>",
                       'x=calltc', 'x=callkw', 'x=meth0', 'x=dictkey', 'x=files2', 'x=filesarrtc', 'x=neg', 'x=notin',
                       'x=arr2', 'x=dict1', 'x=callmix2', 'if-call', 'if-nested']
    byname = dict(s1)
    pool = [(n, byname[n]) for n in pool_names]
    ck.require(len(pool) == len(pool_names), 'pool names resolve')
    seqs = []
    for k in (2, 3):
        for tup in itertools.product(pool, repeat=k):
            seqs.append(('+'.join(n for n, _ in tup), [t for _, toks in tup for t in toks]))
    PROGS['seq'] = seqs
    npair = ck.q(6, 14)
    pairs = [('+'.join(n for n, _ in tup), [t for _, toks in tup for t in toks])
             for tup in itertools.product(pool[:npair], repeat=2)]
    PROGS['pair'] = pairs
    skel_names = ['x=callmix', 'x=arr2', 'x=filesarr', 'x=dict2', 'x=meth1', 'if-else', 'foreach', 'x=and', 'x=paren', 'exprcall',
                  'x=calltc', "x=call1<'''m'''>"]
    if T:
        skel_names += ['x=tern', 'x=idx', 'x=not', 'x=neg', 'x=notin', 'x=callmix2', 'x=arrtc', 'x=filesarrtc', 'x=files2',
                       'if-elif-else', 'if-empty', 'if-call', 'foreach-kv', 'foreach-if', 'foreach-empty', 'plusassign',
                       'exprmeth', 'exprfiles', 'x=dictkey', "x=call1<f'@a@'>", "x=call1<'''l\\nl'''>", 'x=methkw']
    by2 = dict(s2)
    skel2 = ['callmix[1:arr2]', 'call2[0:call2]', 'arr2[0:arr2]', 'dict2[1:dict1]', 'meth1[0:call1]', 'chain2', 'and[0:or]',
             'paren[0:and]', 'callkw[0:filesarr]', 'call1[0:paren]']
    skels = [(n, byname[n]) for n in skel_names] + [(n, by2['x=' + n]) for n in (skel2 if T else skel2[:4])]
    PROGS['skel'] = skels

    D = {}

    def fam_trivia(name, fam, devs, full, cfg=None):
        if not ck.want(name):
            return
        cfg = cfg or {}
        items = [(fam, i, dev, full, cfg) for dev in devs for i in range(len(PROGS[fam]))]
        s = run_items(w_trivia, items)
        report(ck, name, s)
        D[name] = s

    # ---- (1) trivia families ---------------------------------------------------------------------------------
    fam_trivia('trivia:s1:dev01', 's1', (0, 1), True)
    fam_trivia('trivia:s2:dev0', 's2', (0,), True)
    fam_trivia('trivia:s2:dev1', 's2', (1,), T)
    fam_trivia('trivia:seq:dev0', 'seq', (0,), True)
    fam_trivia('trivia:pair:dev1', 'pair', (1,), T)
    fam_trivia('trivia:skel:dev2', 'skel', (2,), T)
    if T:
        fam_trivia('trivia:skel:dev2:cfgB', 'skel', (2,), False, CORPUS_CFGS[1])
        fam_trivia('trivia:skel:dev2:cfgC', 'skel', (2,), False, CORPUS_CFGS[3])
        fam_trivia('trivia:s1:dev2', 's1', (2,), False)
        fam_trivia('trivia:s1:dev2:cfgB', 's1', (2,), False, CORPUS_CFGS[1])
        fam_trivia('trivia:s1:dev2:cfgC', 's1', (2,), False, CORPUS_CFGS[3])
        fam_trivia('trivia:s2:dev1:cfgB', 's2', (1,), False, CORPUS_CFGS[1])
        fam_trivia('trivia:s2:dev1:cfgC', 's2', (1,), False, CORPUS_CFGS[3])
        PROGS['triple'] = [('+'.join(n for n, _ in tup), [t for _, toks in tup for t in toks])
                           for tup in itertools.product(pool[:8], repeat=3)]
        fam_trivia('trivia:triple:dev1', 'triple', (1,), True)
    else:
        fam_trivia('trivia:skel:dev1:cfgB', 'skel', (1,), True, CORPUS_CFGS[1])
        fam_trivia('trivia:skel:dev1:cfgC', 'skel', (1,), True, CORPUS_CFGS[3])
    # degenerate settings (empty indentation, empty comment indentation)
    fam_trivia('trivia:skel:dev1:cfgE', 'skel', (1,), True, {'indent_by': '', 'indent_before_comments': ''})
    if T:
        fam_trivia('trivia:s1:dev1:cfgE', 's1', (1,), True, {'indent_by': '', 'indent_before_comments': ''})

    # ---- option families: every documented option x inputs it acts on x trivia ---------------------------------------
    if ck.want('options'):
        manual = documented_options_in_manual()
        ck.require(sorted(manual) == sorted(DOCUMENTED_OPTIONS),
                   'the options documented in Commands.md are not the ones this check has families for: %r' % sorted(set(manual) ^ set(DOCUMENTED_OPTIONS)))
        OPT_FAMS[:] = option_families(T)
        items = []
        for fi, (opt, name, skels, cfgs, plans) in enumerate(OPT_FAMS):
            for devs, full, only, nsk in plans:
                for cfg, base in cfgs:
                    for dev in devs:
                        for idx in range(len(skels) if nsk is None else min(nsk, len(skels))):
                            items.append((fi, idx, dev, full, only, cfg, base))
        per = {}
        for item, (s, eff, cnt) in zip(items, pmap(w_option, items, chunksize=4)):
            opt, name = OPT_FAMS[item[0]][:2]
            e = per.setdefault(opt, {'s': empty_summary(), 'effect': 0, 'fams': {}, 'cfgs': set(), 'skels': set(), 'cnt': {}})
            merge(e['s'], s)
            e['effect'] += eff
            e['fams'][name] = e['fams'].get(name, 0) + s['n']
            e['cfgs'].add(cfg_key(item[5]))
            e['skels'].add((item[0], item[1]))
            for k, v in cnt.items():
                e['cnt'][k] = e['cnt'].get(k, 0) + v
        for opt in sorted(per):
            e = per[opt]
            report(ck, 'options:' + opt, e['s'])
            ck.part('options:' + opt, skeletons=len(e['skels']), configurations=len(e['cfgs']), cases_by_family=dict(sorted(e['fams'].items())),
                    cases_where_the_option_changes_the_output=e['effect'])
            D['options:' + opt] = e['s']
            need(e['effect'] > 0, 'options: %s never changed the output of a case of its family' % opt)
            need(e['s']['ok'] > 0, 'options: no case of the family of %s was judged' % opt)
        missing = sorted(set(DOCUMENTED_OPTIONS) - set(per) - {'end_of_line'})      # (end_of_line: the cli part, see there)
        need(not missing, 'options: documented options without a family: %r' % missing)
        # the situation group_arg_value is about (an option string followed by a value string), with every kind of trivia on
        # either side of the comma between the two
        gcnt = per.get('group_arg_value', {'cnt': {}})['cnt']
        ck.part('options:group_arg_value', option_followed_by_value_with=dict(sorted(gcnt.items())))
        for what in ('comment', 'newline', 'continuation', 'nothing or blanks'):
            for where in ('before', 'after'):
                need(gcnt.get('%s %s the comma' % (what, where), 0) > 0,
                     'options: group_arg_value: no argument list with an option followed by a value and %s %s the comma' % (what, where))

    # ---- ill-formed but accepted -----------------------------------------------------------------------------
    if ck.want('illformed'):
        PROGS['illskel'] = skels + ([] if not T else [(n, t) for n, t in s1 if n not in dict(skels)])
        items = [('illskel', i, dev, False, {}) for dev in ((1, 2) if T else (1,)) for i in range(len(PROGS['illskel']))]
        if not T:
            items += [('illskel', i, 2, False, {}) for i in range(4)]
        s = run_items(w_ill, items)
        report(ck, 'illformed', s)
        D['illformed'] = s
        ck.part('illformed', members_accepted_by_the_real_parser=s['ok'] + s['nviol'])   # may reach 0 once the parser is strict

    # ---- strings ---------------------------------------------------------------------------------------------
    def fam_sources(name, srcs, cfgs, chunk=200):
        if not ck.want(name):
            return
        srcs = list(srcs)
        items = [(srcs[i:i + chunk], cfgs) for i in range(0, len(srcs), chunk)]
        s = run_items(w_sources, items)
        report(ck, name, s)
        D[name] = s

    fam_sources('strings', gen_strings(ck.q(3, 4)), [{}, {'simplify_string_literals': False}] if T else [{}])
    if 'strings' in D:
        kinds = {k for c in D['strings']['classes'] if len(c) == 4 for k in c[3]}
        need({'ml', 'f'} <= kinds, 'no string literal was simplified in the strings family (%r)' % kinds)

    # ---- spellings: significant characters in every spelling, every quoting form --------------------------------
    if ck.want('spellings'):
        SPELL_ATOMS[:] = spell_atoms(('0', ' ') if T else ())
        maxlen = 3
        cases = spell_cases(maxlen)
        cfgs = [{}, {'simplify_string_literals': False}] if T else [{}]
        total = empty_summary()
        cnt = {}
        for s, c in pmap(w_spell, [(cases[i:i + 400], cfgs) for i in range(0, len(cases), 400)]):
            merge(total, s)
            for k, v in c.items():
                cnt[k] = cnt.get(k, 0) + v
        report(ck, 'spellings', total)
        D['spellings'] = total
        kinds = [f + q for q, f in SPELL_KINDS]
        cells = {(kd, cn + ':' + sp): cnt.get('cell %s %s:%s' % (kd, cn, sp), 0)
                 for kd in kinds for _, cn, _, _ in SIGNIFICANT for sp in SPELLINGS}
        # cells that cannot exist: a raw newline inside '..' / f'..' is deprecated (announced error) -> unspecified; a raw
        # quote inside '..' / f'..' ends the literal unless a backslash precedes it, and then it is the cell quote:simple
        unjudgeable = sorted(k for k in cells if k[0] in ("'", "f'") and k[1] in ('newline:lit', 'quote:lit'))
        empty = sorted(k for k, v in cells.items() if v == 0 and k not in unjudgeable)
        ck.part('spellings', atoms=len(SPELL_ATOMS), max_atoms_per_body=maxlen, bodies=sum(len(SPELL_ATOMS) ** k for k in range(maxlen + 1)), quoting_forms=len(kinds), distinct_texts=len(cases),
                configurations=len(cfgs), cells_kind_x_character_x_spelling=len(cells),
                cells_with_a_judged_case=sum(1 for k, v in cells.items() if v and k not in unjudgeable), least_judged_cell=min(v for k, v in cells.items() if k not in unjudgeable),
                impossible_cells=[' '.join(k) for k in unjudgeable],
                counters={k: v for k, v in sorted(cnt.items()) if not k.startswith('cell ')})
        need(not empty, 'spellings: (quoting form, character, spelling) cells without any judged case: %r' % empty)
        for sp in SPELLINGS:
            if sp != 'simple':      # (\@ is not an escape: the backslash stays, it spells \ followed by @)
                need(cnt.get("f kept: placeholder with @ spelled f' " + sp, 0) > 0,
                     'spellings: no f-string with a placeholder whose @ is spelled %s was judged' % sp)
        need(cnt.get("f kept: placeholder only in the decoded value f'", 0) > 0,
             'spellings: no f-string whose placeholder exists only in the decoded value')
        need(cnt.get("rewritten f' -> '", 0) > 0 and cnt.get("rewritten ''' -> '", 0) > 0 and cnt.get("rewritten f''' -> '", 0) > 0,
             'spellings: a documented simplification never happened')
        need(all(cnt.get('triple kept: value holds ' + cn, 0) > 0 for _, cn, _, _ in SIGNIFICANT[1:]),
             'spellings: a reason to keep a triple-quoted string was never seen')

    # ---- a literal of the spellings alphabet as the only element of a container (the comma / layout rules meet the rewrite)
    if ck.want('spellings:contexts'):
        SPELL_ATOMS[:] = spell_atoms(('0', ' ') if T else ())
        ctxs = ['x = f(%s)\n', 'f(%s)\n', 'x = a.m(%s)\n', 'x = f(k: %s)\n', 'x = [%s]\n', 'x = {%s: 1}\n', 'x = f(%s,)\n', 'x = (%s)\n']
        lits = [spell_src(tup, ki).split(' = ', 1)[1].rstrip('\n') for tup, ki in spell_cases(ck.q(1, 2))]
        fam_sources('spellings:contexts', [c % l for l in lits for c in ctxs],
                    [{}, {'no_single_comma_function': True}, {'kwargs_force_multiline': True, 'space_array': True},
                     {'no_single_comma_function': True, 'simplify_string_literals': False}], chunk=100)
        if 'spellings:contexts' in D:
            kinds = {k for c in D['spellings:contexts']['classes'] if len(c) == 4 for k in c[3]}
            need({'ml', 'f'} <= kinds, 'no string literal was simplified in the spellings:contexts family (%r)' % kinds)

    # ---- comment text ------------------------------------------------------------------------------------------
    fam_sources('comment-text', gen_comment_texts(), [{}, {'indent_before_comments': '', 'max_line_length': 20}], chunk=100)
    if 'comment-text' in D:
        ck.part('comment-text', characters=len(COMMENT_CHARS), comment_places=len(COMMENT_CTX), positions_in_comment=3)
        need(D['comment-text']['ok'] > len(COMMENT_CHARS), 'comment-text: hardly any case judged')

    # ---- (2) long argument lists -----------------------------------------------------------------------------
    if ck.want('longargs'):
        total = empty_summary()
        nsrc = 0
        for L in (20, 40, 80):
            srcs = gen_longargs([L])
            nsrc += len(srcs)
            cfgs = [{'max_line_length': L}, {'max_line_length': L, 'indent_by': '\t'},
                    {'max_line_length': L, 'kwargs_force_multiline': True, 'wide_colon': True},
                    {'max_line_length': L, 'no_single_comma_function': True, 'space_array': True},
                    {'max_line_length': L, 'group_arg_value': True, 'sort_files': True}]
            if T:
                cfgs += [{'max_line_length': L, 'indent_by': '  ', 'insert_final_newline': False},
                         {'max_line_length': L, 'indent_by': '\t', 'tab_width': 8, 'space_array': True, 'wide_colon': True},
                         {'max_line_length': L, 'simplify_string_literals': False, 'indent_before_comments': ''}]
            items = [(srcs[i:i + 50], cfgs) for i in range(0, len(srcs), 50)]
            merge(total, run_items(w_sources, items))
        report(ck, 'longargs', total)
        ck.part('longargs', programs=nsrc)
        D['longargs'] = total
        need(any(c[0] == 'lines+' for c in total['classes']), 'no long argument list was split')
        need(('fixed-point',) in total['classes'] or any(c[0] == 'lines=' for c in total['classes']),
                   'no argument list stayed on one line')

    # ---- (3) configurations ----------------------------------------------------------------------------------
    if ck.want('configs'):
        cfgs = all_configs()
        items = [(QUICK_PROGRAMS, cfgs[i:i + 8]) for i in range(0, len(cfgs), 8)]
        s = run_items(w_sources, items)
        report(ck, 'configs', s)
        # anti-vacuity: every option of the product changes the output of at least one program of the set
        effect = {}
        for o in BOOL_OPTS + ['max_line_length', 'indent_by']:
            base = {'indent_by': '\t', 'max_line_length': 20} if o == 'use_editor_config' else {}
            alt = dict(base)
            alt[o] = {'max_line_length': 20, 'indent_by': '\t'}.get(o, o not in DEFAULT_TRUE)
            n = 0
            for prog in QUICK_PROGRAMS:
                try:
                    n += real_format(prog, base) != real_format(prog, alt)
                except MesonException:
                    pass
            effect[o] = n
        ck.part('configs', configurations=len(cfgs), programs=len(QUICK_PROGRAMS), programs_affected_by_option=effect)
        need(all(v > 0 for v in effect.values()), 'an option of the product never changes any output: %r' % effect)
        D['configs'] = s
    if T and ck.want('configs-pairwise'):
        rows, uncovered = pairwise_configs()
        ck.require(uncovered == 0, 'pairwise covering array incomplete')
        big = [render(t) for _, t in s1] + [render(t) for _, t in s2] + gen_longargs([40])
        items = [(big[i:i + 100], rows) for i in range(0, len(big), 100)]
        s = run_items(w_sources, items)
        report(ck, 'configs-pairwise', s)
        ck.part('configs-pairwise', configurations=len(rows), programs=len(big))
        D['configs-pairwise'] = s

    # ---- (4) corpus ------------------------------------------------------------------------------------------
    if ck.want('corpus'):
        files = corpus_files()
        tot = empty_summary()
        nref = nnoref = 0
        skipped = {}
        for path, how, res in pmap(w_corpus, files, chunksize=4):
            if how in ('ref', 'noref'):
                nref += how == 'ref'
                nnoref += how == 'noref'
                rel = os.path.relpath(path, REPO)
                merge(tot, summarise(('corpus:' + rel, cfg, st, v, cls) for cfg, st, v, cls in res))
            else:
                skipped[how] = skipped.get(how, 0) + 1
        # corpus violations carry the path instead of the text
        for key in sorted(tot['viol']):
            n, ex = tot['viol'][key]
            for what, src, cfg in ex[:2]:
                ck.violation(key, '%s | %s | config %s | %d case(s) in corpus' % (what[:300], src, cfg_key(cfg), n),
                             {'path': src[len('corpus:'):], 'cfg': cfg, 'family': 'corpus'})
        ck.part('corpus', files=len(files), judged_with_reference=nref, judged_with_real_parser_only=nnoref,
                skipped=dict(sorted(skipped.items())), cases=tot['n'], ok=tot['ok'], changed=tot['changed'],
                violation_counts={k: v[0] for k, v in sorted(tot['viol'].items())})
        D['corpus'] = tot
        need(nref > 500, 'corpus: fewer than 500 files judged with the reference parser (%d)' % nref)

    # ---- CLI -------------------------------------------------------------------------------------------------
    if ck.want('cli'):
        items = []
        eols = [None, 'native', 'lf', 'crlf', 'cr']
        others = [{}, {'insert_final_newline': False}] + ([{'indent_by': '\t', 'max_line_length': 20}] if T else [])
        for src in CLI_PROGRAMS:
            for file_nl in ('\n', '\r\n'):
                for eol in eols:
                    for o in others:
                        cfg = dict(o)
                        if eol:
                            cfg['end_of_line'] = eol
                        items.append((len(items), src, file_nl, cfg))
                # end_of_line from an .editorconfig (with and without a configuration file that sets it too)
                for ec in ('lf', 'crlf', 'cr'):
                    for cfg in ({}, {'end_of_line': 'lf'}, {'end_of_line': 'crlf'}):
                        items.append((len(items), src, file_nl, cfg, ec))
        # one rotating program for every configuration of the product (end_of_line included)
        if ck.want('configs'):
            for i, cfg in enumerate(all_configs()):
                if T or i % 4 == ck.seed % 4:
                    items.append((len(items), QUICK_PROGRAMS[i % len(QUICK_PROGRAMS)], '\n', cfg))
        n = rc1 = rc0 = 0
        vc = {}
        skipped = 0
        seen = {'crlf': 0, 'changed': 0, 'unchanged': 0, 'rc1': 0, 'rc0': 0}
        for src, file_nl, cfg, st, viols, info in pmap(w_cli, items, chunksize=8):
            n += 1
            if info:
                seen['crlf'] += info['crlf']
                seen['changed' if info['changed'] else 'unchanged'] += 1
                seen['rc1' if info['rc'] else 'rc0'] += 1
            if st == 'impl_rejects':
                skipped += 1
                continue
            if st == 'ok':
                continue
            for kind, what in viols:
                key = 'C16:cli:' + kind
                vc[key] = vc.get(key, 0) + 1
                if vc[key] <= 2:
                    ck.violation(key, '%s | input %r | config %s' % (what, src, cfg_key(cfg)),
                                 {'src': src, 'cfg': cfg, 'file_nl': file_nl, 'family': 'cli'})
        # several files in one invocation: every arrangement of formatted / unformatted files, 2 and 3 files
        multi = 0
        for k in (2, 3):
            for arr in itertools.product('FU', repeat=k):
                for mode in ('check-only', 'check-diff'):
                    for how in ('list', 'recursive'):
                        multi += 1
                        for kind, what in cli_multi_case(arr, mode, how):
                            key = 'C16:cli:' + kind
                            vc[key] = vc.get(key, 0) + 1
                            if vc[key] <= 2:
                                ck.violation(key, what, {'family': 'cli-multi', 'arr': ''.join(arr), 'mode': mode, 'how': how})
        ck.part('cli', cases=n, real_cli_runs=n * 5 + multi, multi_file_invocations=multi, skipped_impl_rejects=skipped, violation_counts=dict(sorted(vc.items())), **seen)
        need(min(seen.values()) > 0, 'CLI part did not see every outcome: %r' % seen)
        # end_of_line acts only where the text is written (run()): its family is this part - file line ending x every value,
        # from the configuration file and from an .editorconfig, over programs with every kind of trivia that holds a line ending
        eolv = {}
        for it in items:
            v = it[3].get('end_of_line') or (it[4] if len(it) > 4 else None)
            if v:
                eolv[v] = eolv.get(v, 0) + 1
        ck.part('options:end_of_line', family='cli', cases_by_value=dict(sorted(eolv.items())), programs=len(CLI_PROGRAMS),
                outputs_with_crlf=seen['crlf'])
        need({'lf', 'crlf', 'cr', 'native'} <= set(eolv) and seen['crlf'] > 0, 'options: end_of_line: a value was never exercised: %r' % eolv)
        evaluations += n * 5
        classes.add(('cli', 'ok'))
        for k in vc:
            classes.add(('cli', k))

    # ---- totals ----------------------------------------------------------------------------------------------
    feats = {f for name, s in D.items() if name.startswith('trivia:') for c in s['classes'] if len(c) == 4 for f in c[2]}
    if not ck.args.only:
        need({'cont', 'cmt', 'ml', 'files', 'if', 'for'} <= feats, 'trivia families lack a feature: %r' % feats)
    for name, s in D.items():
        evaluations += s['n']
        classes |= {c for c in s['classes'] if c != ('fixed-point',)}
        fixed_points += s['ok'] - s['changed']
        changed += s['changed']
        skipped_unspec += s['skip'].get('unspecified', 0)
    skips = {}
    for s in D.values():
        for k, v in s['skip'].items():
            skips[k] = skips.get(k, 0) + v
    if not ck.args.only:
        need(changed > 1000 and fixed_points > 100, 'formatter never changed / never kept an input (%d/%d)' % (changed, fixed_points))
        for name, tr in D.items():
            if name.startswith('trivia:'):
                need(tr['skip'].get('ref_rejects', 0) == 0,
                           'the legal-trivia generator produced text the reference parser rejects (%s: %r)' % (name, tr['skip']))
    if os.environ.get('C16_DEBUG'):
        print(json.dumps(ck.parts, indent=1, sort_keys=True, default=repr), flush=True)
    if unmet:
        if ck.n_viol == 0:
            ck.require(False, '; '.join(unmet))
        print('note: anti-vacuity conditions not met (violations were found, verdict stands): ' + '; '.join(unmet)[:600], flush=True)
    ck.sample({'trivia variant': next(itertools.islice(variants(skels[0][1], 2, False), 40, None)),
               'formatted': real_format(next(itertools.islice(variants(skels[0][1], 2, False), 40, None)), {})})
    ck.sample({'longargs': gen_longargs([20])[5], 'formatted@20': real_format(gen_longargs([20])[5], {'max_line_length': 20})})
    ck.assume('the reference reading of a program is E6 (verif.reflang), written from Syntax.md; literal simplifications are '
              'accepted exactly when the denoted string value is unchanged')
    ck.assume("a string literal denotes its decoded value (escapes of Syntax.md in '..' and f'..', none in '''..'''); an f-string "
              "additionally denotes the substitution of every @id@ of that decoded value, so f'\\x40a\\x40' substitutes a and may not "
              "lose its f, while f'\\@' may; of the Unicode database only COMMERCIAL AT, APOSTROPHE, REVERSE SOLIDUS and LINE FEED are "
              "read by the reference, any other \\N{name} makes a case unspecified")
    ck.assume('a comment is the text from # to the end of the line (LF); a lone CR inside a comment is not enumerated (line ending '
              'or comment text is not stated), trailing whitespace of a comment is not compared')
    ck.assume('configuration values are the documented types used as documented: indent_by and indent_before_comments are runs of '
              'spaces and tabs ("Indentation to use": anything else is not white space of the language, the text could not mean the '
              'same program), tab_width >= 1, max_line_length >= 0 (0 is what an .editorconfig max_line_length = off becomes)')
    ck.assume('end_of_line has no effect on Formatter.format() (it is applied by the writer in run()); it is exercised through '
              'the configuration files of the product and through the CLI part')
    ck.assume('inputs the reference parser rejects but the real parser accepts are judged only by the real parser itself and '
              'only under C16:illformed:* keys; inputs the real parser rejects are C02\'s business and are skipped')
    ck.finish(evaluations=evaluations, distinct_nontrivial=len(classes), skipped_unspecified=skipped_unspec,
              skipped=dict(sorted(skips.items())), fixed_points=fixed_points, changed_by_formatter=changed,
              rule='every decoration with <= 2 non-default token gaps (legal trivia alphabet per gap kind) of every statement of the '
                   'depth<=2 grammar / statement sequences <= 3 / skeleton set; every string body <= %d over the X4 alphabet in 4 '
                   'quoting forms; every string body <= 3 atoms over {a} + {@, quote, backslash, newline} x {literal, one-letter '
                   'escape, octal, \\x, \\u, \\U, \\N{name}} in 4 quoting forms (+ as single container element under the comma '
                   'options); every Latin-1 / Unicode separator character in a comment x 3 positions x 6 places; every boundary-length argument list; every documented option x the skeletons it acts on x every legal trivia choice in <= 1 gap (<= 2 inside brackets); every configuration of the option product on the quick '
                   'program set; every corpus file x 4 configurations; CLI status vs bytes. Each case = 2 real format runs judged by '
                   'the E6 parser (tree modulo trivia/parentheses/documented simplifications, comment sequence, idempotence). '
                   'distinct_nontrivial = distinct (line-count change, comma change, input features, literal-kind change) classes '
                   'among the cases the formatter changed' % ck.q(3, 4),
              exhaustive=exhaustive)


def replay(ck):
    d = json.load(open(ck.args.replay))
    cfg = d.get('cfg') or {}
    work_dirs()
    if d.get('family') == 'cli-multi':
        viols = cli_multi_case(tuple(d['arr']), d['mode'], d['how'])
        for kind, what in viols:
            print('observed:', kind, what)
        print('still violates' if viols else 'no violation')
        sys.exit(1 if viols else 0)
    if d.get('family') == 'cli':
        cfg = dict(cfg)
        ec = cfg.pop('(editorconfig end_of_line)', None)
        st, viols, _ = cli_case(d['src'], d['file_nl'], cfg, 'replay', ec)
        print('cli case', repr(d['src']), 'file_nl', repr(d['file_nl']), 'config', cfg_key(cfg), 'editorconfig end_of_line', ec)
        print('expected: --check-only/--check-diff exit 1 iff --inplace changes the bytes; observed:', st, viols)
        sys.exit(1 if st == 'viol' else 0)
    if 'path' in d:
        src = open(os.path.join(REPO, d['path']), encoding='utf-8').read()
        try:
            reflang.parse(src)
            ref = True
        except SyntaxFail:
            ref = False
    else:
        src = d['src']
        ref = d.get('ref', True)
    print('input   :', repr(src) if len(src) < 400 else d.get('path'))
    print('config  :', cfg_key(cfg))
    try:
        out = real_format(src, cfg)
        print('output  :', repr(out) if len(out) < 400 else '(%d chars)' % len(out))
        print('2nd pass:', repr(real_format(out, cfg)) if len(out) < 400 else '...')
    except Exception as e:
        print('format raised', type(e).__name__, e)
    st, viols, cls = judge(src, cfg, ref=ref)
    print('expected: same tree (modulo trivia/simplifications), same comments, fixed point; observed:', st)
    for key, what in viols:
        print('  ', key, '-', what[:400])
    sys.exit(1 if st == 'viol' else 0)


run_main(main)
