# C20 - Cargo version requirements and cfg() expressions mean what Cargo says.
# Bounded exhaustive, three parts, the real code executed on every element:
#  req    every single comparator and every comma pair of a comparator set x every version of a grid
#         (releases, pre-releases, build-metadata variants) against a reference Cargo matcher written twice from
#         the semver crate's documentation (field-wise rules and the "equivalent to" bound tables; the two
#         transcriptions must agree on every release, else exit 2) with exactly the two pinned deviations.
#         + the pre-release named by the requirement over the identifier alphabet [0-9A-Za-z-] (case, hyphens, x / X).
#  dep    the object through which the cargo interpreter asks (manifest.Dependency: accepts_version and api are memoised,
#         update_version replaces the requirement): every operation sequence up to a depth bound on a fresh object, every
#         read against the reference matcher for the requirement the object has at that moment.
#  lock   Interpreter._resolve_package / _dep_package on a Cargo.lock with every subset of a version set x every comparator:
#         the most recent version the reference matcher accepts; the dependency pinned to it answers for the pinned requirement.
#  order  all six SemVer operators on every pair of a version set; trichotomy / derived operators / antisymmetry /
#         transitivity over all triples on the recorded matrix; SemVer section 11 reference order on every pair.
#  cfg    every expression up to the depth bound over atoms {a, b, a="x", b=""} x all 16 configurations against a
#         structural evaluator; every single-token deletion / duplication / insertion / replacement of the
#         well-formed ones and every token string up to a length bound: must raise MesonException when malformed.
#         Character level (the structure of an expression does not depend on the white space between its tokens, and a
#         string literal is one token whatever it contains): token gaps - every expression up to the depth bound with
#         every gap filled from {nothing, space, two spaces, tab, newline, CR LF, mixed} under a deviation bound, plus
#         all gaps the same, against the same structural evaluator; piece strings - every concatenation of pieces
#         (names, keywords, punctuation, a lone quote, blank, tab, newline) up to a length bound, read by a reference
#         lexer; literal values - name = "value" for every value over a small character set with separators.
import ast, itertools, json, operator, os, sys, time
from verif.core import Check, pmap, run_main, REPO

from mesonbuild.cargo import cfg as cargo_cfg
from mesonbuild.cargo.version import SemVer, cargo_parse
from mesonbuild.mesonlib import MesonException, version_compare_many

# =====================================================================================================
# Reference: versions and SemVer section 11 order
# =====================================================================================================
# Known-defect models (classifiers only, never the oracle): each flag reproduces one registered defect class so
# that a disagreement which is *exactly* explained by it gets that class's narrow key.
F_NUM1 = 'first-numeric-prerelease-ident-as-string'   # "1.0.0-10": leading identifier kept as a string
F_SPLIT = 'digit-leading-alnum-ident-split'           # "alpha.1a" read as alpha.1.a
F_LEPRE = 'le-prerelease-bound-drops-prerelease'      # "<=I.J.K-pre" treated as "<I.J.(K+1)"
F_LENEXT = 'le-full-version-admits-next-patch-prereleases'   # "<=I.J.K" treated as "<I.J.(K+1)" (admits I.J.(K+1)-pre)
F_STAR = 'empty-requirement-accepts-prerelease'       # "*" / "" accept pre-release versions
FLAGS = [F_LEPRE, F_LENEXT, F_STAR, F_NUM1, F_SPLIT]     # defects still present first: a point explained by several models is filed under the first


K_XWILD = 'C20:req:x-wildcard-not-read-as-wildcard'     # 1.x / 1.2.X / x: the * spelling is right, the x spelling is not


def ident(x):
    return int(x) if x.isdigit() else x


def parse_pre(pre, flags=()):
    if not pre:
        return ()
    ids = [ident(x) for x in pre.split('.')]
    if flags:
        out = []
        for k, x in enumerate(pre.split('.')):
            if k == 0 and F_NUM1 in flags:
                out.append(x)                                    # first identifier always a string
            elif F_SPLIT in flags and k > 0 and x[0].isdigit() and not x.isdigit():
                n = 0
                while x[n].isdigit():
                    n += 1
                out.append(int(x[:n]))
                out.append(x[n:])
            else:
                out.append(ident(x))
        ids = out
    return tuple(ids)


def parse_version(s, flags=()):
    """'I[.J[.K]][-pre][+build]' -> (I, J, K, pre-tuple); missing components are zero (pinned by cargotests)."""
    s = s.split('+', 1)[0]
    core, _, pre = s.partition('-')
    c = [int(x) for x in core.split('.')]
    c += [0] * (3 - len(c))
    return (c[0], c[1], c[2], parse_pre(pre, flags))


def id_cmp(x, y):
    xi, yi = isinstance(x, int), isinstance(y, int)
    if xi != yi:
        return -1 if xi else 1          # numeric identifiers have lower precedence than alphanumeric ones
    return (x > y) - (x < y)            # numerically / ASCII order


def pre_cmp(p, q):
    if not p or not q:
        return (not p) - (not q)        # a release (no pre-release) is above all of its pre-releases
    for x, y in zip(p, q):
        c = id_cmp(x, y)
        if c:
            return c
    return (len(p) > len(q)) - (len(p) < len(q))   # larger set of fields is higher if all preceding are equal


def sem_cmp(a, b):
    if a[:3] != b[:3]:
        return 1 if a[:3] > b[:3] else -1
    return pre_cmp(a[3], b[3])


# =====================================================================================================
# Reference: Cargo comparators
# =====================================================================================================
class Cmp:
    """One comparator: op in ^ ~ = < <= > >= w (wildcard I.* / I.J.*) ; comps = the specified components."""
    __slots__ = ('op', 'comps', 'pre', 'pretext', 'text', 'bare')

    def __init__(self, op, comps, pretext='', text=None, bare=False):
        self.op, self.comps, self.pretext, self.bare = op, tuple(comps), pretext, bare
        self.pre = parse_pre(pretext)
        self.text = text

    def shape(self):
        return 'I.J.K'[:2 * len(self.comps) - 1] + ('-pre' if self.pretext else '')

    def cls(self):
        return ('bare' if self.bare else self.op) + ':' + self.shape()


def struct_match(c, v, flags=()):
    """semver crate, field-wise rules (matches_exact/greater/less/tilde/caret), + the two pinned deviations."""
    op = c.op
    comps = list(c.comps)
    cpre = parse_pre(c.pretext, flags)
    if op in ('=', '>') and len(comps) < 3:
        comps += [0] * (3 - len(comps))                     # deviation 1: partial = / > pad with zero
    if op == '<=' and len(comps) == 3 and (F_LEPRE if c.pretext else F_LENEXT) in flags:
        return sem_cmp(v, (comps[0], comps[1], comps[2] + 1, ())) < 0
    if op == '^' and all(x == 0 for x in comps):            # deviation 2: all-zero caret means < 1.0.0
        full = tuple(comps + [0] * (3 - len(comps))) + (cpre,)
        return v[0] == 0 and sem_cmp(v, full) >= 0
    maj = comps[0]
    mnr = comps[1] if len(comps) > 1 else None
    pat = comps[2] if len(comps) > 2 else None
    M, m, p, vpre = v

    def exact():
        if M != maj:
            return False
        if mnr is not None and m != mnr:
            return False
        if pat is not None and p != pat:
            return False
        return vpre == cpre

    def greater():
        if M != maj:
            return M > maj
        if mnr is None:
            return False
        if m != mnr:
            return m > mnr
        if pat is None:
            return False
        if p != pat:
            return p > pat
        return pre_cmp(vpre, cpre) > 0

    def less():
        if M != maj:
            return M < maj
        if mnr is None:
            return False
        if m != mnr:
            return m < mnr
        if pat is None:
            return False
        if p != pat:
            return p < pat
        return pre_cmp(vpre, cpre) < 0

    if op in ('=', 'w'):
        return exact()
    if op == '>':
        return greater()
    if op == '>=':
        return exact() or greater()
    if op == '<':
        return less()
    if op == '<=':
        return exact() or less()
    if op == '~':
        if M != maj:
            return False
        if mnr is not None and m != mnr:
            return False
        if pat is not None and p != pat:
            return p > pat
        return pre_cmp(vpre, cpre) >= 0
    if op == '^':
        if M != maj:
            return False
        if mnr is None:
            return True
        if pat is None:
            return m >= mnr if maj > 0 else m == mnr
        if maj > 0:
            if m != mnr:
                return m > mnr
            if p != pat:
                return p > pat
        elif mnr > 0:
            if m != mnr:
                return False
            if p != pat:
                return p > pat
        elif m != mnr or p != pat:
            return False
        return pre_cmp(vpre, cpre) >= 0
    raise AssertionError(op)


def bounds_of(c, flags=()):
    """The same comparator as a conjunction of order bounds, from the 'equivalent to' tables of the semver docs."""
    op = c.op
    n = len(c.comps)
    I = c.comps[0]
    J = c.comps[1] if n > 1 else 0
    K = c.comps[2] if n > 2 else 0
    pre = parse_pre(c.pretext, flags)
    full = (I, J, K, pre)
    up = {1: (I + 1, 0, 0, ()), 2: (I, J + 1, 0, ()), 3: (I, J, K + 1, ())}
    if op == '=':
        return [('eq', full)]                               # deviation 1 for partial forms
    if op == '>':
        return [('gt', full)]                               # deviation 1 for partial forms
    if op == '>=':
        return [('ge', full)]
    if op == '<':
        return [('lt', full)]
    if op == '<=':
        if n == 3:
            if (F_LEPRE if c.pretext else F_LENEXT) in flags:
                return [('lt', up[3])]
            return [('le', full)]
        return [('lt', up[n])]
    if op == '~':
        return [('ge', full), ('lt', up[min(n, 2)])]
    if op == 'w':
        return [('ge', full), ('lt', up[n])]
    if op == '^':
        if all(x == 0 for x in c.comps):
            return [('ge', full), ('lt', (1, 0, 0, ()))]    # deviation 2
        if I > 0:
            return [('ge', full), ('lt', up[1])]
        if J > 0:
            return [('ge', full), ('lt', up[2])]
        return [('ge', full), ('lt', up[3])]
    raise AssertionError(op)


REL = {'eq': lambda x: x == 0, 'gt': lambda x: x > 0, 'ge': lambda x: x >= 0, 'lt': lambda x: x < 0, 'le': lambda x: x <= 0}


def bounds_match(c, v, flags=()):
    return all(REL[r](sem_cmp(v, b)) for r, b in bounds_of(c, flags))


def compat(c, v):
    """semver pre_is_compatible: the comparator names a pre-release of exactly this major.minor.patch."""
    return bool(c.pretext) and len(c.comps) == 3 and tuple(c.comps) == v[:3]


def expected(cs, vtext, flags=()):
    """True / False / None (unspecified) for a requirement = list of comparators ([] = '*' or '')."""
    v = parse_version(vtext, flags)
    s = all(struct_match(c, v, flags) for c in cs)
    if not v[3]:
        return s
    if not any(c.pretext for c in cs):
        if not cs and F_STAR in flags:
            return True
        return False                       # a pre-release never satisfies a requirement that names no pre-release
    cargo = s and any(compat(c, v) for c in cs)
    inb = all(bounds_match(c, v, flags) for c in cs)
    if cargo and inb:
        return True                        # Cargo accepts (and cargotests pins this for >=1.0.0-alpha)
    if not cargo and not inb:
        return False                       # outside the bounds by SemVer order and rejected by Cargo
    return None                            # pre-release of another release than the one named (Cargo rejects, inside the
                                           # bounds), or semver's field-wise partial match below the bound ("^1, <1.0.0-beta"
                                           # vs 1.0.0-alpha): not stated by the property


def ref_parse_req(text):
    """Parse the requirement spellings this check generates (and those of cargotests) into comparators."""
    out = []
    text = text.strip()
    if not text:
        return out
    for part in text.split(','):
        part = part.strip()
        if part in ('*', 'x', 'X'):
            continue
        op = None
        for o in ('>=', '<=', '^', '~', '=', '>', '<'):
            if part.startswith(o):
                op, part = o, part[len(o):].strip()
                break
        bare = op is None
        vs, _, pre = part.partition('-')
        comps = vs.split('.')
        if op is None and any(x in ('*', 'x', 'X') for x in comps):
            comps = [x for x in comps if x not in ('*', 'x', 'X')]
            out.append(Cmp('w', [int(x) for x in comps]))
            continue
        out.append(Cmp(op or '^', [int(x) for x in comps], pre, bare=bare))
    return out


def impl_accepts(req):
    """Acceptance the way the real consumer evaluates it (manifest.Dependency.accepts_version / interpreter)."""
    f = cargo_parse(req)
    if callable(f):
        return f
    lst = list(f)                                          # constraint-list convention of other meson versions
    return lambda v: version_compare_many(v, lst)[0]


def classify_req(cs, vtext, got):
    # explained by one registered defect model: with it the point is predicted as observed, or stops being decidable
    for accept in ((got,), (None,)):
        # first the models that predict the observation exactly, only then those under which the point is undecidable
        for n in (1, 2, 3):
            for fls in itertools.combinations(FLAGS, n):
                if expected(cs, vtext, fls) in accept:
                    return 'C20:req:' + fls[0]        # a combination is filed under its first constituent
    v = parse_version(vtext)
    kind = 'prerelease' if v[3] else 'release'
    return 'C20:req:%s:%s:%s' % ('+'.join(sorted({c.cls() for c in cs})) or 'any', kind, 'overaccept' if got else 'overreject')


# ---- the comparator set -------------------------------------------------------------------------------
OPSP = ['', '^', '~', '=', '<', '<=', '>', '>=']


def build_comparators(dom, predom):
    out = []
    partials = [t for n in (1, 2, 3) for t in itertools.product(dom, repeat=n)]
    for sp in OPSP:
        for t in partials:
            out.append(Cmp(sp or '^', t, text=sp + '.'.join(map(str, t)), bare=not sp))
    for t in [t for n in (1, 2) for t in itertools.product(dom, repeat=n)]:
        out.append(Cmp('w', t, text='.'.join(map(str, t)) + '.*'))
    for i in dom:
        out.append(Cmp('w', (i,), text='%d.*.*' % i))
    for sp in OPSP:
        for t, pre in predom:
            out.append(Cmp(sp or '^', t, pre, text=sp + '.'.join(map(str, t)) + '-' + pre, bare=not sp))
    return out


def comparators_of(ck):
    dom = ck.q([0, 1, 2], [0, 1, 2, 3])
    predom = [((1, 0, 0), 'alpha'), ((1, 0, 0), 'alpha.1'), ((1, 0, 0), '1'), ((1, 0, 0), '2'), ((0, 0, 0), 'alpha'),
              ((0, 1, 0), 'beta'), ((1, 2, 0), 'rc.1')]
    return build_comparators(dom, predom)


COMPS = []      # comparators
VERS = []       # version strings
PARSED = []     # reference-parsed versions
SM = []         # per comparator: bitmask over VERS of struct_match
BM = []         # ... bounds_match
CM = []         # ... compat
RELBITS = PREBITS = 0
PAIR_J = []     # indices of comparators used as second element of pairs


def masks_for(cs):
    """(expected-accept mask, specified mask) over VERS for the requirement made of comparator indices cs."""
    s = b = RELBITS | PREBITS
    c = 0
    names = False
    for k in cs:
        s &= SM[k]
        b &= BM[k]
        c |= CM[k]
        names = names or bool(COMPS[k].pretext)
    if (s ^ b) & RELBITS:
        return None
    if not names:
        return s & RELBITS, RELBITS | PREBITS
    acc = s & c & b & PREBITS
    rej = ~b & ~(s & c) & PREBITS
    return (s & RELBITS) | acc, RELBITS | acc | rej


def run_req(text, cs):
    """Real code on every version. Returns (mask, error) ."""
    try:
        f = impl_accepts(text)
    except Exception as e:  # noqa
        return None, 'cargo_parse raised %s: %s' % (type(e).__name__, e)
    m = 0
    for k, v in enumerate(VERS):
        try:
            r = f(v)
        except Exception as e:  # noqa
            return None, 'predicate raised %s on %s: %s' % (type(e).__name__, v, e)
        if r is True:
            m |= 1 << k
        elif r is not False:
            return None, 'predicate returned non-bool %r on %s' % (r, v)
    return m, None


def req_single_worker(i):
    c = COMPS[i]
    res = []
    texts = [c.text]
    for o in ('>=', '<=', '^', '~', '=', '>', '<'):
        if c.text.startswith(o):
            texts.append(o + ' ' + c.text[len(o):])
            texts.append(' ' + c.text + ' ')
            break
    if c.op == 'w':
        texts += [c.text.replace('*', 'x'), c.text.replace('*', 'X')]      # the semver crate's other two wildcard characters
    exp = masks_for([i])
    for t in texts:
        m, err = run_req(t, [i])
        res.append((t, m, err))
    return i, exp, res


def req_pair_worker(i):
    out = []
    evals = skipped = npairs = 0
    acc = rej = 0
    for j in PAIR_J:
        exp = masks_for([i, j])
        sep = ', ' if (i + j) % 2 == 0 else ','
        text = COMPS[i].text + sep + COMPS[j].text
        if exp is None:
            out.append((j, text, 'model', None, None))
            continue
        e, spec = exp
        m, err = run_req(text, [i, j])
        npairs += 1
        if err:
            out.append((j, text, 'error', err, None))
            continue
        evals += bin(spec).count('1')
        skipped += len(VERS) - bin(spec).count('1')
        acc += bin(e & spec).count('1')
        rej += bin(~e & spec).count('1')
        d = (m ^ e) & spec
        if d:
            out.append((j, text, 'diff', d, m))
    return i, npairs, evals, skipped, acc, rej, out


def pinned_cases():
    """(requirement, accepted, rejected) table of unittests/cargotests.py::test_cargo_parse, read with ast."""
    src = open(os.path.join(REPO, 'unittests', 'cargotests.py'), encoding='utf-8').read()
    for node in ast.walk(ast.parse(src)):
        if isinstance(node, ast.FunctionDef) and node.name == 'test_cargo_parse':
            for st in node.body:
                if isinstance(st, ast.AnnAssign) and getattr(st.target, 'id', '') == 'cases':
                    return ast.literal_eval(st.value)
    return []


def part_req(ck, classes):
    global COMPS, VERS, PARSED, SM, BM, CM, RELBITS, PREBITS, PAIR_J
    # ---- the reference model must first agree with the pinned expectations ----
    pinned = pinned_cases()
    ck.require(len(pinned) >= 40, 'could not read the pinned test_cargo_parse table')
    npin = nskip = 0
    for req, accv, rejv in pinned:
        cs = ref_parse_req(req)
        for want, lst in ((True, accv), (False, rejv)):
            for v in lst:
                e = expected(cs, v)
                if e is None:
                    nskip += 1
                    continue
                npin += 1
                ck.require(e is want, 'reference model disagrees with pinned cargotests: %r on %r: model %r, pinned %r' % (req, v, e, want))
    ck.part('pinned_table', cases=len(pinned), points_agreeing=npin, points_unspecified=nskip)

    COMPS = comparators_of(ck)
    vdom = ck.q([0, 1, 2, 3], [0, 1, 2, 3, 4])
    rel = ['%d.%d.%d' % t for t in itertools.product(vdom, repeat=3)]
    rel += ['1', '1.0', '0', '0.1', '2.1', '3', '1.0.0+build.5', '1.2.0+a-b.7', '0.0.0+0']
    prev = ['1.0.0-alpha', '1.0.0-alpha.1', '1.0.0-alpha.beta', '1.0.0-beta', '1.0.0-rc.1', '1.0.0-0', '1.0.0-1', '1.0.0-2',
            '1.0.0-10', '0.0.0-alpha', '0.0.0-a', '0.1.0-alpha', '0.1.0-beta', '0.1.0-rc', '1.2.0-rc.1', '1.2.0-rc.2', '1.2.0-alpha',
            '1.0.1-alpha', '1.1.0-alpha', '2.0.0-alpha', '0.0.1-alpha', '3.0.0-1', '1.0.0-alpha+b.1', '2.0-pre1']
    VERS = rel + prev
    PARSED = [parse_version(v) for v in VERS]
    RELBITS = (1 << len(rel)) - 1
    PREBITS = ((1 << len(VERS)) - 1) ^ RELBITS
    for k, p in enumerate(PARSED):
        ck.require(bool(p[3]) == bool((PREBITS >> k) & 1), 'version partition')
    SM, BM, CM = [], [], []
    for c in COMPS:
        s = b = m = 0
        for k, p in enumerate(PARSED):
            if struct_match(c, p):
                s |= 1 << k
            if bounds_match(c, p):
                b |= 1 << k
            if compat(c, p):
                m |= 1 << k
        ck.require(not ((s ^ b) & RELBITS), 'the two transcriptions of the Cargo rules disagree on a release for %s' % c.text)
        SM.append(s)
        BM.append(b)
        CM.append(m)

    viol_calls = {}

    def report(cs_idx, text, d, m, key_override=None):
        cs = [COMPS[k] for k in cs_idx]
        while d:
            low = d & -d
            k = low.bit_length() - 1
            d ^= low
            got = bool((m >> k) & 1)
            key = key_override or classify_req(cs, VERS[k], got)
            viol_calls[key] = viol_calls.get(key, 0) + 1
            if viol_calls[key] <= 40:
                ck.violation(key, 'cargo_parse(%r)(%r) = %r, Cargo rule says %r' % (text, VERS[k], got, not got),
                             {'kind': 'req', 'req': text, 'version': VERS[k], 'observed': got, 'expected': not got})
            else:
                if any(kf['key'] == key and kf.get('status') == 'known' for kf in ck.known):
                    ck.add('known_finding_points_beyond_listing_cap')
                else:
                    ck.add('violation_points_beyond_listing_cap')
                    ck.n_viol += 1

    # ---- singles (every comparator, with spacing variants) + the empty requirement and '*' ----
    evals = skipped = nreq = nxw = 0
    pre_rejected = pre_accepted = 0
    star_ok = True
    for text in ('', '*', ' * ', 'x', 'X'):
        m, err = run_req(text, [])
        nreq += 1
        if err:
            ck.violation(K_XWILD if text in ('x', 'X') else 'C20:req:exception', '%r: %s' % (text, err), {'kind': 'req', 'req': text, 'version': VERS[0]})
            continue
        e = RELBITS
        evals += len(VERS)
        d = m ^ e
        if d:
            report([], text, d, m, K_XWILD if text in ('x', 'X') and star_ok else None)
            star_ok = star_ok and text in ('x', 'X')
        classes.add(('req', 'any', True))
        classes.add(('req', 'any-prerelease', False))
    for i, exp, res in pmap(req_single_worker, range(len(COMPS)), chunksize=4):
        ck.require(exp is not None, 'model self-check failed for %s' % COMPS[i].text)
        e, spec = exp
        star_ok = True
        for text, m, err in res:
            nreq += 1
            xw = COMPS[i].op == 'w' and text != COMPS[i].text and star_ok      # x / X spelling of a wildcard whose * spelling is right
            nxw += COMPS[i].op == 'w' and text != COMPS[i].text
            if err:
                ck.violation(K_XWILD if xw else 'C20:req:exception', '%r: %s' % (text, err), {'kind': 'req', 'req': text, 'version': VERS[0]})
                continue
            evals += bin(spec).count('1')
            skipped += len(VERS) - bin(spec).count('1')
            d = (m ^ e) & spec
            if d:
                report([i], text, d, m, K_XWILD if xw else None)
                star_ok = star_ok and text != COMPS[i].text
        c = COMPS[i]
        classes.add(('req', c.cls(), 'accepts-some' if e & RELBITS else 'accepts-none'))
        pre_accepted += bin(e & spec & PREBITS).count('1')
        pre_rejected += bin(~e & spec & PREBITS).count('1')
    ck.require(nxw >= 20, 'x / X wildcard spellings not generated')
    ck.part('req_singles', comparators=len(COMPS), requirement_strings=nreq, x_wildcard_spellings=nxw + 2, versions=len(VERS), releases=len(rel),
            prereleases=len(prev), evaluations=evals, skipped_unspecified=skipped,
            prerelease_points_expected_accept=pre_accepted, prerelease_points_expected_reject=pre_rejected)
    ck.sample({'req': COMPS[40].text, 'accepted': [VERS[k] for k in range(len(VERS)) if (SM[40] >> k) & 1][:6]})
    ck.require(pre_accepted > 20 and pre_rejected > 1000, 'pre-release branch not exercised')
    total = evals
    total_skipped = skipped

    # ---- comma pairs ----
    PAIR_J = list(range(len(COMPS)))
    pi = list(range(len(COMPS)))
    pe = ps = pn = pacc = prej = 0
    for i, npairs, ev, sk, acc, rej, out in pmap(req_pair_worker, pi, chunksize=2):
        pn += npairs
        pe += ev
        ps += sk
        pacc += acc
        prej += rej
        for j, text, what, d, m in out:
            if what == 'model':
                ck.internal('model self-check failed for pair %r' % text)
            elif what == 'error':
                ck.violation('C20:req:exception', '%r: %s' % (text, d), {'kind': 'req', 'req': text, 'version': VERS[0]})
            else:
                report([i, j], text, d, m)
    classes.add(('pair', 'accept', pacc > 0))
    classes.add(('pair', 'reject', prej > 0))
    ck.part('req_pairs', pairs=pn, evaluations=pe, skipped_unspecified=ps, points_expected_accept=pacc,
            points_expected_reject=prej, bare_star_in_list='not enumerated (semver rejects "*" combined with other comparators)')
    ck.require(pacc > 1000 and prej > 1000, 'pair grid degenerate')
    total += pe
    total_skipped += ps

    # ---- multi-digit components (singles) ----
    md = build_comparators([2, 10], [((10, 2, 0), 'alpha')])
    mdv = ['%d.%d.%d' % t for t in itertools.product([1, 2, 3, 9, 10, 11], repeat=3)] + ['10.2.0-alpha', '10.2.0-beta', '2.10.0-alpha']
    me = 0
    saveV = VERS
    VERS = mdv
    for c in md:
        m, err = run_req(c.text, None)
        if err:
            ck.violation('C20:req:exception', '%r: %s' % (c.text, err), {'kind': 'req', 'req': c.text, 'version': mdv[0]})
            continue
        for k, v in enumerate(mdv):
            e = expected([c], v)
            if e is None:
                total_skipped += 1
                continue
            me += 1
            got = bool((m >> k) & 1)
            if got is not e:
                key = classify_req([c], v, got)
                viol_calls[key] = viol_calls.get(key, 0) + 1
                if viol_calls[key] <= 40:
                    ck.violation(key, 'cargo_parse(%r)(%r) = %r, Cargo rule says %r' % (c.text, v, got, e),
                                 {'kind': 'req', 'req': c.text, 'version': v, 'observed': got, 'expected': e})
    VERS = saveV
    ck.part('req_multidigit', comparators=len(md), versions=len(mdv), evaluations=me)
    total += me

    # ---- the pre-release a requirement names, over the SemVer identifier alphabet [0-9A-Za-z-] ----
    global PI_PRES, PI_TRIPLES, PI_VERS
    PI_PRES = prerelease_texts(ck.q(False, True))
    PI_TRIPLES = [(1, 2, 3), (0, 0, 3)]
    PI_VERS = [pi_versions(t) for t in PI_TRIPLES]
    ck.require(len(set(PI_PRES)) == len(PI_PRES), 'pre-release texts not distinct')
    st = dict.fromkeys(('requirements', 'evaluations', 'skipped_unspecified', 'expected_accept', 'expected_reject', 'same_but_for_case_points',
                        'same_but_for_case_expected_accept', 'bare_requirements_ending_in_x_identifier'), 0)
    pi_jobs = [('single', ti, k) for ti in range(len(PI_TRIPLES)) for k in range(len(PI_PRES))] + [('pair', 0, k) for k in range(len(PI_PRES))]
    for job, s, diffs in pmap(pi_worker, pi_jobs, chunksize=2):
        for k2, n in s.items():
            st[k2] += n
        for text, v, got, e, err in diffs:
            if err:
                ck.violation('C20:req:exception', '%r: %s' % (text, err), {'kind': 'req', 'req': text, 'version': v})
                continue
            cs = ref_parse_req(text)
            key = classify_xpre(cs, v, got) or classify_req(cs, v, got)
            viol_calls[key] = viol_calls.get(key, 0) + 1
            if viol_calls[key] <= 40:
                ck.violation(key, 'cargo_parse(%r)(%r) = %r, Cargo rule says %r' % (text, v, got, e),
                             {'kind': 'req', 'req': text, 'version': v, 'observed': got, 'expected': e})
            elif any(kf['key'] == key and kf.get('status') == 'known' for kf in ck.known):
                ck.add('known_finding_points_beyond_listing_cap')
            else:
                ck.add('violation_points_beyond_listing_cap')
                ck.n_viol += 1
    upper = sum(1 for p in PI_PRES if p != p.lower())
    hyph = sum(1 for p in PI_PRES if '-' in p)
    classes.add(('req-pre-ident', 'accept', st['expected_accept'] > 0))
    classes.add(('req-pre-ident', 'reject', st['expected_reject'] > 0))
    ck.part('req_prerelease_identifiers', prerelease_texts=len(PI_PRES), with_upper_case=upper, with_hyphen=hyph,
            triples=['%d.%d.%d' % t for t in PI_TRIPLES], operators=len(OPSP), versions_per_triple=len(PI_VERS[0]),
            range_pairs=2 * len(PI_PRES) ** 2, **st)
    ck.sample({'req': '>=1.2.3-RC, <1.2.3-rc', 'accepted': [v for v in PI_VERS[0] if expected(ref_parse_req('>=1.2.3-RC, <1.2.3-rc'), v)][:8]})
    ck.require(upper >= 10 and hyph >= 3, 'upper-case / hyphenated pre-release identifiers not generated')
    ck.require(st['same_but_for_case_points'] > 500 and st['same_but_for_case_expected_accept'] > 50 and
               st['expected_accept'] > 5000 and st['expected_reject'] > 5000, 'pre-release identifier family degenerate')
    total += st['evaluations']
    total_skipped += st['skipped_unspecified']
    return total, total_skipped


# ---- the pre-release named by a requirement ------------------------------------------------------------
# A comparator I.J.K-<pre> carries a SemVer pre-release: dot-separated identifiers over [0-9A-Za-z-], compared as written
# (numeric ones numerically, the others in ASCII order, so RC < Z < alpha < rc).  The grid above names seven lower-case
# pre-releases; here every operator x every pre-release of a set that covers the identifier alphabet (numeric, upper, lower and
# mixed case, hyphens, a digit-leading alphanumeric, the letters x / X which are wildcards only in place of a *component*),
# alone and as the first / second of two identifiers, x every version of the same major.minor.patch carrying a pre-release of
# the same set (+ the neighbouring releases, a pre-release of the next patch, build metadata), and every range
# ">=T-a, <T-b" / ">T-a, <=T-b".
K_XPRE = 'C20:req:prerelease-identifier-x-read-as-wildcard'    # bare "1.0.0-beta.x": the trailing identifier x taken for a wildcard component
PI_PRES = []
PI_TRIPLES = []
PI_VERS = []
PI_RANGES = [('>=', '<'), ('>', '<=')]


def prerelease_texts(thorough):
    one = ['0', '1', '2', '10', 'A', 'RC', 'Z', 'a', 'rc', 'z', 'alpha', 'Beta', 'beta', 'Rc', 'rC', '1a', '1A', 'a1', 'a-b', 'A-b', '-', 'rc-1',
           'x', 'X']
    first = ['1', 'RC', 'rc', 'x'] + (['alpha', 'Beta', 'X', 'a-b'] if thorough else [])
    second = ['1', '10', 'RC', 'rc', 'x', 'X'] + (['0', '2', 'a-b', 'Rc'] if thorough else [])
    return one + [a + '.' + b for a in first for b in second]


def pi_versions(t):
    i, j, k = t
    core = '%d.%d.%d' % t
    nxt = '%d.%d.%d' % (i, j, k + 1)
    out = [core + '-' + p for p in PI_PRES]
    out += [core, nxt, '%d.%d.%d' % (i, j, k - 1), '%d.%d.0' % (i, j + 1), '%d.0.0' % (i + 1), '0.0.0',
            nxt + '-RC', nxt + '-rc', '%d.%d.%d-RC' % (i, j, k - 1), core + '-RC+B.1', core + '-rc+b.1', core + '+RC']
    return out


def classify_xpre(cs, vtext, got):
    """The observation is what results when a bare comparator whose last pre-release identifier is x / X is read as a wildcard."""
    alt, hit = [], False
    for c in cs:
        ids = c.pretext.split('.') if c.pretext else []
        if c.bare and len(ids) > 1 and ids[-1] in ('x', 'X'):
            while len(ids) > 1 and ids[-1] in ('x', 'X'):
                ids.pop()
            alt.append(Cmp('~', c.comps, '.'.join(ids)))
            hit = True
        else:
            alt.append(c)
    if hit and expected(alt, vtext) in (got, None):
        return K_XPRE
    return None


def pi_worker(job):
    what, ti, k = job
    core = '%d.%d.%d' % PI_TRIPLES[ti]
    vers = PI_VERS[ti]
    a = PI_PRES[k]
    if what == 'single':
        reqs = [sp + core + '-' + a for sp in OPSP]
    else:
        reqs = ['%s%s-%s, %s%s-%s' % (lo, core, a, hi, core, b) for b in PI_PRES for lo, hi in PI_RANGES]
    st = dict.fromkeys(('requirements', 'evaluations', 'skipped_unspecified', 'expected_accept', 'expected_reject', 'same_but_for_case_points',
                        'same_but_for_case_expected_accept', 'bare_requirements_ending_in_x_identifier'), 0)
    diffs = []
    for text in reqs:
        cs = ref_parse_req(text)
        st['requirements'] += 1
        if any(c.bare and c.pretext.endswith(('.x', '.X')) for c in cs):
            st['bare_requirements_ending_in_x_identifier'] += 1
        try:
            f = impl_accepts(text)
        except Exception as e:  # noqa
            diffs.append((text, vers[0], None, None, 'cargo_parse raised %s: %s' % (type(e).__name__, e)))
            continue
        named = [c.pretext for c in cs]
        for v in vers:
            e = expected(cs, v)
            if e is None:
                st['skipped_unspecified'] += 1
                continue
            st['evaluations'] += 1
            st['expected_accept' if e else 'expected_reject'] += 1
            vpre = v.split('+', 1)[0].partition('-')[2]
            if any(p != vpre and p.lower() == vpre.lower() for p in named):
                st['same_but_for_case_points'] += 1
                st['same_but_for_case_expected_accept'] += e
            try:
                got = f(v)
            except Exception as ex:  # noqa
                diffs.append((text, v, None, None, 'predicate raised %s on %s: %s' % (type(ex).__name__, v, ex)))
                break
            if got is not e:
                diffs.append((text, v, got, e, None if got is True or got is False else 'predicate returned non-bool %r on %s' % (got, v)))
    return job, st, diffs


# =====================================================================================================
# Part 1b: the objects through which meson asks (explicit state)
# =====================================================================================================
# cargo_parse(req)(version) is not what the cargo interpreter calls: it asks manifest.Dependency.accepts_version (a value
# memoised on the object, like Dependency.api) and replaces the requirement of a live object with update_version()
# ('=<locked version>' after a look at Cargo.lock).  "Acceptance equals Cargo's rule" holds for the requirement the object
# has NOW, whatever was read from it before.
#  dep   every operation sequence up to the depth bound over {read accepts_version (on a version list), read api,
#        update_version(r) for every r of a requirement set} x every initial requirement x every way the manifest loader
#        builds the object (string, table, inherited from the workspace as a table / a string, no version at all), each
#        on a fresh object; every read compared with the reference matcher for the current requirement (api: with the
#        rule documented in version.api for these requirements, and with what a fresh object of that requirement says).
#  lock  Interpreter._resolve_package / _dep_package on a Cargo.lock (read by the real loader) holding every non-empty
#        subset of a version set, in several file orders, x every comparator: "the most recent satisfying the constraints"
#        = the highest version in SemVer order that the reference matcher accepts; after _dep_package the dependency is
#        pinned to that version and answers for the pinned requirement; a second visit changes nothing.
DEP_REQS = ['1.2', '~1.2', '>=1.0, <1.4', '=1.2.3', '=1.3.0', '0.3', '*', '^1.0.0-alpha']
DEP_VERS = ['0.3.1', '0.4.0', '1.0.0', '1.2.0', '1.2.3', '1.3.0', '1.3.9', '1.4.0', '2.0.0', '1.0.0-alpha', '1.2.3-rc.1', '1.0.0-alpha.1']
DEP_API = {'1.2': '1', '~1.2': '1', '>=1.0, <1.4': '1', '=1.2.3': '1', '=1.3.0': '1', '0.3': '0.3', '*': '', '^1.0.0-alpha': '1', '': ''}
DEP_FORMS = ['string', 'table', 'workspace-table', 'workspace-string']
K_STALE = 'C20:dep:accepts-version-answers-for-an-earlier-requirement'
K_STALE_API = 'C20:dep:api-answers-for-an-earlier-requirement'
DEP_EXP = {}          # requirement -> (expected-accept mask, specified mask) over DEP_VERS
DEP_R = []            # the requirement set of this tier
DEP_DEPTH = 0


_REF_MASKS = {}


def ref_masks(req, vers):
    k = (req, tuple(vers))
    if k not in _REF_MASKS:
        _REF_MASKS[k] = _ref_masks(req, vers)
    return _REF_MASKS[k]


def _ref_masks(req, vers):
    cs = ref_parse_req(req)
    e = spec = 0
    for k, v in enumerate(vers):
        x = expected(cs, v)
        if x is not None:
            spec |= 1 << k
            if x:
                e |= 1 << k
    return e, spec


def make_dep(form, req):
    """A Dependency the way Manifest.from_raw makes it: Dependency.from_raw(name, raw value, member path, workspace)."""
    from mesonbuild.cargo.manifest import Dependency, Workspace
    if form == 'string':
        return Dependency.from_raw('foo', req)
    if form == 'table':
        return Dependency.from_raw('foo', {'version': req, 'features': ['f']})
    if form == 'workspace-table':
        return Dependency.from_raw('foo', {'workspace': True}, '', Workspace(dependencies={'foo': {'version': req}}))
    if form == 'workspace-string':
        return Dependency.from_raw('foo', {'workspace': True, 'optional': True}, '', Workspace(dependencies={'foo': req}))
    if form == 'unversioned':
        return Dependency.from_raw('foo', {'path': '../foo'})
    raise AssertionError(form)


def dep_read_accepts(dep, vers):
    """-> (mask, None) | (None, error)"""
    try:
        f = dep.accepts_version
    except Exception as e:  # noqa
        return None, 'accepts_version raised %s: %s' % (type(e).__name__, e)
    m = 0
    for k, v in enumerate(vers):
        try:
            r = f(v)
        except Exception as e:  # noqa
            return None, 'accepts_version(%r) raised %s: %s' % (v, type(e).__name__, e)
        if r is True:
            m |= 1 << k
        elif r is not False:
            return None, 'accepts_version(%r) returned non-bool %r' % (v, r)
    return m, None


def dep_read_api(dep):
    try:
        return ('val', dep.api)
    except MesonException:
        return ('raise', None)
    except Exception as e:  # noqa
        return ('exc', type(e).__name__)


def dep_accepts_key(cur, earlier, m, vers):
    """Class of a wrong accepts_version answer m for requirement cur (earlier = the requirements the object had before)."""
    e, spec = ref_masks(cur, vers)
    for old in earlier:
        eo, so = ref_masks(old, vers)
        if old != cur and (eo ^ e) & spec & so and not (m ^ eo) & so:
            return K_STALE                                  # exactly what an earlier requirement of this object accepts
    try:
        f = impl_accepts(cur)
        for k, v in enumerate(vers):
            if (spec >> k) & 1 and f(v) is not bool((e >> k) & 1):
                return classify_req(ref_parse_req(cur), v, f(v))      # the matcher itself is wrong: the req family's class
        # (classifier only) the answers are those cargo_parse gives for an earlier requirement, also on its unspecified points
        mc = sum(1 << k for k, v in enumerate(vers) if f(v))
        for old in earlier:
            g = impl_accepts(old)
            if m != mc and m == sum(1 << k for k, v in enumerate(vers) if g(v)):
                return K_STALE
    except Exception:  # noqa
        pass
    return 'C20:dep:accepts-version-differs-from-cargo-parse'


def dep_run(form, r0, ops, vers=None):
    """One history on a fresh object.  -> (list of (step, key, text), stats dict, log)"""
    vers = vers or DEP_VERS
    dep = make_dep(form, r0)
    cur, earlier = r0, []
    cached = [False, False]                      # what has been read since the last update: [accepts_version, api]
    at_update = None
    bad, log = [], []
    st = {'ops': 0, 'reads_accepts': 0, 'reads_api': 0, 'updates': 0, 'evaluations': 0, 'skipped': 0}
    for step, op in enumerate(ops):
        st['ops'] += 1
        if op[0] == 'upd':
            at_update = (cached[0], cached[1]) if op[1] != cur else at_update
            dep.update_version(op[1])
            if op[1] != cur:
                earlier.append(cur)
            cur = op[1]
            cached = [False, False]
            st['updates'] += 1
            log.append('update_version(%r)' % cur)
            if dep.version != cur:
                bad.append((step, 'C20:dep:update-version-not-stored', 'version is %r after update_version(%r)' % (dep.version, cur)))
        elif op[0] == 'acc':
            e, spec = ref_masks(cur, vers) if vers is not DEP_VERS or cur not in DEP_EXP else DEP_EXP[cur]
            m, err = dep_read_accepts(dep, vers)
            st['reads_accepts'] += 1
            cached[0] = True
            if at_update is not None:
                st['accepts_after_update:%s' % ('matcher+api' if all(at_update) else 'matcher-only' if at_update[0] else
                                                'api-only' if at_update[1] else 'nothing-read')] = 1
            if err:
                bad.append((step, 'C20:dep:exception', 'requirement %r: %s' % (cur, err)))
                log.append('accepts_version: ' + err)
                continue
            n = bin(spec).count('1')
            st['evaluations'] += n
            st['skipped'] += len(vers) - n
            d = (m ^ e) & spec
            log.append('accepts_version accepts %s; Cargo rule for %r: %s' % ([v for k, v in enumerate(vers) if (m >> k) & 1], cur,
                                                                             [v for k, v in enumerate(vers) if (e >> k) & 1]))
            if d:
                k = (d & -d).bit_length() - 1
                bad.append((step, dep_accepts_key(cur, earlier, m, vers),
                            'requirement %r now %r: accepts_version(%r) = %r, Cargo rule says %r' % (r0, cur, vers[k], bool((m >> k) & 1),
                                                                                                    bool((e >> k) & 1))))
        else:
            r = dep_read_api(dep)
            st['reads_api'] += 1
            st['evaluations'] += 1
            cached[1] = True
            log.append('api = %r' % (r,))
            want = DEP_API.get(cur)
            fresh = dep_read_api(make_dep('string', cur)) if cur else dep_read_api(make_dep('unversioned', ''))
            if r[0] == 'exc':
                bad.append((step, 'C20:dep:api-raises-' + r[1], 'requirement %r now %r: reading api raises %s' % (r0, cur, r[1])))
            elif want is not None and r != ('val', want):
                stale = any(DEP_API.get(o) not in (None, want) and r == ('val', DEP_API[o]) for o in earlier)
                bad.append((step, K_STALE_API if stale and fresh == ('val', want) else 'C20:dep:api',
                            'requirement %r now %r: api = %r, documented rule says %r' % (r0, cur, r, want)))
            elif r != fresh:
                bad.append((step, 'C20:dep:api-depends-on-history', 'requirement %r now %r: api = %r, on a fresh object %r' % (r0, cur, r, fresh)))
    return bad, st, log


def dep_worker(arg):
    form, r0, first = arg
    ops_all = [('acc',), ('api',)] + [('upd', r) for r in DEP_R]
    tot = {}
    out, cnt = [], {}
    nseq = 0
    if first is None:
        seqs = [()]
    else:
        seqs = ((first,) + rest for n in range(DEP_DEPTH) for rest in itertools.product(ops_all, repeat=n))
    for ops in seqs:
        nseq += 1
        bad, st, _ = dep_run(form, r0, ops)
        for k, v in st.items():
            tot[k] = tot.get(k, 0) + v
        for step, key, text in bad:
            cnt[key] = cnt.get(key, 0) + 1
            if cnt[key] <= 3:
                out.append((key, text, [list(o) for o in ops[:step + 1]]))
            break                                              # the first wrong step of a history; the rest follows from it
    tot['histories'] = nseq
    return form, r0, out, cnt, tot


def report_family(ck, listed, key, what, replay, n=1):
    """n points of class key; list at most 12 of a class, count the rest."""
    listed[key] = listed.get(key, 0) + 1
    if listed[key] <= 12:
        ck.violation(key, what, replay)
        n -= 1
    if n > 0:
        if any(kf['key'] == key and kf.get('status') == 'known' for kf in ck.known):
            ck.add('known_finding_points_beyond_listing_cap', n)
        else:
            ck.n_viol += n


def part_dep(ck, classes):
    global DEP_R, DEP_DEPTH
    DEP_R = DEP_REQS[:ck.q(6, 8)]
    DEP_DEPTH = ck.q(4, 5)
    for r in DEP_R + ['']:
        DEP_EXP[r] = ref_masks(r, DEP_VERS)
        ck.require(r in DEP_API, 'no documented api for %r' % r)
    for a, b in itertools.combinations(DEP_R + [''], 2):
        if (a, b) == ('*', ''):
            continue                                 # the same requirement in two spellings
        (ea, sa), (eb, sb) = DEP_EXP[a], DEP_EXP[b]
        ck.require((ea ^ eb) & sa & sb, 'requirements %r and %r accept the same versions of the list: a stale matcher would not show' % (a, b))
    ops_all = [('acc',), ('api',)] + [('upd', r) for r in DEP_R]
    starts = [(f, r) for f in DEP_FORMS for r in DEP_R] + [('unversioned', '')]
    items = [(f, r, first) for f, r in starts for first in [None] + ops_all]
    tot, listed = {}, {}
    for form, r0, out, cnt, st in pmap(dep_worker, items, chunksize=2):
        for k, v in st.items():
            tot[k] = tot.get(k, 0) + v
        nl = {}
        for key, text, ops in out:
            nl[key] = nl.get(key, 0) + 1
            report_family(ck, listed, key, '%s dependency, after %s: %s' % (form, ' ; '.join(o[0] if len(o) == 1 else 'update_version(%r)' % o[1]
                                                                                             for o in ops), text),
                          {'kind': 'dep', 'form': form, 'initial': r0, 'ops': ops})
        for key, n in cnt.items():
            if n > nl.get(key, 0):
                report_family(ck, {key: 10 ** 9}, key, '', {}, n - nl.get(key, 0))
    # every comparator on a fresh object: the two memoised values can be read at all (api: a value or a MesonException)
    nfresh = 0
    for c in (COMPS or comparators_of(ck)):
        for form in ('string', 'workspace-table'):
            dep = make_dep(form, c.text)
            nfresh += 1
            r = dep_read_api(dep)
            if r[0] == 'exc':
                report_family(ck, listed, 'C20:dep:api-raises-' + r[1], '%s dependency with requirement %r: reading api raises %s' % (form, c.text, r[1]),
                              {'kind': 'dep', 'form': form, 'initial': c.text, 'ops': [['api']]})
            m, err = dep_read_accepts(dep, DEP_VERS[:1])
            if err:
                report_family(ck, listed, 'C20:dep:exception', '%s dependency with requirement %r: %s' % (form, c.text, err),
                              {'kind': 'dep', 'form': form, 'initial': c.text, 'ops': [['acc']]})
    ck.part('dep_histories', fresh_objects_every_comparator=nfresh)
    states = {k[len('accepts_after_update:'):]: v for k, v in tot.items() if k.startswith('accepts_after_update:')}
    ck.part('dep_histories', requirements=DEP_R, versions=len(DEP_VERS), forms=DEP_FORMS + ['unversioned'], depth=DEP_DEPTH,
            operations=len(ops_all), histories=tot['histories'], operations_run=tot['ops'], reads_accepts_version=tot['reads_accepts'],
            reads_api=tot['reads_api'], updates=tot['updates'], evaluations=tot['evaluations'], skipped_unspecified=tot['skipped'],
            histories_reading_accepts_after_an_update_by_what_was_read_before_it=states, wall_s=round(time.time() - ck.t0, 1))
    ck.require(all(states.get(k, 0) > 0 for k in ('nothing-read', 'matcher-only', 'api-only', 'matcher+api')),
               'a cache state before update_version is never followed by a read: %r' % states)
    ck.require(tot['histories'] == len(starts) * sum(len(ops_all) ** n for n in range(DEP_DEPTH + 1)), 'history count')
    for k, v in states.items():
        classes.add(('dep', k, v > 0))
    ck.sample({'dep_history': ['1.2', 'accepts_version', "update_version('=1.2.3')", 'accepts_version'],
               'expected_accepts': [v for k, v in enumerate(DEP_VERS) if (DEP_EXP['=1.2.3'][0] >> k) & 1]})
    return tot['evaluations'], tot['skipped']


# ---- Cargo.lock: the most recent version satisfying the requirement ------------------------------------------------
LOCK_VERS = ['0.1.2', '1.0.0-alpha', '1.0.0', '1.2.1', '1.9.0', '1.10.0', '2.0.0', '0.0.1', '2.0.0-alpha']     # ascending for the first 7
LOCK_N = 0
LOCK_ORDERS = 3       # file orders of a version subset: ascending, descending, rotated
LOCK_REQS = []        # (text, accept mask, specified mask over LOCK_VERS[:LOCK_N])
LOCK_RANK = []        # LOCK_RANK[k] = position of LOCK_VERS[k] in SemVer order
LOCK_DIR = None
FOREIGN = '7.7.7'     # version of the package that the (stub) package table returns


class _Packages(dict):
    """Interpreter.packages with every (name, api) present: what is fetched for a key is not what this check looks at."""
    def get(self, key, default=None):
        import types
        if key not in self:                  # one package whatever the api: the same crate is behind every key
            self[key] = self.setdefault(None, types.SimpleNamespace(manifest=types.SimpleNamespace(package=types.SimpleNamespace(name='foo', version=FOREIGN))))
        return self[key]


def write_lock(path, order):
    """Cargo.lock as cargo writes it: the crate under test and another crate that has every version."""
    out = ['# This file is automatically @generated by Cargo.', 'version = 3', '']
    for name, vs in (('bar', range(LOCK_N)), ('foo', order)):
        for k in vs:
            out += ['[[package]]', 'name = "%s"' % name, 'version = "%s"' % LOCK_VERS[k],
                    'source = "registry+https://github.com/rust-lang/crates.io-index"', 'checksum = "%064x"' % (k + 1), '']
    with open(path, 'w') as f:
        f.write('\n'.join(out))


def lock_orders(sub):
    asc = sorted(sub, key=lambda k: LOCK_RANK[k])
    res = [asc, asc[::-1], asc[1:] + asc[:1]][:LOCK_ORDERS]
    out = []
    for o in res:
        if o not in out:
            out.append(o)
    return out


def best_of(sub_mask, acc):
    ks = [k for k in range(LOCK_N) if ((sub_mask & acc) >> k) & 1]
    return max(ks, key=lambda k: LOCK_RANK[k]) if ks else None


_DIRECT = {}         # requirement -> mask over the lock versions of cargo_parse(requirement) asked directly (per process)


def lock_case(interp, order, text, acc, spec):
    """One requirement against one loaded Cargo.lock.  -> [(key, what)], evaluations, log"""
    from mesonbuild.cargo.interpreter import PackageConfiguration
    from mesonbuild.mesonlib import MachineChoice
    vers = LOCK_VERS[:LOCK_N]
    sub = sum(1 << k for k in order)
    bad, log = [], []
    pick = best_of(sub, acc)
    want = vers[pick] if pick is not None else None
    # the matcher itself on the versions of this lock (a wrong answer here is the req family's finding, not a new one)
    if text not in _DIRECT:
        f = impl_accepts(text)
        _DIRECT[text] = sum(1 << k for k, v in enumerate(vers) if f(v))
    d = (_DIRECT[text] ^ acc) & sub
    if d:
        k = (d & -d).bit_length() - 1
        got = bool((_DIRECT[text] >> k) & 1)
        return [(classify_req(ref_parse_req(text), vers[k], got), 'cargo_parse(%r)(%r) = %r' % (text, vers[k], got))], 1, log
    # 1. _resolve_package with the matcher of a dependency object
    dep = make_dep('string', text) if text else make_dep('unversioned', '')
    got = interp._resolve_package('foo', dep.accepts_version)
    gv = got.version if got is not None else None
    log.append('_resolve_package: %r, the most recent accepted by the Cargo rule is %r' % (gv, want))
    if got is not None and got.name != 'foo':
        bad.append(('C20:lock:resolve-other-crate', 'resolved %s %s for foo' % (got.name, gv)))
    elif gv != want:
        if gv is None:
            key = 'C20:lock:resolve-misses-accepted-version'
        elif gv not in vers or not (acc >> vers.index(gv)) & 1:
            key = 'C20:lock:resolve-picks-rejected-version'
        else:
            key = 'C20:lock:resolve-not-most-recent'
        bad.append((key, 'Cargo.lock has foo %s: requirement %r resolved to %r, the most recent version that satisfies it is %r' % (
            [vers[k] for k in order], text, gv, want)))
    if interp._resolve_package('baz', dep.accepts_version) is not None:
        bad.append(('C20:lock:resolve-other-crate', 'a crate that is not in Cargo.lock was resolved'))
    # 2. the interpreter's own sequence (_dep_package: look in Cargo.lock, pin, fetch), then ask the pinned dependency
    dep = make_dep('table', text) if text else make_dep('unversioned', '')
    dep.path = None
    cfg = PackageConfiguration(for_machine=MachineChoice.HOST)
    n = 2
    for visit in (1, 2):
        try:
            interp._dep_package(None, dep, cfg)
        except Exception as e:  # noqa
            fresh = dep_read_api(make_dep('string', dep.version)) if dep.version else ('val', '')
            if fresh[0] == 'exc' and fresh[1] == type(e).__name__:
                key = 'C20:dep:api-raises-' + fresh[1]                 # not this sequence: reading api of such a requirement fails by itself
            else:
                key = 'C20:lock:dep-package-exception'
            bad.append((key, 'requirement %r, visit %d of _dep_package: %s: %s' % (text, visit, type(e).__name__, e)))
            return bad, n, log
        pinned = '=' + (want if want is not None else FOREIGN) if (want is not None or not text) else text
        log.append('visit %d: requirement is now %r, expected %r' % (visit, dep.version, pinned))
        if dep.version != pinned:
            bad.append(('C20:lock:dependency-not-pinned-to-resolved-version', 'Cargo.lock has foo %s: after visit %d of _dep_package the requirement %r '
                        'became %r, expected %r' % ([vers[k] for k in order], visit, text, dep.version, pinned)))
            return bad, n, log
        allv = vers + [FOREIGN]
        e, sp = ref_masks(pinned, allv)
        m, err = dep_read_accepts(dep, allv)
        n += bin(sp).count('1')
        if err:
            bad.append(('C20:dep:exception', 'requirement %r: %s' % (pinned, err)))
            return bad, n, log
        log.append('  accepts_version accepts %s; Cargo rule for %r: %s' % ([v for k, v in enumerate(allv) if (m >> k) & 1], pinned,
                                                                           [v for k, v in enumerate(allv) if (e >> k) & 1]))
        d = (m ^ e) & sp
        if d:
            k = (d & -d).bit_length() - 1
            bad.append((dep_accepts_key(pinned, [text], m, allv), 'Cargo.lock has foo %s: requirement %r pinned to %r by _dep_package (visit %d): '
                        'accepts_version(%r) = %r, Cargo rule says %r' % ([vers[k2] for k2 in order], text, pinned, visit, allv[k], bool((m >> k) & 1),
                                                                         bool((e >> k) & 1))))
            return bad, n, log
        a, fresh = dep_read_api(dep), dep_read_api(make_dep('string', pinned))
        if a != fresh:
            bad.append(('C20:dep:api-depends-on-history', 'requirement %r pinned to %r by _dep_package: api = %r, on a fresh object %r' % (text, pinned, a, fresh)))
            return bad, n, log
    return bad, n, log


def load_lock(order, tag):
    from mesonbuild.cargo.interpreter import Interpreter, load_cargo_lock
    d = os.path.join(LOCK_DIR, tag)
    os.makedirs(d, exist_ok=True)
    write_lock(os.path.join(d, 'Cargo.lock'), order)
    interp = Interpreter.__new__(Interpreter)
    interp.cargolock = load_cargo_lock(os.path.join(d, 'Cargo.lock'), os.path.join(d, 'subprojects'))
    interp.packages = _Packages()
    interp.subprojects_dir = 'subprojects'
    return interp


def lock_worker(sub):
    out, cnt = [], {}
    st = {'locks': 0, 'cases': 0, 'skipped_cases': 0, 'evaluations': 0, 'resolved': 0, 'unresolved': 0, 'newest_rejected': 0}
    ks = [k for k in range(LOCK_N) if (sub >> k) & 1]
    top = max(ks, key=lambda k: LOCK_RANK[k])
    for no, order in enumerate(lock_orders(ks)):
        interp = load_lock(order, '%d-%d' % (sub, no))
        st['locks'] += 1
        for text, acc, spec in LOCK_REQS:
            if sub & ~spec:
                st['skipped_cases'] += 1            # a version of this lock is an unspecified point of the requirement
                continue
            st['cases'] += 1
            pick = best_of(sub, acc)
            st['resolved' if pick is not None else 'unresolved'] += 1
            st['newest_rejected'] += pick is not None and pick != top
            bad, n, _ = lock_case(interp, order, text, acc, spec)
            st['evaluations'] += n
            for key, what in bad[:1]:
                cnt[key] = cnt.get(key, 0) + 1
                if cnt[key] <= 3:
                    out.append((key, what, order, text))
    return out, cnt, st


def part_lock(ck, classes):
    global LOCK_N, LOCK_REQS, LOCK_RANK, LOCK_DIR, LOCK_ORDERS
    from verif.core import scratch_root
    LOCK_N = ck.q(7, 9)
    LOCK_ORDERS = ck.q(2, 3)
    vers = LOCK_VERS[:LOCK_N]
    P = [parse_version(v) for v in vers]
    LOCK_RANK = [sum(1 for q in P if sem_cmp(q, p) < 0) for p in P]
    ck.require(sorted(LOCK_RANK) == list(range(LOCK_N)), 'lock versions are not strictly ordered')
    LOCK_DIR = os.path.join(scratch_root(), 'c20lock')
    texts = ['', '*'] + [c.text for c in (COMPS or comparators_of(ck))] + [r for r in DEP_REQS if ',' in r]
    seen = set()
    LOCK_REQS = []
    for t in texts:
        if t not in seen:
            seen.add(t)
            LOCK_REQS.append((t,) + ref_masks(t, vers))
    tot, listed = {}, {}
    for out, cnt, st in pmap(lock_worker, range(1, 1 << LOCK_N), chunksize=2):
        for k, v in st.items():
            tot[k] = tot.get(k, 0) + v
        nl = {}
        for key, what, order, text in out:
            nl[key] = nl.get(key, 0) + 1
            report_family(ck, listed, key, what, {'kind': 'lock', 'versions': vers, 'order': order, 'req': text})
        for key, n in cnt.items():
            if n > nl.get(key, 0):
                report_family(ck, {key: 10 ** 9}, key, '', {}, n - nl.get(key, 0))
    ck.part('lock_resolution', versions=vers, requirements=len(LOCK_REQS), subsets=(1 << LOCK_N) - 1, lock_files=tot['locks'], cases=tot['cases'],
            skipped_unspecified_cases=tot['skipped_cases'], evaluations=tot['evaluations'], cases_resolved=tot['resolved'],
            cases_nothing_accepted=tot['unresolved'], cases_where_the_newest_version_is_rejected=tot['newest_rejected'],
            wall_s=round(time.time() - ck.t0, 1))
    ck.require(tot['resolved'] > 1000 and tot['unresolved'] > 1000 and tot['newest_rejected'] > 1000, 'lock family degenerate')
    classes.add(('lock', 'resolved', True))
    classes.add(('lock', 'nothing-accepted', True))
    classes.add(('lock', 'newest-rejected', True))
    return tot['evaluations'], tot['skipped_cases']


# =====================================================================================================
# Part 2: SemVer order
# =====================================================================================================
OPS = ['lt', 'gt', 'le', 'ge', 'eq', 'ne']
PYOP = {k: getattr(operator, k) for k in OPS}
OV = []
OOBJ = []


def order_versions(thorough):
    vs = ['0.0.0', '0.0.1', '0.1.0', '1.0.0', '1.0.1', '1.1.0', '1.2.3', '2.0.0', '1.9.0', '1.10.0', '9.0.0', '10.0.0', '1.0.9', '1.0.10',
          '1', '1.0', '2', '1.2']
    pres = ['alpha', 'alpha.1', 'alpha.beta', 'beta', 'beta.2', 'beta.11', 'rc.1',            # semver.org section 11 example
            '0', '1', '2', '10', 'alpha.0', 'alpha.2', 'alpha.10', 'alpha.1.1', 'alpha.1.b', 'alpha.1a', '1a', 'a1', '1.alpha',
            'alpha-1', 'a-b', 'A', 'Z', 'a', 'rc', 'rc.1.2', 'x.7.z.92', 'x-y-z.--', '0.3.7', 'alpha.-1']
    vs += ['1.0.0-' + p for p in pres]
    vs += ['0.0.0-alpha', '0.0.0-0', '1.0.1-alpha', '1.2.3-rc.1', '2.0.0-alpha', '2.0.0-alpha.1', '10.0.0-alpha', '1.10.0-beta', '1.0-pre1']
    vs += ['1.0.0+build.5', '1.0.0+b', '1.0.0+0', '1.0.0-alpha+001', '1.0.0-alpha.1+exp.sha', '1.2.3-rc.1+exp.sha.5114f85',
           '1.0.0+21AF26D3---117B344092BD', '1.0.0+0.build.1-rc.10000aaa-kk-0.1', '1.0.0-beta+exp.sha.5114f85', '2.0.0+alpha',
           '1.0.0-rc.1+build.1', '1.2.3+1.2.3']
    if thorough:
        ids = ['0', '1', '2', '10', 'a', 'b', 'A', 'a-1', '1a']
        for core in ('1.0.0', '1.2.3', '0.0.0'):
            for n in (1, 2):
                for t in itertools.product(ids, repeat=n):
                    vs.append(core + '-' + '.'.join(t))
            vs.append(core + '-a.b.c')
            vs.append(core + '-a.b.1')
            vs.append(core + '-a.1.b')
    out, seen = [], set()
    for v in vs:
        if v not in seen:
            seen.add(v)
            out.append(v)
    return out


def order_row(i):
    a = OOBJ[i]
    masks = dict.fromkeys(OPS, 0)
    for j, b in enumerate(OOBJ):
        for op in OPS:
            try:
                r = PYOP[op](a, b)
            except Exception as e:  # noqa
                return (i, 'exc', op, j, '%s: %s' % (type(e).__name__, e))
            if r is not True and r is not False:
                return (i, 'nonbool', op, j, repr(r))
            if r:
                masks[op] |= 1 << j
    return (i, 'ok', masks)


def classify_order(a, b, got):
    for fl in (F_NUM1, F_SPLIT):
        if sem_cmp(parse_version(a, (fl,)), parse_version(b, (fl,))) == got:
            return 'C20:order:' + fl
    if sem_cmp(parse_version(a, (F_NUM1, F_SPLIT)), parse_version(b, (F_NUM1, F_SPLIT))) == got:
        return 'C20:order:known-defects-combined'
    return 'C20:order:reference'


def part_order(ck, classes):
    global OV, OOBJ
    OV = order_versions(ck.thorough)
    n = len(OV)
    try:
        OOBJ = [SemVer(s) for s in OV]
    except Exception as e:  # noqa
        ck.violation('C20:order:constructor-exception', 'SemVer() raised %s: %s' % (type(e).__name__, e), {'kind': 'order', 'a': OV[0], 'b': OV[0]})
        return 0
    P = [parse_version(s) for s in OV]
    full = (1 << n) - 1
    M = {op: [0] * n for op in OPS}
    evals = 0
    bad_rows = set()
    for res in pmap(order_row, range(n), chunksize=8):
        i = res[0]
        if res[1] != 'ok':
            bad_rows.add(i)
            ck.violation('C20:order:' + res[1], 'SemVer(%r) %s SemVer(%r): %s' % (OV[i], res[2], OV[res[3]], res[4]),
                         {'kind': 'order', 'a': OV[i], 'b': OV[res[3]]})
            continue
        for op in OPS:
            M[op][i] = res[2][op]
        evals += 6 * n
    if bad_rows:
        return evals
    hp = 0
    for i, s in enumerate(OV):
        hp += 1
        if OOBJ[i].has_prerelease is not bool(P[i][3]):
            ck.violation('C20:order:has_prerelease', 'SemVer(%r).has_prerelease = %r' % (s, OOBJ[i].has_prerelease), {'kind': 'order', 'a': s, 'b': s})
    cnt = {}

    def viol(key, what, a, b, c=None):
        cnt[key] = cnt.get(key, 0) + 1
        if cnt[key] <= 40:
            d = {'kind': 'order', 'a': a, 'b': b}
            if c is not None:
                d['c'] = c
            ck.violation(key, what, d)
        elif not any(kf['key'] == key and kf.get('status') == 'known' for kf in ck.known):
            ck.n_viol += 1
    for i in range(n):
        lt, gt, le, ge, eq, ne = (M[op][i] for op in OPS)
        bad = (lt & gt) | (lt & eq) | (gt & eq) | (full ^ (lt | gt | eq))
        if bad:
            j = (bad & -bad).bit_length() - 1
            viol('C20:order:trichotomy', 'not exactly one of <,==,> holds for %r, %r' % (OV[i], OV[j]), OV[i], OV[j])
        for nm, got, want in (('le', le, lt | eq), ('ge', ge, gt | eq), ('ne', ne, full ^ eq)):
            if got != want:
                j = ((got ^ want) & -(got ^ want)).bit_length() - 1
                viol('C20:order:derived:' + nm, '%s inconsistent with <,>,== for %r, %r' % (nm, OV[i], OV[j]), OV[i], OV[j])
        if not (eq >> i) & 1:
            viol('C20:order:reflexive', '%r != itself' % OV[i], OV[i], OV[i])
    for i in range(n):
        x = M['lt'][i]
        while x:
            lsb = x & -x
            j = lsb.bit_length() - 1
            x ^= lsb
            if not (M['gt'][j] >> i) & 1:
                viol('C20:order:antisym', 'a<b but not b>a: %r, %r' % (OV[i], OV[j]), OV[i], OV[j])
                break
        x = M['eq'][i]
        while x:
            lsb = x & -x
            j = lsb.bit_length() - 1
            x ^= lsb
            if not (M['eq'][j] >> i) & 1:
                viol('C20:order:eqsym', '== not symmetric: %r, %r' % (OV[i], OV[j]), OV[i], OV[j])
                break
    triples = 0
    for i in range(n):
        lei = M['lt'][i] | M['eq'][i]
        x = lei
        while x:
            lsb = x & -x
            j = lsb.bit_length() - 1
            x ^= lsb
            lej = M['lt'][j] | M['eq'][j]
            if lej & ~lei:
                k = ((lej & ~lei) & -(lej & ~lei)).bit_length() - 1
                viol('C20:order:transitivity', 'a<=b, b<=c but not a<=c: %r, %r, %r' % (OV[i], OV[j], OV[k]), OV[i], OV[j], OV[k])
                break
        triples += bin(lei).count('1') * n
    nontrivial = 0
    for i in range(n):
        for j in range(n):
            c = sem_cmp(P[i], P[j])
            got = -1 if (M['lt'][i] >> j) & 1 else (1 if (M['gt'][i] >> j) & 1 else 0)
            classes.add(('order', c, bool(P[i][3]), bool(P[j][3])))
            if P[i][3] and P[j][3] and P[i][:3] == P[j][:3]:
                nontrivial += 1
            if got != c:
                viol(classify_order(OV[i], OV[j], got), 'SemVer order of %r vs %r: section 11 says %d, got %d' % (OV[i], OV[j], c, got), OV[i], OV[j])
    ck.part('order', versions=n, pairs=n * n, real_comparisons=evals, triples_checked=triples, has_prerelease_checked=hp,
            pairs_decided_by_prerelease_identifiers=nontrivial)
    ck.require(nontrivial > 500, 'pre-release identifier comparison not exercised')
    ck.sample({'order': [OV[20], OV[25]], 'ref': sem_cmp(P[20], P[25])})
    return evals + hp


# =====================================================================================================
# Part 3: cfg()
# =====================================================================================================
ATOMS = [('id', 'a'), ('id', 'b'), ('eq', 'a', 'x'), ('eq', 'b', '')]
TOKS = ['a', 'b', 'all', 'any', 'not', '(', ')', ',', '=', '"x"', '""']
WORDS = {'a', 'b', 'all', 'any', 'not'}
VALS = [None, '', 'x', 'y']
CFGS = [dict(([('a', x)] if x is not None else []) + ([('b', y)] if y is not None else [])) for x in VALS for y in VALS]


def toks_of(t):
    k = t[0]
    if k == 'id':
        return [t[1]]
    if k == 'eq':
        return [t[1], '=', '"%s"' % t[2]]
    if k == 'not':
        return ['not', '('] + toks_of(t[1]) + [')']
    out = [k, '(']
    for n, x in enumerate(t[1]):
        if n:
            out.append(',')
        out += toks_of(x)
    out.append(')')
    return out


def render(toks, style):
    if style == 0:
        return ' '.join(toks)
    if style == 1:                        # compact: a space only where two words would fuse
        out = []
        for n, t in enumerate(toks):
            if n and t in WORDS and toks[n - 1] in WORDS:
                out.append(' ')
            out.append(t)
        return ''.join(out)
    out = []                              # style 2: the spelling used in Cargo manifests: 'all(a, b = "")'
    for n, t in enumerate(toks):
        if t == ',':
            out.append(', ')
        elif t == '=':
            out.append(' = ')
        else:
            if n and t in WORDS and toks[n - 1] in WORDS:
                out.append(' ')
            out.append(t)
    return ''.join(out)


def ref_eval(t, c):
    k = t[0]
    if k == 'id':
        return t[1] in c
    if k == 'eq':
        return t[1] in c and c[t[1]] == t[2]
    if k == 'not':
        return not ref_eval(t[1], c)
    if k == 'all':
        return all(ref_eval(x, c) for x in t[1])
    return any(ref_eval(x, c) for x in t[1])


def ref_mask(t):
    m = 0
    for k, c in enumerate(CFGS):
        if ref_eval(t, c):
            m |= 1 << k
    return m


class _Bad(Exception):
    pass


def is_name(t):
    """IDENTIFIER of the Rust reference restricted to ASCII, minus the three words Cargo reserves."""
    return t not in ('all', 'any', 'not') and t.isascii() and (t[:1].isalpha() or t[:1] == '_') and t.replace('_', 'a').isalnum()


def ref_parse(toks, lenient, kwident=False):
    """Rust reference grammar: pred := IDENT | IDENT '=' STRING | all(list?) | any(list?) | not(pred);
       all/any/not are reserved (Cargo's parser; pinned by cargotests 'not(any)').
       lenient additionally allows one trailing comma before ')' (unspecified corner);
       kwident reads all/any/not not followed by '(' as plain option names (rustc's reading; unspecified corner)."""
    pos = [0]

    def peek():
        return toks[pos[0]] if pos[0] < len(toks) else None

    def take(x=None):
        t = peek()
        if t is None or (x is not None and t != x):
            raise _Bad()
        pos[0] += 1
        return t

    def pred():
        t = take()
        if kwident and t in ('all', 'any', 'not') and peek() != '(':
            if peek() == '=':
                take()
                s = take()
                if not s.startswith('"'):
                    raise _Bad()
                return ('eq', t, s[1:-1])
            return ('id', t)
        if t in ('all', 'any'):
            take('(')
            args = []
            if peek() == ')':
                take()
                return (t, args)
            while True:
                args.append(pred())
                if peek() == ',':
                    take()
                    if lenient and peek() == ')':
                        take()
                        return (t, args)
                    continue
                take(')')
                return (t, args)
        if t == 'not':
            take('(')
            x = pred()
            if lenient and peek() == ',':
                take()
            take(')')
            return ('not', x)
        if is_name(t):
            if peek() == '=':
                take()
                s = take()
                if not s.startswith('"'):
                    raise _Bad()
                return ('eq', t, s[1:-1])
            return ('id', t)
        raise _Bad()
    try:
        r = pred()
        if pos[0] != len(toks):
            return None
        return r
    except _Bad:
        return None


def impl_cfg(text, c):
    """('val', bool) | ('raise', None) | ('exc', type name) | ('nonbool', repr)"""
    try:
        r = cargo_cfg.eval_cfg('cfg(' + text + ')', dict(c))
    except MesonException:
        return ('raise', None)
    except BaseException as e:  # noqa
        return ('exc', type(e).__name__)
    if r is True or r is False:
        return ('val', r)
    return ('nonbool', repr(r))


_FAST = all(hasattr(cargo_cfg, n) for n in ('parse', 'lexer', '_eval_cfg'))


def impl_cfg_all(text):
    """impl_cfg on every configuration. The public entry point runs in full on the first configuration; for the others the
       real lexer+parser run once more and the real evaluator runs on the parsed tree (what eval_cfg does, minus re-parsing)."""
    r0 = impl_cfg(text, CFGS[0])
    # The public entry point is used for every configuration: state kept between calls (a cache keyed too coarsely,
    # say) is only visible when the same expression really is evaluated again through eval_cfg.  The short-cut below
    # (real parser once + real _eval_cfg per configuration) remains only for VERIF_C20_FAST=1 experiments.
    if not _FAST or r0[0] != 'val' or os.environ.get('VERIF_C20_FAST') != '1':
        return [r0] + [impl_cfg(text, c) for c in CFGS[1:]]
    try:
        ir = cargo_cfg.parse(cargo_cfg.lexer(text))
    except BaseException:  # noqa
        return [r0] + [impl_cfg(text, c) for c in CFGS[1:]]
    res = [r0]
    for c in CFGS[1:]:
        try:
            r = cargo_cfg._eval_cfg(ir, dict(c))
        except MesonException:
            res.append(('raise', None))
            continue
        except BaseException as e:  # noqa
            res.append(('exc', type(e).__name__))
            continue
        res.append(('val', r) if r is True or r is False else ('nonbool', repr(r)))
    return res


def check_wf(toks, tree, styles, out, stats):
    exp = ref_mask(tree)
    for st in styles:
        text = render(toks, st)
        for k, r in enumerate(impl_cfg_all(text)):
            stats['evals'] += 1
            e = bool((exp >> k) & 1)
            if r[0] == 'val' and r[1] is e:
                continue
            if len(out) < 30:
                key = {'val': 'C20:cfg:misevaluated', 'raise': 'C20:cfg:wellformed-rejected', 'exc': 'C20:cfg:wrong-exception:%s' % r[1],
                       'nonbool': 'C20:cfg:nonbool'}[r[0]]
                out.append((key, text, k, e, r))
            stats['bad'] += 1


def check_tokens(toks, styles, out, stats):
    """Any token string: strict-well-formed -> evaluate; trailing-comma form -> unspecified; else must raise."""
    tree = ref_parse(toks, False)
    if tree is not None:
        stats['wf'] += 1
        check_wf(toks, tree, styles, out, stats)
        return
    if ref_parse(toks, True) is not None:
        stats['skipped'] += 1
        return
    alt = ref_parse(toks, False, kwident=True)
    if alt is not None:
        # Cargo's parser rejects a bare all/any/not, rustc reads it as an option name: either answer is accepted,
        # anything else (another value, another exception type) is not
        stats['skipped'] += 1
        for st in styles:
            text = render(toks, st)
            for k in (0, 10):
                stats['evals'] += 1
                r = impl_cfg(text, CFGS[k])
                if r[0] == 'raise' or (r[0] == 'val' and r[1] is ref_eval(alt, CFGS[k])):
                    continue
                stats['bad'] += 1
                if len(out) < 30:
                    out.append(('C20:cfg:keyword-as-name:' + r[0], text, k, 'MesonException or %r' % ref_eval(alt, CFGS[k]), r))
        return
    stats['malformed'] += 1
    for st in styles:
        text = render(toks, st)
        for k in (0, 10):
            stats['evals'] += 1
            r = impl_cfg(text, CFGS[k])
            if r[0] == 'raise':
                stats['raised'] += 1
                continue
            stats['bad'] += 1
            if len(out) < 30:
                key = {'val': 'C20:cfg:malformed-accepted', 'exc': 'C20:cfg:wrong-exception:%s' % r[1], 'nonbool': 'C20:cfg:nonbool'}[r[0]]
                out.append((key, text, k, 'MesonException', r))


D = []          # well-formed trees, simplest first: depth 0, 1, 2
DEPTH_START = []
SMALL_N = 0


def close(prev):
    out = []
    for op in ('all', 'any'):
        out.append((op, []))
    for x in prev:
        out.append(('not', x))
        out.append(('all', [x]))
        out.append(('any', [x]))
    for x in prev:
        for y in prev:
            out.append(('all', [x, y]))
            out.append(('any', [x, y]))
    return out


def new_stats():
    return {'evals': 0, 'bad': 0, 'wf': 0, 'skipped': 0, 'malformed': 0, 'raised': 0}


def cfg_wf_worker(rng):
    lo, hi, styles = rng
    out, stats = [], new_stats()
    for t in D[lo:hi]:
        stats['wf'] += 1
        check_wf(toks_of(t), t, styles, out, stats)
    return out, stats


def cfg_d3_worker(rng):
    lo, hi = rng
    out, stats = [], new_stats()
    small = D[:SMALL_N]
    for x in D[lo:hi]:
        layer = [('not', x), ('all', [x]), ('any', [x])]
        for s in small:
            for op in ('all', 'any'):
                layer.append((op, [x, s]))
                layer.append((op, [s, x]))
        for t in layer:
            stats['wf'] += 1
            check_wf(toks_of(t), t, (1,), out, stats)
    return out, stats


def cfg_mut_worker(rng):
    lo, hi, styles = rng
    out, stats = [], new_stats()
    for t in D[lo:hi]:
        base = toks_of(t)
        seen = set()
        n = len(base)
        cands = []
        for k in range(n):
            cands.append(base[:k] + base[k + 1:])                       # deletion
            cands.append(base[:k] + [base[k]] + base[k:])               # duplication
            for tok in TOKS:
                if tok != base[k]:
                    cands.append(base[:k] + [tok] + base[k + 1:])       # replacement
        for k in range(n + 1):
            for tok in TOKS:
                cands.append(base[:k] + [tok] + base[k:])               # insertion
        for c in cands:
            tc = tuple(c)
            if tc in seen:
                continue
            seen.add(tc)
            check_tokens(c, styles, out, stats)
    return out, stats


def cfg_str_worker(arg):
    n, first, styles = arg
    out, stats = [], new_stats()
    for rest in itertools.product(TOKS, repeat=n - 1):
        check_tokens([first] + list(rest), styles, out, stats)
    return out, stats


# -----------------------------------------------------------------------------------------------------
# cfg, character level: white space between tokens, string literals, pieces
# -----------------------------------------------------------------------------------------------------
# What a token is comes from the two grammars a cfg() string is written for: Cargo's cargo-platform tokenizer and the
# Rust reference (conditional compilation / tokens).  Both: punctuation ( ) , = ; IDENTIFIER = [A-Za-z_][A-Za-z0-9_]* ;
# a string literal runs from a quote to the NEXT quote, whatever is in between (a literal that is never closed is an
# error); U+0020 between tokens is skipped.  They differ on other white space between tokens: rustc skips every
# Pattern_White_Space character, Cargo's tokenizer reports it as an unexpected character.  So for a text that is
# well-formed in the rustc reading but contains such a character outside a literal, either answer of a reading is
# accepted (the structural value, or MesonException) - never another value; a text with U+0020 only has one reading.
WS_CARGO = frozenset(' ')
WS_RUST = frozenset('\t\n\x0b\x0c\r \x85\u200e\u200f\u2028\u2029')
SEPCHARS = frozenset('(),= \t\n\r')
_IDCH = frozenset('abcdefghijklmnopqrstuvwxyzABCDEFGHIJKLMNOPQRSTUVWXYZ_0123456789')


def ref_lex(text, ws):
    """-> (tokens, None) | (None, 'unterminated' | 'char').  Literals keep their quotes: '"x y"'."""
    toks = []
    i, n = 0, len(text)
    while i < n:
        c = text[i]
        if c in ws:
            i += 1
        elif c in '(),=':
            toks.append(c)
            i += 1
        elif c == '"':
            j = text.find('"', i + 1)
            if j < 0:
                return None, 'unterminated'
            toks.append(text[i:j + 1])
            i = j + 1
        elif c in _IDCH and not c.isdigit():
            j = i + 1
            while j < n and text[j] in _IDCH:
                j += 1
            toks.append(text[i:j])
            i = j
        else:
            return None, 'char'
    return toks, None


def has_sep_literal(toks):
    return any(t[0] == '"' and SEPCHARS & set(t[1:-1]) for t in toks)


def classify_text(text):
    """-> (kind, data).  kind: 'wf' (tree, strict) | 'skip' | 'kw' (rustc-reading tree) | 'bad' (reason)."""
    tr, er = ref_lex(text, WS_RUST)
    if tr is None:
        return 'bad', er
    strict = ref_lex(text, WS_CARGO)[0] is not None        # no white space but U+0020 outside literals: one reading only
    tree = ref_parse(tr, False)
    if tree is not None:
        return 'wf', (tree, strict, has_sep_literal(tr))
    if ref_parse(tr, True) is not None:
        return 'skip', None
    alt = ref_parse(tr, False, kwident=True)
    if alt is not None:
        return 'kw', alt
    return 'bad', 'structure-sep-literal' if has_sep_literal(tr) else 'structure'


def ref_eval_text(text, c):
    """Value of a text in the rustc reading (a bare all/any/not is a name there), or None when it is not an expression."""
    kind, data = classify_text(text)
    return ref_eval(data[0], c) if kind == 'wf' else ref_eval(data, c) if kind == 'kw' else None


K_UNTERM = 'C20:cfg:unterminated-string-accepted'
K_SEPREJ = 'C20:cfg:string-with-separator-rejected'
K_SEPVAL = 'C20:cfg:string-with-separator-misevaluated'
K_SEPACC = 'C20:cfg:string-with-separator-malformed-accepted'


def bad_key(r, wellformed, sep_literal=False):
    if r[0] == 'exc':
        return 'C20:cfg:wrong-exception:%s' % r[1]
    if r[0] == 'nonbool':
        return 'C20:cfg:nonbool'
    if wellformed:
        if sep_literal:
            return K_SEPVAL if r[0] == 'val' else K_SEPREJ
        return 'C20:cfg:misevaluated' if r[0] == 'val' else 'C20:cfg:wellformed-rejected'
    return 'C20:cfg:malformed-accepted'


def note(out, cnt, key, text, c, accept, r):
    cnt[key] = cnt.get(key, 0) + 1
    if cnt[key] <= 6:
        out.append((key, text, dict(c), accept, r))


def check_text(text, cfgs_wf, cfgs_bad, out, cnt, stats):
    """One text through the public entry point against the reference reading(s)."""
    kind, data = classify_text(text)
    stats['texts'] += 1
    if kind == 'skip':
        stats['skipped'] += 1
        return
    if kind == 'wf':
        tree, strict, sep = data
        stats['wf'] += 1
        stats['wf_two_readings'] += not strict
        stats['wf_sep_literal'] += sep
        for c in cfgs_wf:
            stats['evals'] += 1
            r = impl_cfg(text, c)
            e = ref_eval(tree, c)
            if (r[0] == 'val' and r[1] is e) or (r[0] == 'raise' and not strict):
                continue
            note(out, cnt, bad_key(r, True, sep), text, c, [e] if strict else [e, 'raise'], r)
        return
    if kind == 'kw':
        stats['skipped'] += 1
        for c in cfgs_bad:
            stats['evals'] += 1
            r = impl_cfg(text, c)
            e = ref_eval(data, c)
            if r[0] == 'raise' or (r[0] == 'val' and r[1] is e):
                continue
            note(out, cnt, 'C20:cfg:keyword-as-name:' + r[0], text, c, [e, 'raise'], r)
        return
    stats['malformed'] += 1
    stats['unterminated'] += data == 'unterminated'
    for c in cfgs_bad:
        stats['evals'] += 1
        r = impl_cfg(text, c)
        if r[0] == 'raise':
            stats['raised'] += 1
            continue
        key = bad_key(r, False)
        if r[0] == 'val' and data == 'structure-sep-literal':
            key = K_SEPACC
        if r[0] == 'val' and data == 'unterminated':
            # classifier of the registered defect (never the oracle): the quote that opens the unclosed literal is
            # dropped, the rest is read as if the quote were a blank
            k = text.rfind('"')
            t2 = text[:k] + ' ' + text[k + 1:]
            if ref_eval_text(t2, c) is r[1]:
                key = K_UNTERM
            elif has_sep_literal(ref_lex(t2, WS_RUST)[0] or []):
                key = K_SEPACC                     # both at once: filed under the class of the closed literal
        note(out, cnt, key, text, c, ['raise'], r)


GAPS = ['', ' ', '  ', '\t', '\n', '\r\n', '\t \n']
GAP_NAME = {'': 'nothing', ' ': 'space', '  ': 'two-spaces', '\t': 'tab', '\n': 'newline', '\r\n': 'crlf', '\t \n': 'mixed'}
CFG5 = [0, 1, 7, 8, 9]        # {}, {b:''}, {a:'',b:'y'}, {a:'x'}, {a:'x',b:''}: every atom true and false, any two atoms told apart


def gap_layouts(toks, maxdev, manifest_dev):
    """Texts of one token sequence: n+1 gaps (before the first, between, after the last token).  Two base layouts
       (compact: every gap empty; manifest: 'all(a, b = "")'), every choice of <= bound gaps filled with every other
       filler, and every filler in all gaps at once.  In a well-formed expression no two words are adjacent, so an
       empty gap is always lexically possible.  -> [(text, gaps)] without duplicates."""
    n = len(toks)
    compact = [''] * (n + 1)
    manifest = list(compact)
    for k, t in enumerate(toks):
        if t == ',':
            manifest[k + 1] = ' '
        elif t == '=':
            manifest[k] = manifest[k + 1] = ' '
    seen = set()
    res = []

    def emit(g):
        text = ''.join(g[k] + toks[k] for k in range(n)) + g[n]
        if text not in seen:
            seen.add(text)
            res.append((text, g, ndev[0]))
    ndev = [0]
    for base, dev in ((compact, maxdev), (manifest, manifest_dev)):
        ndev[0] = 0
        emit(base)
        for r in range(1, dev + 1):
            for pos in itertools.combinations(range(n + 1), r):
                for fs in itertools.product(GAPS, repeat=r):
                    if any(f == base[q] for f, q in zip(fs, pos)):
                        continue
                    g = list(base)
                    for f, q in zip(fs, pos):
                        g[q] = f
                    ndev[0] = r
                    emit(g)
    ndev[0] = -1
    for f in GAPS:
        emit([f] * (n + 1))
    return res


def new_gstats():
    d = {'texts': 0, 'evals': 0, 'layouts_other_white_space': 0, 'nontrivial_expressions': 0, 'expressions': 0,
         'layouts_two_deviations': 0, 'layouts_all_gaps_same': 0}
    for f in GAPS:
        if f.strip(' '):
            d['evaluated:' + GAP_NAME[f]] = 0
            d['rejected:' + GAP_NAME[f]] = 0
    return d


def cfg_gap_worker(arg):
    lo, hi, maxdev, manifest_dev, cfg_idx = arg
    out, cnt, stats, wit = [], {}, new_gstats(), {}
    full = sum(1 << k for k in cfg_idx)
    for t in D[lo:hi]:
        toks = toks_of(t)
        exp = ref_mask(t)
        stats['expressions'] += 1
        stats['nontrivial_expressions'] += (exp & full) not in (0, full)
        n = len(toks)
        for text, g, ndev in gap_layouts(toks, maxdev, manifest_dev):
            stats['texts'] += 1
            other = sorted({f for f in g if f.strip(' ')})
            strict = not other
            stats['layouts_other_white_space'] += not strict
            stats['layouts_two_deviations'] += ndev == 2
            stats['layouts_all_gaps_same'] += ndev == -1
            nval = nraise = 0
            for k in cfg_idx:
                stats['evals'] += 1
                c = CFGS[k]
                r = impl_cfg(text, c)
                e = bool((exp >> k) & 1)
                if r[0] == 'val' and r[1] is e:
                    nval += 1
                elif r[0] == 'raise' and not strict:
                    nraise += 1
                else:
                    note(out, cnt, bad_key(r, True), text, c, [e] if strict else [e, 'raise'], r)
            # one kind of other white space, in interior gaps only: is it a separator for the real lexer or is it not?
            if len(other) == 1 and not g[0].strip(' ') and not g[n].strip(' '):
                nm = GAP_NAME[other[0]]
                if nval == len(cfg_idx):
                    stats['evaluated:' + nm] += 1
                    wit.setdefault('evaluated:' + nm, text)
                elif nraise == len(cfg_idx):
                    stats['rejected:' + nm] += 1
                    wit.setdefault('rejected:' + nm, text)
    return out, cnt, stats, wit


PIECES = ['a', 'x', 'all', 'any', 'not', '(', ')', ',', '=', '"', ' ', '\t', '\n']
CFGB = [dict(([('a', v)] if v is not None else []) + ([('x', w)] if w is not None else [])) for v in VALS for w in (None, '')]
CFGB_BAD = [CFGB[0], CFGB[5]]           # {} and {a: 'x', x: ''}


def new_pstats():
    return {'texts': 0, 'evals': 0, 'wf': 0, 'wf_two_readings': 0, 'wf_sep_literal': 0, 'skipped': 0, 'malformed': 0,
            'unterminated': 0, 'raised': 0}


def cfg_piece_worker(arg):
    n, first = arg
    out, cnt, stats = [], {}, new_pstats()
    for rest in itertools.product(PIECES, repeat=n - 1):
        check_text(first + ''.join(rest), CFGB, CFGB_BAD, out, cnt, stats)
    return out, cnt, stats


LITCHARS = ['x', ' ', '\t', ',', '(', ')', '=']


def cfg_literal_worker(arg):
    """name = "value" for every value over LITCHARS up to the bound, alone and inside not / all / any, two spellings;
       the configurations give the name the value itself, its blank-stripped form and each fragment between separators
       (so that a reading which cuts the literal at a separator shows), besides absent / "" / "x"."""
    n, firstc = arg
    out, cnt, stats = [], {}, new_pstats()
    for rest in itertools.product(LITCHARS, repeat=n - 1):
        v = firstc + ''.join(rest)
        eq = ('eq', 'a', v)
        frag = ''.join(ch if ch == 'x' else '\0' for ch in v).split('\0')
        avals = []
        for z in [None, '', 'x', v, v.strip()] + frag:
            if z not in avals:
                avals.append(z)
        cfgs = [dict(([('a', z)] if z is not None else []) + ([('b', w)] if w is not None else [])) for z in avals for w in (None, '')]
        for tree in (eq, ('not', eq), ('all', [eq]), ('any', [('id', 'b'), eq]), ('all', [eq, ('id', 'b')])):
            toks = toks_of(tree)
            for st in (1, 2):
                text = render(toks, st)
                kind, data = classify_text(text)
                if kind != 'wf' or data[0] != tree:
                    return 'reference lexer does not read back %r' % text
                check_text(text, cfgs, cfgs[:2], out, cnt, stats)
    return out, cnt, stats


def part_cfg(ck, classes):
    global D, DEPTH_START, SMALL_N
    d0 = list(ATOMS)
    d1 = d0 + close(d0)
    # depth 2 = operators over depth<=1 arguments, minus those already of depth<=1
    seen = {repr(t) for t in d1}
    d2 = d1 + [t for t in close(d1) if repr(t) not in seen]
    D = d2
    DEPTH_START = [0, len(d0), len(d1), len(d2)]
    SMALL_N = ck.q(len(d0), len(d1))
    cnt = {}
    tot = new_stats()

    def absorb(res, part):
        p = new_stats()
        for out, stats in res:
            for k in stats:
                p[k] += stats[k]
                tot[k] += stats[k]
            for key, text, k, e, r in out:
                cnt[key] = cnt.get(key, 0) + 1
                if cnt[key] <= 40:
                    ck.violation(key, 'eval_cfg(%r, %r): expected %r, observed %r' % ('cfg(' + text + ')', CFGS[k], e, r),
                                 {'kind': 'cfg', 'expr': text, 'cfgs': CFGS[k], 'expected': e, 'observed': list(r)})
                else:
                    ck.n_viol += 1
            ck.n_viol += max(0, stats['bad'] - len(out))      # beyond the per-worker listing cap (no cfg class is a known finding)
        ck.part(part, wall_s=round(time.time() - ck.t0, 1), **p)
        return p

    def chunks(lo, hi, step, *extra):
        return [(a, min(a + step, hi)) + extra for a in range(lo, hi, step)]
    mut_hi = ck.q(len(d1) + 1200, len(D))

    def token_level():
        # well-formed, depth <= 2, all three spellings
        p = absorb(pmap(cfg_wf_worker, chunks(0, len(D), 64, (0, 1, 2))), 'cfg_wellformed_depth2')
        for t in D:
            m = ref_mask(t)
            classes.add(('cfg', t[0], 'const-true' if m == 0xffff else 'const-false' if m == 0 else 'depends'))
        ck.sample({'cfg': render(toks_of(D[len(d1) + 700]), 2), 'true_in': bin(ref_mask(D[len(d1) + 700])).count('1'), 'of': 16})
        # depth 3 layer: not/all/any over a depth-2 argument, binary with a depth<=SMALL sibling on either side
        p3 = absorb(pmap(cfg_d3_worker, chunks(len(d1), len(D), 16)), 'cfg_wellformed_depth3_layer')
        # single-token mutations of the well-formed expressions
        pm = absorb(pmap(cfg_mut_worker, chunks(0, mut_hi, 16, (0, 1))), 'cfg_token_mutations')
        ck.part('cfg_token_mutations', mutated_expressions=mut_hi)
        # all token strings up to a length bound
        maxlen = ck.q(5, 6)
        absorb([cfg_str0()], 'cfg_empty')
        items = []
        for n in range(1, maxlen + 1):
            for first in TOKS:
                items.append((n, first, (0, 1) if n <= 4 else (1,)))
        ps = absorb(pmap(cfg_str_worker, items), 'cfg_token_strings')
        ck.part('cfg_token_strings', max_tokens=maxlen, alphabet=len(TOKS))
        ck.require(tot['malformed'] > 1000 and tot['raised'] > 1000, 'malformed branch not exercised')
        ck.require(tot['wf'] > 5000, 'well-formed branch not exercised')
        ck.require(pm['wf'] > 0, 'no mutation stayed well-formed (classifier suspicious)')
        classes.add(('cfg', 'malformed', 'raise'))

    def keyword_positions():
        # A bare all/any/not where an option name may stand: Cargo's parser rejects it, rustc reads it as an option name; either
        # reading is accepted (see the unspecified list) - but it is one reading per word, wherever the word stands.
        ctxs = ['%s', 'not(%s)', 'all(%s)', 'any(%s)', 'all(a, %s)', 'any(%s, a)', 'all(%s, a)', 'not(not(%s))', '%s = "x"', 'not(%s = "x")',
                'all(a, %s = "x")', 'any(%s = "x", a)', ' %s ', 'not( %s )']
        n = 0
        for kw in ('all', 'any', 'not'):
            seen = {}
            for ctx in ctxs:
                text = ctx % kw
                toks = ref_lex(text, WS_CARGO)[0]
                alt = ref_parse(toks, False, kwident=True)
                ck.require(ref_parse(toks, False) is None and alt is not None, 'keyword context %r is not a bare-keyword expression' % text)
                res = []
                for c in ({}, {kw: ''}, {kw: 'x'}, {kw: 'x', 'a': ''}, {'a': ''}):
                    n += 1
                    r = impl_cfg(text, c)
                    res.append('rejected' if r[0] == 'raise' else 'name' if r[0] == 'val' and r[1] is ref_eval(alt, c) else 'other')
                    if res[-1] == 'other':
                        ck.violation('C20:cfg:keyword-as-name:' + r[0], 'eval_cfg(%r, %r): expected MesonException or %r, observed %r' % (
                            'cfg(' + text + ')', c, ref_eval(alt, c), r), {'kind': 'cfg', 'expr': text, 'cfgs': c, 'accept': [ref_eval(alt, c), 'raise'],
                                                                          'observed': list(r)})
                how = res[0] if len(set(res)) == 1 else 'other'
                seen.setdefault(how, text)
                classes.add(('cfg-keyword', kw, how))
            if 'name' in seen and 'rejected' in seen:
                ck.violation('C20:cfg:bare-keyword-name-here-error-there', 'the bare word %r is read as an option name in cfg(%s) but makes cfg(%s) '
                             'malformed' % (kw, seen['name'], seen['rejected']), {'kind': 'cfg-kw', 'word': kw, 'name': seen['name'],
                                                                                 'rejected': seen['rejected']})
        ck.part('cfg_bare_keyword_positions', words=3, positions=len(ctxs), evaluations=n)
        tot['evals'] += n

    if ck.want('cfg') or ck.want('cfgtok'):
        token_level()
        keyword_positions()
    if not (ck.want('cfg') or ck.want('cfgchar')):
        return tot

    # ---- character level: the white space between tokens, string literals, pieces ----
    cnt2 = {}

    def absorb2(res, part, zero):
        p = zero()
        wit = {}
        for item in res:
            if isinstance(item, str):
                ck.internal(item)
            out, kc, stats = item[:3]
            for k in stats:
                p[k] += stats[k]
            for k, v in (item[3] if len(item) > 3 else {}).items():
                wit.setdefault(k, v)
            listed = {}
            for key, text, c, accept, r in out:
                listed[key] = listed.get(key, 0) + 1
                cnt2[key] = cnt2.get(key, 0) + 1
                if cnt2[key] <= 40:
                    ck.violation(key, 'eval_cfg(%r, %r): expected %s, observed %r' % ('cfg(' + text + ')', c, ' or '.join(
                        'MesonException' if a == 'raise' else repr(a) for a in accept), r),
                        {'kind': 'cfg', 'expr': text, 'cfgs': c, 'accept': accept, 'observed': list(r)})
                else:
                    listed[key] -= 1
            for key, n in kc.items():
                rest = n - listed.get(key, 0)           # beyond the listing caps
                if rest > 0:
                    if any(kf['key'] == key and kf.get('status') == 'known' for kf in ck.known):
                        ck.add('known_finding_points_beyond_listing_cap', rest)
                    else:
                        ck.n_viol += rest
        for k in ('evals', 'wf', 'skipped', 'malformed', 'raised'):
            if k in p:
                tot[k] += p[k]
        ck.part(part, wall_s=round(time.time() - ck.t0, 1), **p)
        return p, wit

    d1n = len(d1)
    gap_hi = ck.q(mut_hi, len(D))
    deep_cfgs = ck.q(CFG5, list(range(16)))
    items = chunks(0, d1n, 2, 2, 1, list(range(16))) + chunks(d1n, gap_hi, 24, 1, 1, deep_cfgs)
    pg, wit = absorb2(pmap(cfg_gap_worker, items), 'cfg_token_gaps', new_gstats)
    ck.part('cfg_token_gaps', fillers=[GAP_NAME[f] for f in GAPS], expressions_two_deviations=d1n, expressions_one_deviation=gap_hi - d1n,
            configurations_depth2=len(deep_cfgs))
    for f in GAPS:
        nm = GAP_NAME[f]
        if f.strip(' ') and pg['evaluated:' + nm] and pg['rejected:' + nm]:
            a, b = wit['evaluated:' + nm], wit['rejected:' + nm]
            ck.violation('C20:cfg:white-space-inconsistent:' + nm, 'the same white space (%s) between tokens is skipped in cfg(%r) but makes '
                         'cfg(%r) malformed (%d layouts evaluated, %d rejected)' % (nm, a, b, pg['evaluated:' + nm], pg['rejected:' + nm]),
                         {'kind': 'cfg-ws', 'evaluated': a, 'rejected': b})
    for f in GAPS:
        if f.strip(' '):
            for w in ('evaluated', 'rejected'):
                if pg[w + ':' + GAP_NAME[f]]:
                    classes.add(('cfg-gap', GAP_NAME[f], w))
    ck.require(pg['layouts_other_white_space'] > 20000 and pg['layouts_two_deviations'] > 10000 and pg['layouts_all_gaps_same'] > 1000
               and pg['nontrivial_expressions'] > 500, 'token-gap family degenerate')
    ck.sample({'cfg_gap_layout': gap_layouts(toks_of(D[d1n + 700]), 1, 0)[40][0], 'true_in': bin(ref_mask(D[d1n + 700])).count('1'), 'of': 16})

    plen = ck.q(5, 6)
    pp, _ = absorb2(pmap(cfg_piece_worker, [(n, first) for n in range(1, plen + 1) for first in PIECES]), 'cfg_piece_strings', new_pstats)
    ck.part('cfg_piece_strings', max_pieces=plen, alphabet=len(PIECES))
    ck.require(pp['wf'] > 50 and pp['wf_two_readings'] > 10 and pp['unterminated'] > 1000 and pp['malformed'] > 100000,
               'piece strings degenerate')
    llen = ck.q(3, 4)
    pl, _ = absorb2(pmap(cfg_literal_worker, [(n, c) for n in range(1, llen + 1) for c in LITCHARS]), 'cfg_literal_values', new_pstats)
    ck.part('cfg_literal_values', max_chars=llen, alphabet=len(LITCHARS))
    ck.require(pl['wf_sep_literal'] > 1000 and pl['wf'] > pl['wf_sep_literal'], 'literal values degenerate')
    for p_, nm in ((pp, 'pieces'), (pl, 'literals')):
        for k in ('wf', 'wf_two_readings', 'wf_sep_literal', 'unterminated', 'malformed', 'skipped'):
            if p_[k]:
                classes.add(('cfg-text', nm, k))
    if os.environ.get('VERIF_C20_DEBUG'):
        print('cfg character-level keys: %r' % sorted(cnt2.items()), file=sys.stderr)
    return tot


def cfg_str0():
    out, stats = [], new_stats()
    check_tokens([], (0,), out, stats)
    return out, stats


# =====================================================================================================
def main():
    ck = Check('C20', 'exploration')
    if ck.args.replay:
        return replay(ck)
    classes = set()
    total = skipped = 0
    if ck.want('req'):
        t, s = part_req(ck, classes)
        total += t
        skipped += s
    if ck.want('dep'):
        t, s = part_dep(ck, classes)
        total += t
        skipped += s
    if ck.want('lock'):
        t, s = part_lock(ck, classes)
        total += t
        skipped += s
    if ck.want('order'):
        total += part_order(ck, classes)
    cfg_wf = cfg_mal = 0
    if ck.want('cfg') or ck.want('cfgtok') or ck.want('cfgchar'):      # --only cfgtok / cfgchar: one half of the cfg part (debugging)
        tot = part_cfg(ck, classes)
        total += tot['evals']
        skipped += tot['skipped']
        cfg_wf, cfg_mal = tot['wf'], tot['malformed']
    ck.assume('reference matcher = the semver crate\'s documented comparator semantics (field-wise rules and, independently, the '
              '"equivalent to" bound tables; both transcriptions agree on every release of the grid) with the two deviations pinned by '
              'unittests/cargotests.py: partial =/> pad with zero; an all-zero caret means <1.0.0')
    ck.assume('x and X are wildcard characters like * (1.x, 1.2.X, x): the semver crate\'s parser accepts the three of them in the same '
              'places; only the bare and the I.x / I.J.x / I.x.x spellings are enumerated; x / X after the "-" of a full version is a pre-release '
              'identifier like any other (semver reads a pre-release only after a numeric patch), compared as written')
    ck.assume('Dependency / Cargo.lock families: the requirement in force is the one given at construction or by the last '
              'update_version(); "the most recent satisfying the constraints" (docstring of _resolve_package) = the highest version in '
              'SemVer order among those of that crate in Cargo.lock which the reference matcher accepts; a lock containing a version that '
              'is an unspecified point of the requirement is skipped and counted; Dependency.api is compared with the rule documented in '
              'version.api only for the eight requirements of the history family (elsewhere: same answer as a fresh object, and no '
              'exception other than MesonException); Interpreter.packages is a stub that has a package for every (name, api) key')
    ck.assume('version strings with fewer than three components are read with the missing ones as zero (pinned by cargotests)')
    ck.assume('unspecified, skipped and counted: a pre-release version inside the bounds of a requirement that names a pre-release of a '
              '*different* major.minor.patch (Cargo rejects, meson documents "any pre-release comparator enables pre-releases"); '
              'cfg trailing commas "all(a,)" / "not(a,)"; a bare all/any/not where an option name may stand (Cargo: error, rustc: option '
              'name - either MesonException or the rustc value is accepted, e.g. cfg(all) -> False, but one and the same reading of a word in every position); white space other than U+0020 between '
              'cfg tokens (rustc skips every Pattern_White_Space character, Cargo\'s tokenizer skips U+0020 only and reports a tab or a '
              'newline as an unexpected character): for an expression that is well-formed apart from such white space either the '
              'structural value or MesonException is accepted, never another value, and one kind of white space must get the same '
              'treatment in every expression; not enumerated: "!=", "*" inside a comma list, identifiers with "." or "r#", the cfg literals '
              'true/false, backslash escapes in cfg string literals, characters that Python\'s str.isspace() accepts but neither grammar '
              'does (U+00A0, U+001C..U+001F, U+3000: the real lexer skips them, both grammars reject them)')
    ck.assume('cfg tokens (reference lexer, from the cargo-platform tokenizer and the Rust reference): ( ) , = ; IDENTIFIER '
              '[A-Za-z_][A-Za-z0-9_]*; a string literal extends from a quote to the next quote whatever is in between, a literal that is '
              'never closed makes the expression malformed')
    ck.assume('cfg configuration is the Dict[str,str] the interpreter builds (name-only options map to ""); name="v" holds iff the name is '
              'present with exactly that value')
    ck.finish(evaluations=total, distinct_nontrivial=len(classes), skipped_unspecified=skipped,
              cfg_wellformed_cases=cfg_wf, cfg_malformed_cases=cfg_mal,
              rule='req: every single comparator ({none,^,~,=,<,<=,>,>=} x every I / I.J / I.J.K over {0,1,2}, wildcards I.*, I.J.*, I.*.*, '
                   '7 pre-release forms; + spacing variants, "", "*") and every ordered comma pair of them x a version grid ({0..3}^3 '
                   'releases, partial and +build spellings, 24 pre-releases), real cargo_parse(req)(version) on every point vs the reference '
                   'matcher; a supplementary multi-digit grid ({2,10} vs {1,2,3,9,10,11}^3); the x / X spellings of every wildcard; '
                   'pre-release identifiers of the requirement: every operator x 48 (thorough 88) pre-releases covering [0-9A-Za-z-] '
                   '(numeric, upper / lower / mixed case, hyphens, x / X as identifiers; one and two identifiers) on 1.2.3 and 0.0.3 x '
                   'every version of that triple with a pre-release of the same set + neighbouring releases, and every range '
                   '">=T-a, <T-b" / ">T-a, <=T-b" on 1.2.3. '
                   'dep: every sequence of <=4 (thorough 5) operations over {read accepts_version on 12 versions, read api, '
                   'update_version(r) for r in 6 (thorough 8) requirements that pairwise differ on the version list} x every initial '
                   'requirement x {string, table, workspace table, workspace string} + a dependency without version, each on a fresh '
                   'manifest.Dependency built by Dependency.from_raw, every read vs the reference matcher for the current requirement. '
                   'lock: every non-empty subset of 7 (thorough 9) versions as the entries of one crate in a Cargo.lock read by '
                   'load_cargo_lock, in 2 (thorough 3) file orders, x every single comparator: _resolve_package vs the highest accepted '
                   'version, then _dep_package twice on a Dependency and its accepts_version / api afterwards. order: all six operators on every pair of the '
                   'version set, axioms over all triples on the recorded matrix, section-11 reference sign on every pair. cfg: every '
                   'expression of depth<=2 (all/any arity 0-2, not, atoms a, b, a="x", b="") in 3 spellings, a depth-3 layer, all '
                   'single-token deletions/duplications/replacements/insertions, all token strings up to the bound, each x configurations; '
                   'token gaps: every expression of depth<=1 with <=2 gaps (of the compact spelling; <=1 of the manifest spelling) and every '
                   'expression of depth 2 (quick: the first 1200) with <=1 gap filled with every other filler of {nothing, space, two '
                   'spaces, tab, newline, CR LF, mixed}, plus every filler in all gaps; every concatenation of <=5 (thorough 6) pieces over '
                   '{a, x, all, any, not, ( ) , = ", blank, tab, newline} read by the reference lexer; a = "value" for every value of <=3 '
                   '(thorough 4) characters over {x, blank, tab, comma, ( ) =} alone and inside not/all/any. '
                   'distinct_nontrivial = distinct (part, comparator class | order sign x pre-release-ness | cfg node, outcome) classes '
                   'observed in the reference',
              exhaustive=True)


def replay(ck):
    d = json.load(open(ck.args.replay))
    kind = d.get('kind')
    bad = False
    if kind == 'req':
        cs = ref_parse_req(d['req'])
        e = expected(cs, d['version'])
        try:
            got = impl_accepts(d['req'])(d['version'])
        except Exception as ex:  # noqa
            got = 'raised %s' % type(ex).__name__
        print('requirement %r version %r: Cargo rule %r, cargo_parse says %r' % (d['req'], d['version'], e, got))
        bad = e is not None and got is not e
    elif kind == 'order':
        a, b = d['a'], d['b']
        c = sem_cmp(parse_version(a), parse_version(b))
        x, y = SemVer(a), SemVer(b)
        obs = {op: PYOP[op](x, y) for op in OPS}
        want = {'lt': c < 0, 'gt': c > 0, 'le': c <= 0, 'ge': c >= 0, 'eq': c == 0, 'ne': c != 0}
        print('SemVer(%r) vs SemVer(%r): section 11 sign %d -> %r ; observed %r' % (a, b, c, want, obs))
        bad = obs != want
        if 'c' in d:
            z = SemVer(d['c'])
            print('  transitivity: a<=b %r, b<=c %r, a<=c %r' % (x <= y, y <= z, x <= z))
            bad = bad or (x <= y and y <= z and not x <= z)
    elif kind == 'cfg':
        text = d['expr']
        r = impl_cfg(text, d['cfgs'])
        if 'accept' in d:
            print('eval_cfg(%r, %r): expected %s, observed %r' % ('cfg(' + text + ')', d['cfgs'], ' or '.join(
                'MesonException' if a == 'raise' else repr(a) for a in d['accept']), r))
            bad = not ((r[0] == 'raise' and 'raise' in d['accept']) or (r[0] == 'val' and any(r[1] is a for a in d['accept'])))
        else:
            print('eval_cfg(%r, %r): expected %r, observed %r' % ('cfg(' + text + ')', d['cfgs'], d['expected'], r))
            if d['expected'] == 'MesonException':
                bad = r[0] != 'raise'
            elif isinstance(d['expected'], str) and d['expected'].startswith('MesonException or '):
                bad = not (r[0] == 'raise' or (r[0] == 'val' and repr(r[1]) == d['expected'][18:]))
            else:
                bad = not (r[0] == 'val' and r[1] is d['expected'])
    elif kind == 'dep':
        ops = [tuple(o) for o in d['ops']]
        res, _, log = dep_run(d['form'], d['initial'], ops)
        print('%s dependency with requirement %r' % (d['form'], d['initial']))
        for line in log:
            print('  ' + line)
        for step, key, text in res:
            print('  step %d [%s]: %s' % (step + 1, key, text))
        bad = bool(res)
    elif kind == 'lock':
        global LOCK_N, LOCK_RANK, LOCK_DIR
        from verif.core import scratch_root
        ck.require(d['versions'] == LOCK_VERS[:len(d['versions'])], 'version list of the recorded case is not the one of this check')
        LOCK_N = len(d['versions'])
        P = [parse_version(v) for v in d['versions']]
        LOCK_RANK = [sum(1 for q in P if sem_cmp(q, p) < 0) for p in P]
        LOCK_DIR = os.path.join(scratch_root(), 'c20lock')
        acc, spec = ref_masks(d['req'], d['versions'])
        res, _, log = lock_case(load_lock(d['order'], 'replay'), d['order'], d['req'], acc, spec)
        print('Cargo.lock with foo %s, requirement %r' % ([d['versions'][k] for k in d['order']], d['req']))
        for line in log:
            print('  ' + line)
        for key, text in res:
            print('  [%s]: %s' % (key, text))
        bad = bool(res)
    elif kind == 'cfg-kw':
        cs = [{}, {d['word']: ''}, {d['word']: 'x'}]
        ra = [impl_cfg(d['name'], c) for c in cs]
        rb = [impl_cfg(d['rejected'], c) for c in cs]
        print('cfg(%s): %r ; cfg(%s): %r' % (d['name'], ra, d['rejected'], rb))
        bad = {r[0] for r in ra} == {'val'} and {r[0] for r in rb} == {'raise'}
    elif kind == 'cfg-ws':
        ra = [impl_cfg(d['evaluated'], c)[0] for c in CFGS]
        rb = [impl_cfg(d['rejected'], c)[0] for c in CFGS]
        print('cfg(%r): %s ; cfg(%r): %s' % (d['evaluated'], sorted(set(ra)), d['rejected'], sorted(set(rb))))
        bad = set(ra) == {'val'} and set(rb) == {'raise'}
    else:
        ck.internal('unknown replay kind %r' % kind)
    print('still violates' if bad else 'no longer violates')
    sys.exit(1 if bad else 0)


run_main(main)
