# E6: reference lexer, parser and evaluator for the Meson core language.
#
# Written from docs/markdown/Syntax.md, docs/yaml/elementary/*.yml, docs/yaml/functions/{range,*_variable}.yaml
# and the clauses of property C01 (comparisons do not chain, unary operators do not stack, a ternary inside a
# ternary is rejected, floor division/modulo, strict typing, sorted dict.keys(), escapes only in '...').
# It does NOT import mesonbuild.  Results: a variable table of typed Python values, or Fail (the program must be
# rejected), or Unspecified (the docs do not prescribe the outcome: callers skip and count these).
from __future__ import annotations
import re
import typing as T


class Fail(Exception):
    """The reference says this program is erroneous (syntax or evaluation)."""


class SyntaxFail(Fail):
    pass


class Unspecified(Exception):
    """Outcome not prescribed by the documentation; never compared."""


# =========================================================================================================
# Lexer
KEYWORDS = {'true', 'false', 'if', 'else', 'elif', 'endif', 'and', 'or', 'not', 'foreach', 'endforeach', 'in',
            'continue', 'break'}

_TOK = re.compile(r'''
   (?P<ws>[ \t]+)
 | (?P<cont>\\[ \t]*(?:\#[^\n]*)?\n)
 | (?P<comment>\#[^\n]*)
 | (?P<nl>\n)
 | (?P<mfstr>f\'\'\'(?:.|\n)*?\'\'\')
 | (?P<mstr>\'\'\'(?:.|\n)*?\'\'\')
 | (?P<fstr>f'(?:[^'\\]|\\.)*')
 | (?P<str>'(?:[^'\\]|\\.)*')
 | (?P<id>[A-Za-z_][A-Za-z_0-9]*)
 | (?P<num>0[bB][01]+|0[oO][0-7]+|0[xX][0-9a-fA-F]+|0|[1-9][0-9]*)
 | (?P<op>\+=|==|!=|<=|>=|[()\[\]{},.+\-*%/:=<>?])
''', re.X)


class Tok(T.NamedTuple):
    kind: str      # id, kw, num, str, op, nl, eof
    val: T.Any
    pos: int
    end: int
    extra: T.Any = None   # for strings: (is_f, is_multi, raw_body)


def lex(text: str, lenient_nl: bool = False) -> T.Tuple[T.List[Tok], T.List[str]]:
    """Returns (tokens, comments).  Newlines inside (), [], {} are not tokens.
    lenient_nl: read a raw newline inside '...' (deprecated, announced hard error) as that character instead of
    raising Unspecified (used by C17 to keep comparing values after it has reported the construct)."""
    toks: T.List[Tok] = []
    comments: T.List[str] = []
    depth = 0
    i = 0
    n = len(text)
    if text.startswith('﻿'):
        raise SyntaxFail('BOM')
    while i < n:
        m = _TOK.match(text, i)
        if not m:
            raise SyntaxFail('bad character %r at %d' % (text[i], i))
        k = m.lastgroup
        s = m.group()
        j = m.end()
        if k == 'ws':
            pass
        elif k == 'cont':
            if '#' in s:
                comments.append(s[s.index('#'):].rstrip('\n'))
        elif k == 'comment':
            comments.append(s)
        elif k == 'nl':
            if depth == 0:
                toks.append(Tok('nl', '\n', i, j))
        elif k in ('str', 'fstr', 'mstr', 'mfstr'):
            is_f = k in ('fstr', 'mfstr')
            is_m = k in ('mstr', 'mfstr')
            body = s[(1 if is_f else 0) + (3 if is_m else 1):-(3 if is_m else 1)]
            if not is_m and '\n' in body and not lenient_nl:
                raise Unspecified('newline inside a single-quoted string (deprecated)')
            val = body if is_m else decode_escapes(body)
            toks.append(Tok('str', val, i, j, (is_f, is_m, body)))
        elif k == 'id':
            if s in KEYWORDS:
                toks.append(Tok('kw', s, i, j))
            else:
                toks.append(Tok('id', s, i, j))
        elif k == 'num':
            # a number immediately followed by an identifier character or digit is not a valid literal
            if j < n and (text[j].isalnum() or text[j] == '_'):
                raise SyntaxFail('malformed number at %d' % i)
            toks.append(Tok('num', int(s, 0) if len(s) > 1 and s[1] in 'bBoOxX' else int(s), i, j, s))
        elif k == 'op':
            if s in '([{':
                depth += 1
            elif s in ')]}':
                depth -= 1
            toks.append(Tok('op', s, i, j))
        i = j
    toks.append(Tok('eof', None, n, n))
    return toks, comments


_ESC_SIMPLE = {'\\': '\\', "'": "'", 'a': '\a', 'b': '\b', 'f': '\f', 'n': '\n', 'r': '\r', 't': '\t', 'v': '\v'}

# \N{name}: "Character named name in Unicode database" (Syntax.md).  The reference does not consult a database: a
# caller that wants such escapes read registers the (exact, upper-case) names it vouches for here, with the character
# the Unicode standard gives them; every other name stays Unspecified.  Empty by default, so a check that does not
# register anything sees the behaviour it always saw (C16 registers the handful of names its string family uses).
NAMED_ESCAPES: T.Dict[str, str] = {}


def decode_escapes(body: str) -> str:
    """Escape sequences of Syntax.md; unrecognised ones are left unchanged (backslash kept)."""
    out = []
    i = 0
    n = len(body)
    while i < n:
        c = body[i]
        if c != '\\' or i + 1 >= n:
            out.append(c)
            i += 1
            continue
        d = body[i + 1]
        if d in _ESC_SIMPLE:
            out.append(_ESC_SIMPLE[d])
            i += 2
        elif d in '01234567':
            j = i + 1
            while j < n and j < i + 4 and body[j] in '01234567':
                j += 1
            v = int(body[i + 1:j], 8)
            if v > 0x10ffff:
                raise Unspecified('octal escape out of range')
            out.append(chr(v))
            i = j
        elif d == 'x':
            h = body[i + 2:i + 4]
            if len(h) == 2 and all(ch in '0123456789abcdefABCDEF' for ch in h):
                out.append(chr(int(h, 16)))
                i += 4
            else:
                raise Unspecified('malformed \\x escape')
        elif d == 'u':
            h = body[i + 2:i + 6]
            if len(h) == 4 and all(ch in '0123456789abcdefABCDEF' for ch in h):
                out.append(chr(int(h, 16)))
                i += 6
            else:
                raise Unspecified('malformed \\u escape')
        elif d == 'U':
            h = body[i + 2:i + 10]
            if len(h) == 8 and all(ch in '0123456789abcdefABCDEF' for ch in h) and int(h, 16) <= 0x10ffff:
                out.append(chr(int(h, 16)))
                i += 10
            else:
                raise Unspecified('malformed \\U escape')
        elif d == 'N':
            j = body.find('}', i + 3) if body[i + 2:i + 3] == '{' else -1
            ch = NAMED_ESCAPES.get(body[i + 3:j]) if j > 0 else None
            if ch is None:
                raise Unspecified('\\N{name} escape (unicode database lookup)')
            out.append(ch)
            i = j + 1
        else:
            out.append('\\')
            out.append(d)
            i += 2
    return ''.join(out)


# =========================================================================================================
# Parser (AST as tuples)
CMP_OPS = {'==', '!=', '<', '<=', '>', '>='}


class Parser:
    def __init__(self, text: str, lenient_nl: bool = False):
        self.text = text
        self.toks, self.comments = lex(text, lenient_nl)
        self.i = 0
        self.in_ternary = 0
        # (start offset, end offset, node) of every simple (non-if/foreach) statement at any nesting depth, in
        # source order: the statement extents C16/C17 use to decide "every other statement is unchanged"
        self.leaves: T.List[T.Tuple[int, int, tuple]] = []

    @property
    def t(self) -> Tok:
        return self.toks[self.i]

    def adv(self) -> Tok:
        t = self.toks[self.i]
        self.i += 1
        return t

    def is_op(self, v: str) -> bool:
        return self.t.kind == 'op' and self.t.val == v

    def is_kw(self, v: str) -> bool:
        return self.t.kind == 'kw' and self.t.val == v

    def expect_op(self, v: str) -> None:
        if not self.is_op(v):
            raise SyntaxFail('expected %r at %d, got %r' % (v, self.t.pos, self.t.val))
        self.adv()

    def expect_nl(self) -> None:
        if self.t.kind == 'eof':
            return
        if self.t.kind != 'nl':
            raise SyntaxFail('expected end of line at %d, got %r' % (self.t.pos, self.t.val))
        self.adv()

    # program := (NEWLINE | statement NEWLINE)*
    def parse(self):
        b = self.block(())
        if self.t.kind != 'eof':
            raise SyntaxFail('unexpected %r at %d' % (self.t.val, self.t.pos))
        return b

    def block(self, enders):
        stmts = []
        while True:
            while self.t.kind == 'nl':
                self.adv()
            if self.t.kind == 'eof':
                return stmts
            if self.t.kind == 'kw' and self.t.val in enders:
                return stmts
            stmts.append(self.statement())
            if self.t.kind == 'kw' and self.t.val in enders:
                # e.g. "if x\n a = 1 endif" is not valid: a statement ends with NEWLINE
                raise SyntaxFail('statement not terminated by a newline at %d' % self.t.pos)
            self.expect_nl()

    def statement(self):
        t = self.t
        if t.kind == 'kw':
            if t.val == 'if':
                return self.ifstmt()
            if t.val == 'foreach':
                return self.foreach()
        node = self.simple_statement()
        self.leaves.append((t.pos, self.toks[self.i - 1].end, node))
        return node

    def simple_statement(self):
        t = self.t
        if t.kind == 'kw':
            if t.val == 'break':
                self.adv()
                return ('break',)
            if t.val == 'continue':
                self.adv()
                return ('continue',)
            if t.val in ('elif', 'else', 'endif', 'endforeach', 'in', 'and', 'or'):
                raise SyntaxFail('unexpected keyword %s at %d' % (t.val, t.pos))
        start = self.i
        if t.kind == 'id' and self.toks[self.i + 1].kind == 'op' and self.toks[self.i + 1].val in ('=', '+='):
            name = self.adv().val
            op = self.adv().val
            e = self.expression()
            return ('assign' if op == '=' else 'plusassign', name, e)
        e = self.expression()
        if self.is_op('=') or self.is_op('+='):
            raise SyntaxFail('assignment target must be an identifier at %d' % self.toks[start].pos)
        return ('expr', e)

    def ifstmt(self):
        self.adv()
        clauses = []
        cond = self.expression()
        self.need_nl()
        body = self.block(('elif', 'else', 'endif'))
        clauses.append((cond, body))
        els = None
        while True:
            if self.is_kw('elif'):
                self.adv()
                cond = self.expression()
                self.need_nl()
                body = self.block(('elif', 'else', 'endif'))
                clauses.append((cond, body))
            elif self.is_kw('else'):
                self.adv()
                self.need_nl()
                els = self.block(('endif',))
                if not self.is_kw('endif'):
                    raise SyntaxFail('expected endif at %d' % self.t.pos)
                self.adv()
                break
            elif self.is_kw('endif'):
                self.adv()
                break
            else:
                raise SyntaxFail('expected endif at %d' % self.t.pos)
        return ('if', clauses, els)

    def need_nl(self):
        if self.t.kind != 'nl':
            raise SyntaxFail('expected newline at %d' % self.t.pos)
        self.adv()

    def foreach(self):
        self.adv()
        if self.t.kind != 'id':
            raise SyntaxFail('foreach variable expected at %d' % self.t.pos)
        names = [self.adv().val]
        if self.is_op(','):
            self.adv()
            if self.t.kind != 'id':
                raise SyntaxFail('foreach variable expected at %d' % self.t.pos)
            names.append(self.adv().val)
        self.expect_op(':')
        it = self.expression()
        self.need_nl()
        body = self.block(('endforeach',))
        if not self.is_kw('endforeach'):
            raise SyntaxFail('expected endforeach at %d' % self.t.pos)
        self.adv()
        return ('foreach', names, it, body)

    # expression := or_expr ['?' expression ':' expression]   (a ternary inside a ternary is rejected)
    def expression(self):
        c = self.or_expr()
        if self.is_op('?'):
            if self.in_ternary:
                raise SyntaxFail('nested ternary at %d' % self.t.pos)
            self.adv()
            self.in_ternary += 1
            a = self.expression()
            self.expect_op(':')
            b = self.expression()
            self.in_ternary -= 1
            return ('tern', c, a, b)
        return c

    def or_expr(self):
        l = self.and_expr()
        while self.is_kw('or'):
            self.adv()
            l = ('or', l, self.and_expr())
        return l

    def and_expr(self):
        l = self.cmp_expr()
        while self.is_kw('and'):
            self.adv()
            l = ('and', l, self.cmp_expr())
        return l

    def cmp_op(self) -> T.Optional[str]:
        t = self.t
        if t.kind == 'op' and t.val in CMP_OPS:
            self.adv()
            return t.val
        if t.kind == 'kw' and t.val == 'in':
            self.adv()
            return 'in'
        if t.kind == 'kw' and t.val == 'not' and self.toks[self.i + 1].kind == 'kw' and self.toks[self.i + 1].val == 'in':
            self.adv()
            self.adv()
            return 'not in'
        return None

    def cmp_expr(self):
        l = self.add_expr()
        op = self.cmp_op()
        if op is None:
            return l
        r = self.add_expr()
        if self.cmp_op() is not None:
            raise SyntaxFail('comparisons do not chain (at %d)' % self.t.pos)
        return ('cmp', op, l, r)

    def add_expr(self):
        l = self.mul_expr()
        while self.t.kind == 'op' and self.t.val in ('+', '-'):
            op = self.adv().val
            l = ('bin', op, l, self.mul_expr())
        return l

    def mul_expr(self):
        l = self.unary()
        while self.t.kind == 'op' and self.t.val in ('*', '/', '%'):
            op = self.adv().val
            l = ('bin', op, l, self.unary())
        return l

    def unary(self):
        if self.is_kw('not'):
            self.adv()
            if self.is_kw('not') or self.is_op('-'):
                raise SyntaxFail('unary operators do not stack (at %d)' % self.t.pos)
            return ('not', self.postfix())
        if self.is_op('-'):
            self.adv()
            if self.is_kw('not') or self.is_op('-'):
                raise SyntaxFail('unary operators do not stack (at %d)' % self.t.pos)
            return ('neg', self.postfix())
        return self.postfix()

    def postfix(self):
        e = self.primary()
        while True:
            if self.is_op('.'):
                self.adv()
                if self.t.kind != 'id':
                    raise SyntaxFail('method name expected at %d' % self.t.pos)
                name = self.adv().val
                self.expect_op('(')
                args, kwargs = self.args(')')
                e = ('meth', e, name, args, kwargs)
            elif self.is_op('['):
                self.adv()
                idx = self.expression()
                self.expect_op(']')
                e = ('idx', e, idx)
            else:
                return e

    def primary(self):
        t = self.t
        if t.kind == 'num':
            self.adv()
            return ('num', t.val, t.extra)
        if t.kind == 'str':
            self.adv()
            is_f, is_m, body = t.extra
            return ('fstr' if is_f else 'str', t.val, is_m, body)
        if t.kind == 'kw' and t.val in ('true', 'false'):
            self.adv()
            return ('bool', t.val == 'true')
        if t.kind == 'id':
            self.adv()
            if self.is_op('('):
                self.adv()
                args, kwargs = self.args(')')
                return ('call', t.val, args, kwargs)
            return ('id', t.val)
        if t.kind == 'op' and t.val == '(':
            self.adv()
            saved = self.in_ternary
            e = self.expression()
            self.in_ternary = saved
            self.expect_op(')')
            return ('paren', e)
        if t.kind == 'op' and t.val == '[':
            self.adv()
            args, kwargs = self.args(']')
            if kwargs:
                raise SyntaxFail('keyword argument in array literal')
            return ('arr', args)
        if t.kind == 'op' and t.val == '{':
            self.adv()
            items = []
            while not self.is_op('}'):
                k = self.expression()
                self.expect_op(':')
                v = self.expression()
                items.append((k, v))
                if self.is_op(','):
                    self.adv()
                else:
                    break
            self.expect_op('}')
            return ('dict', items)
        raise SyntaxFail('unexpected %r at %d' % (t.val, t.pos))

    def args(self, closer: str):
        """positional_arguments [',' keyword_arguments] | keyword_arguments ; trailing comma tolerated."""
        pos, kw = [], []
        while not self.is_op(closer):
            if self.t.kind == 'id' and self.toks[self.i + 1].kind == 'op' and self.toks[self.i + 1].val == ':':
                name = self.adv().val
                self.adv()
                kw.append((name, self.expression()))
            else:
                e = self.expression()
                if self.is_op(':'):
                    raise SyntaxFail('keyword must be a plain identifier at %d' % self.t.pos)
                if kw:
                    raise SyntaxFail('positional argument after keyword argument at %d' % self.t.pos)
                pos.append(e)
            if self.is_op(','):
                self.adv()
            else:
                break
        self.expect_op(closer)
        return pos, kw


def parse(text: str):
    return Parser(text).parse()


def parse_with_comments(text: str):
    p = Parser(text)
    return p.parse(), p.comments


# =========================================================================================================
# Values: int (never bool), bool, str, list, dict (insertion ordered), RangeV.  Void is None.
class RangeV(T.NamedTuple):
    start: int
    stop: int
    step: int

    def items(self):
        return list(range(self.start, self.stop, self.step))


class Opaque(T.NamedTuple):
    """Value of a call to a function outside the core language (files(), executable(), ...) when the caller of
    Evaluator asked for such calls to be kept as uninterpreted constructors (C17)."""
    fname: str
    args: tuple
    kwargs: tuple     # ((name, value), ...) in source order


def tname(v) -> str:
    if v is None:
        return 'void'
    if isinstance(v, Opaque):
        return 'opaque'
    if isinstance(v, bool):
        return 'bool'
    if isinstance(v, int):
        return 'int'
    if isinstance(v, str):
        return 'str'
    if isinstance(v, list):
        return 'list'
    if isinstance(v, dict):
        return 'dict'
    if isinstance(v, RangeV):
        return 'range'
    raise AssertionError(v)


def has_mixed_int_bool(a, b) -> bool:
    """True if comparing a with b would at some nesting level compare an int with a bool."""
    ta, tb = tname(a), tname(b)
    if {ta, tb} == {'int', 'bool'}:
        return True
    if ta == tb == 'list':
        return any(has_mixed_int_bool(x, y) for x, y in zip(a, b))
    if ta == tb == 'dict':
        return any(has_mixed_int_bool(a[k], b[k]) for k in a if k in b)
    return False


def deep_eq(a, b) -> bool:
    """Typed deep equality: true != 1, [1] != [true]."""
    ta, tb = tname(a), tname(b)
    if ta != tb:
        return False
    if ta == 'list':
        return len(a) == len(b) and all(deep_eq(x, y) for x, y in zip(a, b))
    if ta == 'dict':
        return set(a) == set(b) and all(deep_eq(a[k], b[k]) for k in a)
    return a == b


class _Break(Exception):
    pass


class _Continue(Exception):
    pass


RESERVED_VARS = {'meson', 'build_machine', 'host_machine', 'target_machine'}


class Evaluator:
    """Evaluates an AST.  `funcs` may add host functions (name -> callable(ev, args, kwargs))."""

    def __init__(self, variables: T.Optional[dict] = None, opaque_calls: bool = False):
        self.vars: T.Dict[str, T.Any] = dict(variables or {})
        self.loop_depth = 0
        self.messages: T.List[str] = []
        # opaque_calls: a function outside the core language evaluates to Opaque(name, args, kwargs) instead of
        # raising Unspecified; every such call is appended to self.calls in evaluation order
        self.opaque_calls = opaque_calls
        self.calls: T.List[Opaque] = []

    # ---- statements ----
    def run(self, block) -> T.Dict[str, T.Any]:
        self.exec_block(block)
        return self.vars

    def exec_block(self, block) -> None:
        for s in block:
            self.exec_stmt(s)

    def exec_stmt(self, s) -> None:
        k = s[0]
        if k == 'assign':
            v = self.ev(s[2])
            self.assign(s[1], v)
        elif k == 'plusassign':
            add = self.ev(s[2])
            if add is None:
                raise Fail('+= with void')
            if s[1] not in self.vars:
                raise Fail('+= on undefined variable')
            self.assign(s[1], self.binop('+', self.vars[s[1]], add))
        elif k == 'expr':
            self.ev(s[1])
        elif k == 'if':
            for cond, body in s[1]:
                c = self.ev(cond)
                if not isinstance(c, bool):
                    raise Fail('if condition is not boolean')
                if c:
                    self.exec_block(body)
                    return
            if s[2] is not None:
                self.exec_block(s[2])
        elif k == 'foreach':
            names, it_e, body = s[1], s[2], s[3]
            it = self.ev(it_e)
            if isinstance(it, list):
                if len(names) != 1:
                    raise Fail('foreach over array takes one variable')
                seq = [(x,) for x in it]
            elif isinstance(it, RangeV):
                if len(names) != 1:
                    raise Fail('foreach over range takes one variable')
                seq = [(x,) for x in it.items()]
            elif isinstance(it, dict):
                if len(names) != 2:
                    raise Fail('foreach over dict takes two variables')
                seq = list(it.items())
            else:
                raise Fail('foreach over non-iterable')
            self.loop_depth += 1
            try:
                for tup in seq:
                    for n, v in zip(names, tup):
                        self.assign(n, v)
                    try:
                        self.exec_block(body)
                    except _Continue:
                        continue
                    except _Break:
                        break
            finally:
                self.loop_depth -= 1
        elif k == 'break':
            if not self.loop_depth:
                raise Fail('break outside loop')
            raise _Break()
        elif k == 'continue':
            if not self.loop_depth:
                raise Fail('continue outside loop')
            raise _Continue()
        else:
            raise AssertionError(k)

    def assign(self, name: str, v) -> None:
        if v is None:
            raise Fail('assigning void')
        if name in RESERVED_VARS:
            raise Fail('assigning to a builtin object name')
        self.vars[name] = v

    # ---- expressions ----
    def ev(self, e):
        k = e[0]
        if k == 'num':
            return e[1]
        if k == 'bool':
            return e[1]
        if k == 'str':
            return e[1]
        if k == 'fstr':
            return self.fstring(e[1])
        if k == 'id':
            if e[1] not in self.vars:
                if e[1] in RESERVED_VARS:
                    raise Unspecified('builtin object')
                raise Fail('unknown variable %s' % e[1])
            return self.vars[e[1]]
        if k == 'paren':
            return self.ev(e[1])
        if k == 'arr':
            out = []
            for x in e[1]:
                v = self.ev(x)
                if v is None:
                    raise Fail('void in array')
                if isinstance(v, RangeV):
                    raise Unspecified('range object stored in a container')
                out.append(v)
            return out
        if k == 'dict':
            d: T.Dict[str, T.Any] = {}
            for ke, ve in e[1]:
                kv = self.ev(ke)
                if not isinstance(kv, str):
                    raise Fail('dict key must be a string')
                if kv in d:
                    raise Fail('duplicate dict key')
                v = self.ev(ve)
                if v is None:
                    raise Fail('void in dict')
                if isinstance(v, RangeV):
                    raise Unspecified('range object stored in a container')
                d[kv] = v
            return d
        if k == 'not':
            v = self.ev(e[1])
            if not isinstance(v, bool):
                raise Fail('not on non-boolean')
            return not v
        if k == 'neg':
            v = self.ev(e[1])
            if tname(v) != 'int':
                raise Fail('unary minus on non-int')
            return -v
        if k == 'and':
            l = self.ev(e[1])
            if not isinstance(l, bool):
                raise Fail('and on non-boolean')
            if not l:
                return False
            r = self.ev(e[2])
            if not isinstance(r, bool):
                raise Fail('and on non-boolean')
            return r
        if k == 'or':
            l = self.ev(e[1])
            if not isinstance(l, bool):
                raise Fail('or on non-boolean')
            if l:
                return True
            r = self.ev(e[2])
            if not isinstance(r, bool):
                raise Fail('or on non-boolean')
            return r
        if k == 'tern':
            c = self.ev(e[1])
            if not isinstance(c, bool):
                raise Fail('ternary condition not boolean')
            return self.ev(e[2] if c else e[3])
        if k == 'bin':
            l = self.ev(e[2])
            r = self.ev(e[3])
            return self.binop(e[1], l, r)
        if k == 'cmp':
            l = self.ev(e[2])
            r = self.ev(e[3])
            return self.compare(e[1], l, r)
        if k == 'idx':
            o = self.ev(e[1])
            i = self.ev(e[2])
            return self.index(o, i)
        if k == 'call':
            return self.call(e[1], e[2], e[3])
        if k == 'meth':
            o = self.ev(e[1])
            args = [self.ev(a) for a in e[3]]
            kwargs = {}
            for n, ve in e[4]:
                if n in kwargs:
                    raise Unspecified('keyword argument given twice (warning today, announced future error)')
                kwargs[n] = self.ev(ve)
            if any(a is None for a in args) or any(v is None for v in kwargs.values()):
                raise Fail('void argument')
            return self.method(o, e[2], args, kwargs)
        raise AssertionError(k)

    def binop(self, op, l, r):
        tl, tr = tname(l), tname(r)
        if tl == 'void' or tr == 'void':
            raise Fail('void operand')
        if {tl, tr} == {'int', 'bool'}:
            raise Unspecified('int/bool mixing in arithmetic (documented as broken)')
        if tl == 'range' or tr == 'range':
            if op == '+' and tl == 'list':
                raise Unspecified('range object stored in a container')
            raise Fail('range supports no operators')
        if (tl == 'opaque' or tr == 'opaque') and not (op == '+' and tl == 'list'):
            raise Unspecified('operator on an object outside the core language model')
        if op == '+':
            if tl == 'int' and tr == 'int':
                return l + r
            if tl == 'str' and tr == 'str':
                return l + r
            if tl == 'list':
                return l + (r if tr == 'list' else [r])
            if tl == 'dict' and tr == 'dict':
                d = dict(l)
                d.update(r)
                return d
            raise Fail('bad operands for +')
        if op in ('-', '*', '%'):
            if tl == 'int' and tr == 'int':
                if op == '-':
                    return l - r
                if op == '*':
                    return l * r
                if r == 0:
                    raise Fail('modulo by zero')
                return l % r
            raise Fail('bad operands for ' + op)
        if op == '/':
            if tl == 'int' and tr == 'int':
                if r == 0:
                    raise Fail('division by zero')
                return l // r
            if tl == 'str' and tr == 'str':
                return path_join(l, r)
            raise Fail('bad operands for /')
        raise AssertionError(op)

    def compare(self, op, l, r):
        tl, tr = tname(l), tname(r)
        if tl == 'void' or tr == 'void':
            raise Fail('void operand')
        if tl == 'opaque' or tr == 'opaque':
            raise Unspecified('comparison of an object outside the core language model')
        if op in ('in', 'not in'):
            if tr == 'list':
                if tl == 'range':
                    raise Unspecified('range as element')
                if any(has_mixed_int_bool(l, x) for x in r):
                    raise Unspecified('int/bool mixing in container membership')
                res = any(deep_eq(l, x) for x in r)
            elif tr == 'dict':
                if tl != 'str':
                    raise Unspecified('non-string key tested against a dict (Syntax.md says false, the method docs demand str)')
                res = l in r
            elif tr == 'str':
                if tl != 'str':
                    raise Fail('in on str needs str')
                res = l in r
            else:
                raise Fail('in on unsupported container')
            return res if op == 'in' else not res
        if 'range' in (tl, tr):
            raise Unspecified('comparison of range objects')
        if op in ('==', '!='):
            if tl != tr:
                if {tl, tr} == {'int', 'bool'}:
                    raise Unspecified('int/bool comparison')
                raise Fail('comparison of different types')
            if has_mixed_int_bool(l, r):
                raise Unspecified('int/bool mixing inside compared containers')
            res = deep_eq(l, r)
            return res if op == '==' else not res
        # ordering
        if {tl, tr} == {'int', 'bool'}:
            raise Unspecified('int/bool comparison')
        if tl == 'int' and tr == 'int' or tl == 'str' and tr == 'str':
            return {'<': l < r, '<=': l <= r, '>': l > r, '>=': l >= r}[op]
        raise Fail('ordering on unsupported types')

    def index(self, o, i):
        to, ti = tname(o), tname(i)
        if to == 'opaque' or ti == 'opaque':
            raise Unspecified('indexing with an object outside the core language model')
        if to in ('list', 'str', 'range'):
            if ti == 'bool':
                raise Unspecified('bool used as index')
            if ti != 'int':
                raise Fail('index must be int')
            seq = o.items() if to == 'range' else o
            if to == 'range' and i < 0:
                raise Unspecified('negative index on range')
            if to == 'str' and i < 0:
                # Syntax.md only documents negative indexing for arrays
                if -len(seq) <= i:
                    return seq[i]
                raise Fail('index out of range')
            if -len(seq) <= i < len(seq):
                return seq[i]
            raise Fail('index out of range')
        if to == 'dict':
            if ti != 'str':
                raise Fail('dict index must be str')
            if i not in o:
                raise Fail('missing key')
            return o[i]
        raise Fail('not indexable')

    def fstring(self, body: str) -> str:
        def rep(m):
            name = m.group(1)
            if name not in self.vars:
                if name in RESERVED_VARS:
                    raise Unspecified('builtin object in f-string')
                raise Fail('unknown variable in f-string')
            return self.render(self.vars[name])
        if '\\' in body and '@' in body:
            raise Unspecified('backslash near placeholders in f-string')
        return re.sub(r'@([_a-zA-Z][_0-9a-zA-Z]*)@', rep, body)

    def render(self, v) -> str:
        t = tname(v)
        if t == 'str':
            return v
        if t == 'int':
            return str(v)
        if t == 'bool':
            return 'true' if v else 'false'
        raise Unspecified('rendering of %s in a string' % t)

    # ---- functions ----
    def call(self, name, arg_es, kw_es):
        args = [self.ev(a) for a in arg_es]
        kwargs = {}
        for n, ve in kw_es:
            if n in kwargs:
                raise Unspecified('keyword argument given twice (warning today, announced future error)')
            kwargs[n] = self.ev(ve)
        if name == 'set_variable':
            if kwargs or len(args) != 2 or tname(args[0]) != 'str':
                raise Fail('set_variable(str, any)')
            if not re.fullmatch(r'[_a-zA-Z][_0-9a-zA-Z]*', args[0]):
                raise Fail('invalid variable name')
            self.assign(args[0], args[1])
            return None
        if any(a is None for a in args) or any(v is None for v in kwargs.values()):
            raise Fail('void argument')
        if name == 'get_variable':
            if kwargs or len(args) not in (1, 2):
                raise Fail('get_variable arity')
            if tname(args[0]) != 'str':
                raise Unspecified('get_variable with a non-string name')
            if args[0] in self.vars:
                return self.vars[args[0]]
            if args[0] in RESERVED_VARS:
                raise Unspecified('builtin object')
            if len(args) == 2:
                return args[1]
            raise Fail('unknown variable')
        if name == 'is_variable':
            if kwargs or len(args) != 1 or tname(args[0]) != 'str':
                raise Fail('is_variable(str)')
            if args[0] in RESERVED_VARS:
                raise Unspecified('builtin object')
            return args[0] in self.vars
        if name == 'unset_variable':
            if kwargs or len(args) != 1 or tname(args[0]) != 'str':
                raise Fail('unset_variable(str)')
            if args[0] in RESERVED_VARS:
                raise Unspecified('builtin object')
            if args[0] not in self.vars:
                raise Fail('unset of unknown variable')
            del self.vars[args[0]]
            return None
        if name == 'range':
            if kwargs or not 1 <= len(args) <= 3:
                raise Fail('range arity')
            if any(tname(a) == 'bool' for a in args):
                raise Unspecified('bool passed as int')
            if any(tname(a) != 'int' for a in args):
                raise Fail('range takes ints')
            if len(args) == 1:
                start, stop, step = 0, args[0], 1
            else:
                start, stop = args[0], args[1]
                step = args[2] if len(args) == 3 else 1
            if start < 0 or stop < start or step < 1:
                raise Fail('range bounds')
            return RangeV(start, stop, step)
        if name == 'assert':
            if kwargs or not 1 <= len(args) <= 2 or tname(args[0]) != 'bool':
                raise Fail('assert(bool[, str])')
            if len(args) == 2 and tname(args[1]) != 'str':
                raise Fail('assert message must be str')
            if not args[0]:
                raise Fail('assertion failed')
            return None
        if name == 'message':
            if kwargs or not args:
                raise Fail('message needs arguments')
            return None
        if name == 'error':
            raise Fail('error() called')
        if self.opaque_calls:
            o = Opaque(name, tuple(args), tuple(kwargs.items()))
            self.calls.append(o)
            return o
        raise Unspecified('function %s is outside the core language model' % name)

    # ---- methods ----
    def method(self, o, name, args, kwargs):
        t = tname(o)
        if t == 'void':
            raise Fail('method on void')
        if t == 'opaque':
            raise Unspecified('method of an object outside the core language model')
        f = getattr(self, 'm_%s_%s' % (t, name), None)
        if f is None:
            raise Fail('unknown method %s.%s' % (t, name))
        if (t, name) not in NO_FLATTEN:
            args = flatten(args)
        return f(o, args, kwargs)

    @staticmethod
    def _sig(args, kwargs, types, minargs=None, kw=()):
        """positional type check: types = list of type names (or tuples), optional after minargs."""
        minargs = len(types) if minargs is None else minargs
        for k in kwargs:
            if k not in kw:
                raise Fail('unknown keyword ' + k)
        if not minargs <= len(args) <= len(types):
            raise Fail('wrong number of arguments')
        for a, ty in zip(args, types):
            ta = tname(a)
            if ty == 'any':
                continue
            if ta != ty:
                if ta == 'bool' and ty == 'int':
                    raise Unspecified('bool passed where int is expected')
                raise Fail('argument type')

    # str
    def m_str_format(self, o, args, kwargs):
        if kwargs:
            raise Fail('no kwargs')
        rendered = []
        for a in args:
            rendered.append(a)

        def rep(m):
            i = int(m.group(1))
            if i >= len(rendered):
                raise Fail('format placeholder out of range')
            return self.render(rendered[i])
        if re.search(r'@[0-9]+@', o) is None:
            # nothing to substitute; still, argument kinds other than str/int/bool are not our business
            return o
        return re.sub(r'@([0-9]+)@', rep, o)

    def m_str_replace(self, o, args, kwargs):
        self._sig(args, kwargs, ['str', 'str'])
        if args[0] == '':
            raise Unspecified('replace of the empty string')
        return o.replace(args[0], args[1])

    def m_str_strip(self, o, args, kwargs):
        self._sig(args, kwargs, ['str'], 0)
        if args:
            if args[0] == '':
                raise Unspecified('strip with empty character set')
            return o.strip(args[0])
        if any(c in o for c in '\t\r\v\f\x1c\x1d\x1e\x1f\x85\xa0'):
            raise Unspecified('default strip set is documented as "spaces and newlines" only')
        return o.strip(' \n')

    def m_str_to_upper(self, o, args, kwargs):
        self._sig(args, kwargs, [])
        return o.upper()

    def m_str_to_lower(self, o, args, kwargs):
        self._sig(args, kwargs, [])
        return o.lower()

    def m_str_to_int(self, o, args, kwargs):
        self._sig(args, kwargs, [])
        if re.fullmatch(r'-?(0|[1-9][0-9]*)', o):
            return int(o)
        if re.fullmatch(r'0[xX][0-9a-fA-F]+', o):
            return int(o, 16)
        if re.fullmatch(r'0[oO][0-7]+', o):
            return int(o, 8)
        if re.fullmatch(r'0[bB][01]+', o):
            return int(o, 2)
        if re.fullmatch(r'\s*[+-]?[0-9_]+\s*', o) or re.fullmatch(r'\s*[+-]?0[xXoObB][0-9a-fA-F_]+\s*', o):
            raise Unspecified('to_int on a number-like string outside the documented forms')
        raise Fail('to_int on a non-number')

    def m_str_contains(self, o, args, kwargs):
        self._sig(args, kwargs, ['str'])
        return args[0] in o

    def m_str_startswith(self, o, args, kwargs):
        self._sig(args, kwargs, ['str'])
        return o.startswith(args[0])

    def m_str_endswith(self, o, args, kwargs):
        self._sig(args, kwargs, ['str'])
        return o.endswith(args[0])

    def m_str_substring(self, o, args, kwargs):
        self._sig(args, kwargs, ['int', 'int'], 0)
        n = len(o)

        def clamp(i):
            if i < 0:
                i += n
            return max(0, min(n, i))
        start = clamp(args[0]) if len(args) >= 1 else 0
        end = clamp(args[1]) if len(args) == 2 else n
        return o[start:end] if start < end else ''

    def m_str_split(self, o, args, kwargs):
        self._sig(args, kwargs, ['str'], 0)
        if args:
            if args[0] == '':
                raise Fail('empty separator')
            return o.split(args[0])
        return o.split()

    def m_str_splitlines(self, o, args, kwargs):
        self._sig(args, kwargs, [])
        if any(c in o for c in '\v\f\x1c\x1d\x1e\x85  '):
            raise Unspecified('only \\n, \\r, \\r\\n are documented as line separators')
        return o.splitlines()

    def m_str_join(self, o, args, kwargs):
        if kwargs:
            raise Fail('no kwargs')
        flat = []
        for a in args:
            if tname(a) == 'list':
                flat.extend(a)
            else:
                flat.append(a)
        for a in flat:
            if tname(a) == 'list':
                raise Unspecified('nested arrays passed to join')
            if tname(a) != 'str':
                raise Fail('join takes strings')
        return o.join(flat)

    def m_str_underscorify(self, o, args, kwargs):
        self._sig(args, kwargs, [])
        return re.sub(r'[^a-zA-Z0-9]', '_', o)

    def m_str_version_compare(self, o, args, kwargs):
        raise Unspecified('version_compare is decided by C19')

    # int
    def m_int_is_even(self, o, args, kwargs):
        self._sig(args, kwargs, [])
        return o % 2 == 0

    def m_int_is_odd(self, o, args, kwargs):
        self._sig(args, kwargs, [])
        return o % 2 == 1

    def m_int_to_string(self, o, args, kwargs):
        self._sig(args, kwargs, [], kw=('fill', 'format'))
        fill = kwargs.get('fill', 0)
        fmt = kwargs.get('format', 'dec')
        if tname(fill) == 'bool':
            raise Unspecified('bool as fill')
        if tname(fill) != 'int' or tname(fmt) != 'str':
            raise Fail('to_string kwargs')
        if fmt not in ('dec', 'hex', 'oct', 'bin'):
            raise Fail('bad format')
        if fmt != 'dec' and (fill or o < 0):
            raise Unspecified('fill / negative numbers with a non-decimal format')
        if fmt == 'hex':
            return hex(o)
        if fmt == 'oct':
            return oct(o)
        if fmt == 'bin':
            return bin(o)
        s = str(abs(o))
        sign = '-' if o < 0 else ''
        pad = max(0, fill - len(s) - len(sign))
        return sign + '0' * pad + s

    # bool
    def m_bool_to_int(self, o, args, kwargs):
        self._sig(args, kwargs, [])
        return 1 if o else 0

    def m_bool_to_string(self, o, args, kwargs):
        self._sig(args, kwargs, ['str', 'str'], 0)
        if len(args) == 1:
            raise Fail('to_string takes zero or two strings')
        if len(args) == 2:
            return args[0] if o else args[1]
        return 'true' if o else 'false'

    # list
    def m_list_contains(self, o, args, kwargs):
        self._sig(args, kwargs, ['any'])

        def rec(lst, x):
            for el in lst:
                if tname(el) == 'list':
                    raise Unspecified('contains on nested arrays (searches recursively, undocumented)')
                if has_mixed_int_bool(el, x):
                    raise Unspecified('int/bool mixing in contains')
                if deep_eq(el, x):
                    return True
            return False
        if tname(args[0]) == 'list':
            raise Unspecified('contains with an array argument')
        return rec(o, args[0])

    def m_list_get(self, o, args, kwargs):
        self._sig(args, kwargs, ['int', 'any'], 1)
        i = args[0]
        if -len(o) <= i < len(o):
            return o[i]
        if len(args) == 2:
            return args[1]
        raise Fail('index out of range')

    def m_list_length(self, o, args, kwargs):
        self._sig(args, kwargs, [])
        return len(o)

    def m_list_flatten(self, o, args, kwargs):
        self._sig(args, kwargs, [])

        def fl(x):
            out = []
            for el in x:
                if tname(el) == 'list':
                    out.extend(fl(el))
                else:
                    out.append(el)
            return out
        return fl(o)

    def m_list_slice(self, o, args, kwargs):
        self._sig(args, kwargs, ['int', 'int'], 0, kw=('step',))
        step = kwargs.get('step', 1)
        if tname(step) == 'bool':
            raise Unspecified('bool as step')
        if tname(step) != 'int':
            raise Fail('step must be int')
        if step == 0:
            raise Fail('step cannot be zero')
        if len(args) == 1:
            raise Fail('either both or none of start and stop')
        if len(args) == 2:
            return o[args[0]:args[1]:step]
        return o[::step]

    # dict
    def m_dict_has_key(self, o, args, kwargs):
        self._sig(args, kwargs, ['str'])
        return args[0] in o

    def m_dict_get(self, o, args, kwargs):
        self._sig(args, kwargs, ['str', 'any'], 1)
        if args[0] in o:
            return o[args[0]]
        if len(args) == 2:
            return args[1]
        raise Fail('missing key')

    def m_dict_keys(self, o, args, kwargs):
        self._sig(args, kwargs, [])
        return sorted(o)

    def m_dict_values(self, o, args, kwargs):
        self._sig(args, kwargs, [])
        return [o[k] for k in sorted(o)]


# methods whose yaml says `arg_flattening: false`
NO_FLATTEN = {('str', 'format'), ('list', 'contains'), ('list', 'get'), ('dict', 'get')}


def flatten(args):
    out = []
    for a in args:
        if isinstance(a, list):
            out.extend(flatten(a))
        else:
            out.append(a)
    return out


def path_join(l: str, r: str) -> str:
    if '\\' in l or '\\' in r or ':' in l or ':' in r:
        raise Unspecified('path join with backslashes / drive letters')
    if l == '' or r == '' or '//' in l or '//' in r or r.endswith('/') or l.endswith('/'):
        raise Unspecified('path join with empty or slash-terminated segments')
    if r.startswith('/'):
        return r
    return l + '/' + r


def run_program(text: str, variables: T.Optional[dict] = None) -> T.Dict[str, T.Any]:
    """Parse and evaluate; raises Fail / Unspecified."""
    ast = parse(text)
    ev = Evaluator(variables)
    try:
        return ev.run(ast)
    except (_Break, _Continue):
        raise AssertionError('unreachable: break/continue escaped')
    except RecursionError:
        raise Unspecified('too deep')


def canon(v):
    """Hashable typed canonical form of a value (for comparing with the implementation)."""
    t = tname(v)
    if t == 'list':
        return ('l', tuple(canon(x) for x in v))
    if t == 'dict':
        return ('d', tuple((k, canon(v[k])) for k in v))
    if t == 'range':
        return ('r', tuple(v))
    if t == 'opaque':
        return ('o', v.fname, tuple(canon(x) for x in v.args), tuple((k, canon(x)) for k, x in v.kwargs))
    return (t[0], v)


# =========================================================================================================
# Tree normalisation used by C16/C17: the program "modulo whitespace, comments, redundant commas and parentheses"
def strip_parens(e):
    if isinstance(e, tuple):
        if e and e[0] == 'paren':
            return strip_parens(e[1])
        return tuple(strip_parens(x) for x in e)
    if isinstance(e, list):
        return [strip_parens(x) for x in e]
    return e
