# In-process harness around the real mesonbuild Interpreter (Tier A of C01, slices for C19).
# An Interpreter is built the way msetup builds it (Environment -> build.Build -> Interpreter.run() on a
# project('t') with no languages, backend none).  Programs are then parsed with the real mparser.Parser and run
# with the real evaluate_codeblock; we observe the final variable table or the class of failure.
from __future__ import annotations
import argparse, io, os, shutil, sys, contextlib
import typing as T

from .core import REPO, scratch_root

_n = 0


def _quiet():
    from mesonbuild import mlog
    mlog._logger.log_disable_stdout = True


class RealInterp:
    """One real Interpreter with a pristine variable table; discard after a failing program."""

    def __init__(self, extra_project_lines: str = ''):
        global _n
        from mesonbuild import environment, build, interpreter, cmdline, mlog, mesonlib
        from mesonbuild.msetup import add_arguments
        _n += 1
        root = os.path.join(scratch_root(), 'interp.%d.%d' % (os.getpid(), _n))
        self.root = root
        src = os.path.join(root, 'src')
        bld = os.path.join(root, 'bld')
        os.makedirs(src)
        os.makedirs(bld)
        with open(os.path.join(src, 'meson.build'), 'w') as f:
            f.write("project('t')\n" + extra_project_lines)
        ap = argparse.ArgumentParser()
        add_arguments(ap)
        opts = ap.parse_args(['--backend=none', src, bld])
        cmdline.parse_cmd_line_options(opts)
        _quiet()
        env = environment.Environment(src, bld, opts)
        b = build.Build(env)
        self.interp = interpreter.Interpreter(b, user_defined_options=opts)
        self.interp.run()
        self.base_vars = dict(self.interp.variables)
        self.base_builtin = dict(self.interp.builtin)
        self.dirty = False

    def close(self) -> None:
        shutil.rmtree(self.root, ignore_errors=True)

    def reset(self) -> None:
        self.interp.variables.clear()
        self.interp.variables.update(self.base_vars)
        # An exception inside reduce_arguments leaves argument_depth incremented (invisible to users because an
        # error ends the run).  Restoring it lets one Interpreter serve many failing programs; callers cross-check
        # a slice of programs and every disagreement on a brand-new Interpreter.
        self.interp.argument_depth = 0

    def run(self, text: str):
        """-> ('ok', {name: python value}) | ('fail', exception class name, message) | ('internal', repr)"""
        from mesonbuild import mparser, mesonlib
        from mesonbuild.interpreterbase import ObjectHolder
        from mesonbuild.interpreterbase.exceptions import ContinueRequest, BreakRequest
        self.reset()
        try:
            with _watchdog(PROGRAM_BUDGET_S):
                ast = mparser.Parser(text, 'meson.build').parse()
                self.interp.evaluate_codeblock(ast)
        except ProgramTimeout:
            self.dirty = True
            return ('internal', 'no result after %g s (the reference evaluates every generated program in microseconds)' % PROGRAM_BUDGET_S)
        except MemoryError:
            self.dirty = True
            return ('internal', 'MemoryError while evaluating the program')
        except mesonlib.MesonBugException as e:
            self.dirty = True
            return ('internal', 'MesonBugException: %s' % e)
        except mesonlib.MesonException as e:
            return ('fail', type(e).__name__, str(e))
        except (ContinueRequest, BreakRequest) as e:
            # break/continue outside a loop escapes as a control-flow exception; the CLI reports it as an error
            return ('fail', type(e).__name__, 'loop control outside loop')
        except RecursionError:
            self.dirty = True
            return ('fail', 'RecursionError', '')
        except Exception as e:
            self.dirty = True
            return ('internal', '%s: %s' % (type(e).__name__, e))
        out = {}
        for k, v in self.interp.variables.items():
            if k in self.base_vars and self.base_vars[k] is v:
                continue
            out[k] = unhold(v)
        return ('ok', out)


PROGRAM_BUDGET_S = 10.0


class ProgramTimeout(BaseException):
    """Raised by the watchdog; BaseException so that no `except Exception` of the code under test swallows it."""


class _watchdog:
    """Wall-clock budget for one generated program (main thread of a worker process only).  The generated programs are
    tiny; the budget exists so that a defect that makes evaluation loop or grow without bound is *reported*."""

    def __init__(self, seconds: float):
        self.seconds = seconds
        self.active = False

    def __enter__(self):
        import signal, threading
        if threading.current_thread() is threading.main_thread():
            def fire(signum, frame):
                raise ProgramTimeout()
            self.old = signal.signal(signal.SIGALRM, fire)
            signal.setitimer(signal.ITIMER_REAL, self.seconds)
            self.active = True
        return self

    def __exit__(self, *exc):
        import signal
        if self.active:
            signal.setitimer(signal.ITIMER_REAL, 0)
            signal.signal(signal.SIGALRM, self.old)
        return False


class Opaque(T.NamedTuple):
    kind: str
    data: T.Any = None


def unhold(v):
    from mesonbuild.interpreterbase import ObjectHolder
    from mesonbuild.interpreter.primitives import RangeHolder
    if isinstance(v, RangeHolder):
        r = v.range
        return Opaque('range', (r.start, r.stop, r.step))
    if isinstance(v, ObjectHolder):
        h = v.held_object
        return _plain(h)
    return Opaque(type(v).__name__)


def _plain(h):
    if isinstance(h, (bool, int, str)):
        return h
    if isinstance(h, list):
        return [_plain(x) for x in h]
    if isinstance(h, dict):
        return {k: _plain(x) for k, x in h.items()}
    return Opaque(type(h).__name__)


class Pool:
    """Hands out a clean RealInterp, replacing it after any failing program (argument_depth etc. may leak)."""

    def __init__(self):
        self.cur: T.Optional[RealInterp] = None
        self.created = 0

    def get(self) -> RealInterp:
        if self.cur is None or self.cur.dirty:
            if self.cur is not None:
                self.cur.close()
            self.cur = RealInterp()
            self.created += 1
        return self.cur

    def run(self, text: str):
        return self.get().run(text)

    def close(self):
        if self.cur is not None:
            self.cur.close()
            self.cur = None
