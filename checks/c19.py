# C19 - version comparison is a consistent order and constraint logic is sound.
# Bounded exhaustive: every pair/triple of version strings over a component alphabet (real calls recorded in
# a matrix, axioms + RPM reference order checked on the matrix), every operator spelling, every constraint list
# <= 3, every Range pair over a bound set (intersect / always), every check list <= 3 (version_check_to_range).
import itertools, operator, re, sys
from verif.core import Check, pmap, run_main

from mesonbuild import mesonlib
from mesonbuild.mesonlib import Version, version_compare, version_compare_many, version_check_to_range, \
    version_compare_condition_with_min
from mesonbuild.utils.universal import Range

OPS = ['lt', 'gt', 'le', 'ge', 'eq', 'ne']
PYOP = {k: getattr(operator, k) for k in OPS}


# ---- reference order (RPM style), written from the property statement -------------------------------------
def ref_tokens(s):
    out = []
    for m in re.finditer(r'[0-9]+|[A-Za-z]+', s):
        t = m.group(0)
        out.append((1, int(t)) if t[0].isdigit() else (0, t))
    return out


def ref_cmp(a, b):
    ta, tb = ref_tokens(a), ref_tokens(b)
    for x, y in zip(ta, tb):
        if x[0] != y[0]:
            return 1 if x[0] > y[0] else -1     # numeric ranks above alphabetic
        if x[1] != y[1]:
            return 1 if x[1] > y[1] else -1     # ints numerically, words by code point
    return (len(ta) > len(tb)) - (len(ta) < len(tb))   # longer with equal prefix is greater


REF_HOLDS = {'lt': lambda c: c < 0, 'gt': lambda c: c > 0, 'le': lambda c: c <= 0, 'ge': lambda c: c >= 0,
             'eq': lambda c: c == 0, 'ne': lambda c: c != 0}


def versions(maxlen, styles):
    toks = ['0', '1', '2', '10', 'a', 'b', 'A', 'rc']
    out = []
    seen = set()
    for n in range(0, maxlen + 1):
        for tup in itertools.product(toks, repeat=n):
            for st in styles:
                if st == 'lz':
                    s = '.'.join(('0' + t if t.isdigit() else t) for t in tup)
                else:
                    s = st.join(tup)
                if s not in seen:
                    seen.add(s)
                    out.append(s)
    return out


# ---- end-to-end: the range a block of an if / elif / else chain is checked against ------------------------------------------
# "the range algebra behind meson_version feature checks is sound": a block that uses a feature introduced in X must be warned about
# whenever some version of the project's declared range that is older than X runs that block.  Every chain of <= 2 clauses (+ else)
# over the clause alphabet below x declared range is configured with the real `meson setup`; the block that runs contains
# 'a'.splitlines() (new in 1.2.0).  For every probe version v of the declared range the reference decides which block v runs
# (version conditions by the reference order, other conditions are constants); if an older-than-1.2.0 probe runs the block that
# ran here, the FeatureNew warning must be printed.  (The converse is not demanded: warning too often is imprecise, not unsound.)
FR_FEATURE_SINCE = '1.2.0'
FR_PROBES = ['0.40', '0.50', '0.55', '0.60', '0.61', '1.0', '1.1.9', '1.2.0', '1.3', '1.5', '1.6', '90', '99.0', '99.1']
FR_ATOMS = [('ge', '99.0'), ('lt', '99.0'), ('ge', '0.60'), ('lt', '0.60'), ('ge', '1.5')]
FR_SP = {'ge': '>=', 'lt': '<'}


def fr_clauses(thorough=True):
    out = [('T',), ('F',)]
    for a in (FR_ATOMS if thorough else FR_ATOMS[:3]):
        out += [('vc', a), ('not', a), ('or', a, 'T'), ('or', a, 'F'), ('and', a, 'T'), ('eqf', a), ('tern', a), ('chain', a), ('paren', a)]
    return out


def fr_text(c):
    if c[0] == 'T':
        return 'true'
    if c[0] == 'F':
        return 'false'
    vc = "meson.version().version_compare('%s%s')" % (FR_SP[c[1][0]], c[1][1])
    return {'vc': vc, 'not': 'not ' + vc, 'or': vc + ' or ' + ('true' if c[-1] == 'T' else 'false'),
            'and': vc + ' and true', 'eqf': vc + ' == false', 'tern': '(' + vc + ' ? false : true)',
            'chain': vc + ".to_string().startswith('f')", 'paren': '((' + vc + ') and (true))'}[c[0]]


def fr_eval(c, v):
    if c[0] in 'TF':
        return c[0] == 'T'
    a = REF_HOLDS[c[1][0]](ref_cmp(v, c[1][1]))
    return {'vc': a, 'not': not a, 'or': a or c[-1] == 'T', 'and': a, 'eqf': not a, 'tern': not a, 'chain': not a, 'paren': a}[c[0]]


def fr_block(chain, has_else, v):
    for i, c in enumerate(chain):
        if fr_eval(c, v):
            return i
    return len(chain) if has_else else None


def fr_program(chain, has_else, decl):
    lines = ["project('p'%s)" % (", meson_version: '%s'" % decl if decl else '')]
    for i, c in enumerate(chain):
        lines += ['%s %s' % ('if' if i == 0 else 'elif', fr_text(c)), "  message('BLOCK%d')" % i, "  x = 'a'.splitlines()"]
    if has_else:
        lines += ['else', "  message('BLOCK%d')" % len(chain), "  x = 'a'.splitlines()"]
    lines.append('endif')
    return '\n'.join(lines) + '\n'


def fr_jobs(thorough):
    cl = fr_clauses(thorough)
    decls = ['>=0.50', '>=1.5', '>=0.50, <1.0'] if thorough else ['>=0.50', '>=1.5']
    chains = [(a,) for a in cl] + [(a, b) for a in cl for b in cl]
    if thorough:
        simple = [c for c in cl if c[0] in ('T', 'F', 'vc', 'not')]
        chains += [(a, b, c) for a in simple for b in simple for c in simple]
    return [(ch, e, d) for ch in chains for e in (False, True) for d in decls]


def fr_run(job):
    import os, shutil, tempfile
    from verif import mesonproc as mp
    from verif.core import scratch_root
    chain, has_else, decl = job
    root = tempfile.mkdtemp(prefix='c19fr.', dir=scratch_root())
    try:
        text = fr_program(chain, has_else, decl)
        with open(os.path.join(root, 'meson.build'), 'w') as f:
            f.write(text)
        r = mp.run_meson(['setup', '--backend=none', 'b'], root, timeout=300)
        out = r.out + r.err
        ran = [int(m) for m in re.findall(r'Message: BLOCK([0-9]+)', out)]
        warned = "uses feature introduced in '1.2.0'" in out
        return job, r.rc, ran, warned, text, out[-600:]
    finally:
        shutil.rmtree(root, ignore_errors=True)


# the range narrowed for a block must be gone once the block is left - also when it is left through continue / break / subdir_done():
# a statement after the loop (after the subdir() call) runs at every version of the declared range
FR_EXITS = ['continue', 'break', 'subdir_done', 'fallthrough']


def fr_exit_jobs(thorough):
    # (all atoms in both tiers: a leaked range shows only if it excludes the versions older than the feature, e.g. '>=1.5')
    cl = [c for c in fr_clauses(True) if c[0] in ('vc', 'and', 'paren')]
    decls = ['>=0.50', '>=1.5']
    return [('exit', c, ex, d) for c in cl for ex in FR_EXITS for d in decls]


def fr_exit_program(c, ex, decl):
    head = "project('p', meson_version: '%s')\n" % decl
    tail = "message('AFTER')\nx = 'a'.splitlines()\n"
    if ex == 'subdir_done':
        return {'meson.build': head + "subdir('d')\n" + tail,
                'd/meson.build': "if %s\n  message('TAKEN')\n  subdir_done()\nendif\nmessage('NOT-TAKEN')\n" % fr_text(c)}
    body = {'continue': '    continue\n', 'break': '    break\n', 'fallthrough': "    y = 1\n"}[ex]
    return {'meson.build': head + "foreach i : [1, 2]\n  if %s\n    message('TAKEN')\n%s  endif\n  message('NOT-TAKEN')\nendforeach\n" % (fr_text(c), body) + tail}


def fr_exit_run(job):
    import os, shutil, tempfile
    from verif import mesonproc as mp
    from verif.core import scratch_root
    _, c, ex, decl = job
    root = tempfile.mkdtemp(prefix='c19fx.', dir=scratch_root())
    try:
        files = fr_exit_program(c, ex, decl)
        for rel, text in files.items():
            os.makedirs(os.path.dirname(os.path.join(root, rel)), exist_ok=True)
            with open(os.path.join(root, rel), 'w') as f:
                f.write(text)
        r = mp.run_meson(['setup', '--backend=none', 'b'], root, timeout=300)
        out = r.out + r.err
        return job, r.rc, 'Message: TAKEN' in out, 'Message: AFTER' in out, "uses feature introduced in '1.2.0'" in out, files, out[-500:]
    finally:
        shutil.rmtree(root, ignore_errors=True)


def fr_form(chain, blk):
    """narrow class of a lost warning: the shape of the condition whose block ran ('else' for the else block), and whether an
    earlier clause of the chain contained a version condition"""
    own = 'else' if blk >= len(chain) else {'T': 'const', 'F': 'const'}.get(chain[blk][0], chain[blk][0])
    earlier = any(c[0] not in 'TF' for c in chain[:blk])
    return own + (':after-version-clause' if earlier and own in ('const', 'else') else '')


# ---- several uses in one project: every use site is judged on its own -----------------------------------------------------------
# A project uses features at several places, some inside a taken version_compare() block, some outside, the same feature or another
# one: what was decided for one site (under the range in force there) says nothing about the next.  Every sequence of <= 2 (thorough
# 3) sites over guard x feature x declared range; the warning carries the line of the site.
FS_GUARDS = [None, ('ge', '1.5'), ('ge', '0.60'), ('lt', '99.0'), ('ge', '99.0')]
FS_FEATURES = [("'a'.splitlines()", '1.2.0'), ("'a'.replace('a', 'b')", '0.58.0')]
FS_PLACES = ['same', 'subdir']


def fs_program(sites, decl, place):
    files = {}
    lines = ["project('p', meson_version: '%s')" % decl]
    site_line = []
    for k, (g, f) in enumerate(sites):
        tgt, fname = lines, 'meson.build'
        if place == 'subdir' and k == len(sites) - 1 and k > 0:
            lines.append("subdir('d')")
            tgt, fname = [], 'd/meson.build'
        if g is not None:
            tgt.append("if meson.version().version_compare('%s%s')" % (FR_SP[g[0]], g[1]))
            tgt.append("  message('SITE%d')" % k)
            tgt.append('  x%d = %s' % (k, FS_FEATURES[f][0]))
            site_line.append((fname, len(tgt)))
            tgt.append('endif')
        else:
            tgt.append("message('SITE%d')" % k)
            tgt.append('x%d = %s' % (k, FS_FEATURES[f][0]))
            site_line.append((fname, len(tgt)))
        if tgt is not lines:
            files['d/meson.build'] = '\n'.join(tgt) + '\n'
    files['meson.build'] = '\n'.join(lines) + '\n'
    return files, site_line


def fs_jobs(thorough):
    sites = [(g, f) for g in FS_GUARDS for f in range(len(FS_FEATURES))]
    seqs = [(a,) for a in sites] + [(a, b) for a in sites for b in sites]
    if thorough:
        seqs += [(a, b, c) for a in sites for b in sites for c in sites]
    decls = ['>=0.50', '>=1.5', '>=0.50, <1.0'] if thorough else ['>=0.50', '>=1.5']
    return [('sites', sq, d, pl) for sq in seqs for d in decls for pl in FS_PLACES if pl == 'same' or len(sq) > 1]


def fs_run(job):
    import os, shutil, tempfile
    from verif import mesonproc as mp
    from verif.core import scratch_root
    _, sites, decl, place = job
    root = tempfile.mkdtemp(prefix='c19fs.', dir=scratch_root())
    try:
        files, site_line = fs_program(sites, decl, place)
        for rel, text in files.items():
            os.makedirs(os.path.dirname(os.path.join(root, rel)), exist_ok=True)
            with open(os.path.join(root, rel), 'w') as f:
                f.write(text)
        r = mp.run_meson(['setup', '--backend=none', 'b'], root, timeout=300)
        out = r.out + r.err
        ran = set(int(m) for m in re.findall(r'Message: SITE([0-9]+)', out))
        warned = set(re.findall(r"^(?:\.\./)?([\w/.]+):(\d+): WARNING: Project targets .* but uses feature introduced in '([0-9.]+)'", out, re.M))
        return job, r.rc, ran, warned, files, site_line, out[-500:]
    finally:
        shutil.rmtree(root, ignore_errors=True)


def part_feature_sites(ck, here):
    n = need_n = lost = guarded_then_unguarded = 0
    for job, rc, ran, warned, files, site_line, tail in pmap(fs_run, fs_jobs(ck.thorough)):
        _, sites, decl, place = job
        n += 1
        if rc != 0:
            ck.violation('C19:featuresites:setup-failed', 'meson setup failed on %r: %s' % (files, tail[-300:]), {'files': files})
            continue
        declared = [v for v in FR_PROBES if all(REF_HOLDS[{'>=': 'ge', '<': 'lt'}[re.match('[<>=]+', c.strip()).group(0)]](
            ref_cmp(v, re.sub('^[<>=]+', '', c.strip()))) for c in decl.split(','))]
        for k, (g, f) in enumerate(sites):
            runs_here = g is None or REF_HOLDS[g[0]](ref_cmp(here, g[1]))
            if (k in ran) != runs_here:
                ck.violation('C19:featuresites:wrong-block', 'at %s site %d should%s run: %r' % (here, k, '' if runs_here else ' not', files), {'files': files})
                break
            if not runs_here:
                continue
            since = FS_FEATURES[f][1]
            witness = [v for v in declared if (g is None or REF_HOLDS[g[0]](ref_cmp(v, g[1]))) and ref_cmp(v, since) < 0]
            if not witness:
                continue
            need_n += 1
            earlier_same = [j for j in range(k) if sites[j][1] == f and sites[j][0] is not None]
            guarded_then_unguarded += bool(earlier_same)
            fname, line = site_line[k]
            if (fname, str(line), since) not in warned:
                lost += 1
                ck.violation('C19:featuresites:lost-warning:%s' % ('after-guarded-use-of-the-same-feature' if earlier_same else 'site-%d' % k),
                             'use site %d (%s:%d, %s, new in %s) runs at version %s of the declared range %r but no FeatureNew warning names it: %r'
                             % (k, fname, line, FS_FEATURES[f][0], since, witness[0], decl, files), {'files': files, 'site': k, 'where': [fname, line, since]})
    ck.part('feature_sites', programs=n, guards=len(FS_GUARDS), features=len(FS_FEATURES), sites_needing_a_warning=need_n, lost=lost,
            needing_sites_after_a_guarded_use_of_the_same_feature=guarded_then_unguarded)
    ck.require(need_n > 100 and guarded_then_unguarded > 10, 'feature sites family is vacuous')
    return n


def part_featurerange(ck):
    from mesonbuild import coredata
    here = coredata.version
    jobs = fr_jobs(ck.thorough)
    n = lost = expected_warn = warned_n = 0
    blocks_seen = set()
    for job, rc, ran, warned, text, tail in pmap(fr_run, jobs):
        chain, has_else, decl = job
        n += 1
        if rc != 0:
            ck.violation('C19:featurerange:setup-failed', 'meson setup failed on %r: %s' % (text, tail[-300:]), {'program': text})
            continue
        want_blk = fr_block(chain, has_else, here)
        got_blk = ran[0] if ran else None
        if want_blk != got_blk or len(ran) > 1:
            ck.violation('C19:featurerange:wrong-block', 'at %s block %r should run, ran %r: %r' % (here, want_blk, ran, text), {'program': text})
            continue
        if got_blk is None:
            continue
        blocks_seen.add((len(chain), has_else, got_blk))
        declared = [v for v in FR_PROBES if all(REF_HOLDS[{'>=': 'ge', '<': 'lt'}[re.match('[<>=]+', c.strip()).group(0)]](
            ref_cmp(v, re.sub('^[<>=]+', '', c.strip()))) for c in decl.split(','))]
        witness = [v for v in declared if fr_block(chain, has_else, v) == got_blk and ref_cmp(v, FR_FEATURE_SINCE) < 0]
        warned_n += warned
        if witness:
            expected_warn += 1
            if not warned:
                lost += 1
                ck.violation('C19:featurerange:lost-warning:' + fr_form(chain, got_blk),
                             'block %d of %r runs at version %s (inside the declared range %r) which is older than %s, but no FeatureNew warning was printed'
                             % (got_blk, text, witness[0], decl, FR_FEATURE_SINCE), {'program': text, 'witness_version': witness[0]})
    xn = xt = xw = xlost = 0
    for job, rc, taken, after, warned, files, tail in pmap(fr_exit_run, fr_exit_jobs(ck.thorough)):
        _, c, ex, decl = job
        xn += 1
        if rc != 0 or not after:
            ck.violation('C19:featurerange:exit:setup-failed', 'meson setup failed / did not reach the end on %r: %s' % (files, tail[-300:]), {'files': files})
            continue
        if taken != fr_eval(c, here):
            ck.violation('C19:featurerange:wrong-block', 'at %s the guarded block should%s run: %r' % (here, '' if fr_eval(c, here) else ' not', files), {'files': files})
            continue
        xt += taken
        need = ref_cmp(decl.lstrip('>='), FR_FEATURE_SINCE) < 0      # the statement after runs at every version of the declared range
        xw += need
        if need and not warned:
            xlost += 1
            ck.violation('C19:featurerange:lost-warning:after-block-left-by-%s' % ex,
                         'the statement after the guarded block (left by %s) runs at version %s of the declared range %r, older than %s, but no FeatureNew warning was printed: %r'
                         % (ex, decl.lstrip('>='), decl, FR_FEATURE_SINCE, files), {'files': files})
    ck.part('featurerange_exits', programs=xn, guarded_block_taken=xt, warning_required=xw, lost=xlost, exits=len(FR_EXITS))
    ck.require(xt >= 8 and xw >= 8, 'featurerange exits family is vacuous')
    n += xn
    n += part_feature_sites(ck, here)
    ck.part('featurerange', programs=n, warning_required=expected_warn, warned=warned_n, lost=lost, clause_forms=len(fr_clauses(ck.thorough)),
            block_positions=len(blocks_seen))
    ck.require(expected_warn > 50 and warned_n < n and len(blocks_seen) >= 6, 'featurerange family is vacuous')
    return n


VS = []


def row(i):
    """All six real comparisons of VS[i] against every VS[j], packed as bitmasks + hash."""
    a = Version(VS[i])
    masks = dict.fromkeys(OPS, 0)
    objs = ROW_OBJS
    for j, b in enumerate(objs):
        for op in OPS:
            r = PYOP[op](a, b)
            if r is not True and r is not False:
                return (i, 'nonbool', op, j)
            if r:
                masks[op] |= 1 << j
    return (i, masks, hash(a))


ROW_OBJS = []


def main():
    global VS, ROW_OBJS
    ck = Check('C19', 'exploration')
    maxlen = ck.q(2, 3)
    styles = ck.q(['.', '', 'lz'], ['.', '-', '', 'lz'])
    if ck.args.replay:
        return replay(ck)
    VS = versions(maxlen, styles)
    ROW_OBJS = [Version(s) for s in VS]
    n = len(VS)
    full = (1 << n) - 1
    M = {op: [0] * n for op in OPS}
    H = [0] * n
    evals = 0
    for res in pmap(row, range(n), chunksize=8):
        if res[1] == 'nonbool':
            ck.violation('C19:order:nonbool', 'comparison returned a non-boolean',
                         {'a': VS[res[0]], 'b': VS[res[3]], 'op': res[2]})
            continue
        i, masks, h = res
        for op in OPS:
            M[op][i] = masks[op]
        H[i] = h
        evals += 6 * n
    # ---- axioms on the recorded matrix ----
    outcome_classes = set()
    for i in range(n):
        lt, gt, le, ge, eq, ne = (M[op][i] for op in OPS)
        # trichotomy: exactly one of <,==,> for every j
        if (lt & gt) or (lt & eq) or (gt & eq) or ((lt | gt | eq) != full):
            bad = ((lt & gt) | (lt & eq) | (gt & eq) | (full ^ (lt | gt | eq)))
            j = (bad & -bad).bit_length() - 1
            ck.violation('C19:order:trichotomy', 'not exactly one of <,==,> holds',
                         {'a': VS[i], 'b': VS[j]})
        if le != (lt | eq) or ge != (gt | eq) or ne != (full ^ eq):
            ck.violation('C19:order:derived', '<=,>=,!= inconsistent with <,>,==', {'a': VS[i]})
    # antisymmetry a<b iff b>a : column check via transposition
    for i in range(n):
        lt = M['lt'][i]
        j = 0
        x = lt
        while x:
            lsb = x & -x
            j = lsb.bit_length() - 1
            if not (M['gt'][j] >> i) & 1:
                ck.violation('C19:order:antisym', 'a<b but not b>a', {'a': VS[i], 'b': VS[j]})
                break
            x ^= lsb
        eqm = M['eq'][i]
        x = eqm
        while x:
            lsb = x & -x
            j = lsb.bit_length() - 1
            if H[i] != H[j]:
                ck.violation('C19:order:hash', 'equal versions hash differently', {'a': VS[i], 'b': VS[j]})
                break
            if not (M['eq'][j] >> i) & 1:
                ck.violation('C19:order:eqsym', '== not symmetric', {'a': VS[i], 'b': VS[j]})
                break
            x ^= lsb
    # transitivity of <= over all triples: a<=b => le[b] subset le[a]
    triples = 0
    for i in range(n):
        lei = M['le'][i]
        x = lei
        while x:
            lsb = x & -x
            j = lsb.bit_length() - 1
            if M['le'][j] & ~lei:
                bad = M['le'][j] & ~lei
                k = (bad & -bad).bit_length() - 1
                ck.violation('C19:order:transitivity', 'a<=b, b<=c but not a<=c',
                             {'a': VS[i], 'b': VS[j], 'c': VS[k]})
                break
            x ^= lsb
        triples += bin(lei).count('1') * n
    # reference order on every pair
    ref_dis = 0
    for i in range(n):
        a = VS[i]
        for j in range(n):
            c = ref_cmp(a, VS[j])
            got = -1 if (M['lt'][i] >> j) & 1 else (1 if (M['gt'][i] >> j) & 1 else 0)
            outcome_classes.add(('cmp', c))
            if got != c:
                ref_dis += 1
                ck.violation('C19:order:reference', 'order differs from the RPM-style reference: ref=%d got=%d' % (c, got),
                             {'a': a, 'b': VS[j]})
    ck.part('order', versions=n, pairs=n * n, real_comparisons=evals, triples_checked=triples, maxlen=maxlen,
            styles=styles)
    ck.sample({'order_pair': [VS[min(7, n - 1)], VS[n // 2]], 'ref': ref_cmp(VS[min(7, n - 1)], VS[n // 2])})

    # ---- version_compare with every operator spelling ----
    opsp = {'>=': 'ge', '<=': 'le', '!=': 'ne', '==': 'eq', '=': 'eq', '>': 'gt', '<': 'lt', '': 'eq'}
    sub = versions(2, ['.'])
    if ck.thorough:
        sub = sub + versions(3, ['.'])[len(sub)::7]
    vc = 0
    for a in sub:
        for b in sub:
            if not b:
                continue
            c = ref_cmp(a, b)
            for sp, opn in opsp.items():
                # white space before the operator, between operator and version, and after the version does not belong to either
                for lead, gap, trail in (('', '', ''), ('', ' ', ''), ('', '  ', ''), (' ', '', ''), ('\t', ' ', ''), ('', '', ' '), (' ', ' ', ' ')):
                    vc += 1
                    cond = lead + sp + gap + b + trail
                    got = version_compare(a, cond)
                    exp = REF_HOLDS[opn](c)
                    outcome_classes.add(('vc', opn, exp))
                    if got is not exp:
                        ck.violation('C19:version_compare:%s%s' % (opn, ':leading-white-space' if lead else ''),
                                     'version_compare(%r,%r) = %r, reference %r' % (a, cond, got, exp), {'a': a, 'cond': cond})
    ck.part('version_compare', calls=vc)

    # ---- constraint lists ----
    bounds = ['0.9', '1', '1.0', '1.2', '1.10', '2.a']
    conds = [sp + b for sp in ('>=', '<=', '!=', '==', '>', '<') for b in bounds]
    probes = ['0', '0.9', '0.9.1', '1', '1.0', '1.0.0', '1.1', '1.2', '1.3', '1.10', '1.10.1', '2', '2.a', '2.b', '2.0', 'a']
    cl = 0
    maxlist = ck.q(2, 3)
    for k in range(0, maxlist + 1):
        for lst in itertools.product(conds, repeat=k):
            for v in probes:
                cl += 1
                ok, nf, f = version_compare_many(v, list(lst))
                exp_f = [c for c in lst if REF_HOLDS[opsp[re.match(r'[<>=!]*', c).group(0)]](ref_cmp(v, re.sub(r'^[<>=!]*', '', c)))]
                exp_nf = [c for c in lst if c not in exp_f]
                outcome_classes.add(('many', len(exp_nf) == 0))
                if ok is not (not exp_nf) or sorted(nf) != sorted(exp_nf) or sorted(f) != sorted(exp_f):
                    ck.violation('C19:many', 'version_compare_many(%r,%r)=%r expected ok=%r' % (v, lst, (ok, nf, f), not exp_nf),
                                 {'v': v, 'conds': list(lst)})
    ck.part('constraint_lists', calls=cl, maxlen=maxlist)

    # ---- Range algebra ----
    bver = [Version(b) for b in bounds]
    pver = [Version(p) for p in probes]
    ranges = []
    for mn in [None] + bver:
        for mne in (False, True):
            for mx in [None] + bver:
                for mxe in (False, True):
                    if mn is None and mne:
                        continue
                    if mx is None and mxe:
                        continue
                    ranges.append(Range(min=mn, min_eq=mne, max=mx, max_eq=mxe))
    ranges.append(Range(is_empty=True))

    def ref_in(v, mn, mne, mx, mxe, empty):
        if empty:
            return False
        if mn is not None:
            c = ref_cmp(str(v), str(mn))
            if c < 0 or (c == 0 and not mne):
                return False
        if mx is not None:
            c = ref_cmp(str(v), str(mx))
            if c > 0 or (c == 0 and not mxe):
                return False
        return True
    # membership of constructed ranges vs set semantics of the constructor arguments
    rmem = []
    rc = 0
    specs = []
    for mn in [None] + bver:
        for mne in (False, True):
            for mx in [None] + bver:
                for mxe in (False, True):
                    if (mn is None and mne) or (mx is None and mxe):
                        continue
                    specs.append((mn, mne, mx, mxe, False))
    specs.append((None, False, None, False, True))
    for r, sp in zip(ranges, specs):
        mem = 0
        for k, v in enumerate(pver):
            got = v in r
            exp = ref_in(v, *sp)
            rc += 1
            if got is not exp:
                ck.violation('C19:range:contains', '%s in Range%r = %r, expected %r' % (v, sp, got, exp),
                             {'v': str(v), 'range': repr(sp)})
            if exp:
                mem |= 1 << k
        rmem.append(mem)
    ic = 0
    always_seen = {True: 0, False: 0, None: 0}
    for i, a in enumerate(ranges):
        for j, b in enumerate(ranges):
            before_a, before_b = repr(a), repr(b)
            x = a.intersect(b)
            ic += 1
            mem = 0
            for k, v in enumerate(pver):
                if v in x:
                    mem |= 1 << k
            if mem != (rmem[i] & rmem[j]):
                ck.violation('C19:range:intersect', 'intersect(%s ; %s) = %s has wrong members' % (a, b, x),
                             {'a': repr(a), 'b': repr(b)})
            if repr(a) != before_a or repr(b) != before_b:
                ck.violation('C19:range:mutated', 'intersect mutated an operand', {'a': before_a, 'b': before_b})
            al = a.always(b)
            always_seen[al] += 1
            outcome_classes.add(('always', al))
            if al is True and (rmem[i] & ~rmem[j]):
                ck.violation('C19:range:always-true', '(%s).always(%s) is True but a member of self is outside inner' % (a, b),
                             {'self': repr(a), 'inner': repr(b)})
            if al is False and (rmem[i] & rmem[j]):
                ck.violation('C19:range:always-false', '(%s).always(%s) is False but a member of self satisfies inner' % (a, b),
                             {'self': repr(a), 'inner': repr(b)})
            if al not in (True, False, None):
                ck.violation('C19:range:always-type', 'always returned %r' % (al,), {'self': repr(a), 'inner': repr(b)})
    ck.part('ranges', ranges=len(ranges), contains=rc, pairs=ic, always_true=always_seen[True],
            always_false=always_seen[False], always_none=always_seen[None])
    ck.require(always_seen[True] > 10 and always_seen[False] > 10 and always_seen[None] > 10, 'always() outcomes not all exercised')

    # ---- version_check_to_range ----
    allconds = [sp + b for sp in ('>=', '<=', '!=', '==', '=', '>', '<', '') for b in bounds]
    wc = 0
    maxchk = ck.q(2, 3)
    def mk_starts():
        return [Range(), Range(min=Version('1.0'), min_eq=True), Range(min=Version('1.0'), min_eq=True, max=Version('1.10'), max_eq=True)]
    starts = mk_starts()
    for k in range(0, maxchk + 1):
        for lst in itertools.product(allconds, repeat=k):
            for st in (starts if k <= 2 else starts[:1]):
                before = (st.min, st.min_eq, st.max, st.max_eq, repr(st))
                r = version_check_to_range(list(lst), st)
                wc += 1
                if (st.min, st.min_eq, st.max, st.max_eq, repr(st)) != before:
                    # the caller's range is an argument, not scratch space: whoever holds it uses it again
                    ck.violation('C19:check_to_range:start-mutated', 'version_check_to_range(%r, start) changed its start argument from %s to %s'
                                 % (list(lst), before[4], st), {'checks': list(lst), 'start': before[4]})
                    starts = mk_starts()
                    break
                for v, vs in zip(pver, probes):
                    if v not in st:
                        continue
                    holds = []
                    for c in lst:
                        sp = re.match(r'[<>=!]*', c).group(0)
                        holds.append((sp, REF_HOLDS[opsp[sp]](ref_cmp(vs, c[len(sp):]))))
                    inr = v in r
                    if all(h for _, h in holds) and not inr:
                        ck.violation('C19:check_to_range:missing', 'version %s satisfies %r but is outside %s' % (vs, lst, r),
                                     {'v': vs, 'checks': list(lst), 'start': repr(st)})
                    if inr and any((not h) for sp, h in holds if sp != '!='):
                        ck.violation('C19:check_to_range:extra', 'version %s violates a check of %r but is inside %s' % (vs, lst, r),
                                     {'v': vs, 'checks': list(lst), 'start': repr(st)})
                    outcome_classes.add(('c2r', inr))
    ck.part('check_to_range', lists=wc, maxlen=maxchk)

    # ---- version_compare_condition_with_min (soundness; completeness where the minimum is attained) ----
    mc = 0
    for c in allconds:
        sp = re.match(r'[<>=!]*', c).group(0)
        for m in probes:
            got = version_compare_condition_with_min(c, m)
            mc += 1
            sat = [vs for vs in probes if REF_HOLDS[opsp[sp]](ref_cmp(vs, c[len(sp):]))]
            below = [vs for vs in sat if ref_cmp(vs, m) < 0]
            outcome_classes.add(('cwm', got))
            if got is True and below:
                ck.violation('C19:cond_with_min:unsound', 'condition %r said to imply >= %s but %s satisfies it' % (c, m, below[0]),
                             {'cond': c, 'minimum': m})
            if got is False and opsp[sp] in ('ge', 'eq') and not below:
                ck.violation('C19:cond_with_min:incomplete', 'condition %r has minimum >= %s but result is False' % (c, m),
                             {'cond': c, 'minimum': m})
    ck.part('cond_with_min', calls=mc)

    frn = part_featurerange(ck) if ck.want('featurerange') else 0
    total = evals + vc + cl + rc + ic * 2 + wc + mc + frn
    ck.assume('reference order is my transcription of the RPM-style rule stated in the property')
    ck.assume('Range membership is probed on %d versions covering every bound and every gap between the 6 bounds' % len(probes))
    ck.finish(evaluations=total, distinct_nontrivial=len(outcome_classes),
              rule='every pair of %d version strings (token tuples <= %d over {0,1,2,10,a,b,A,rc} x separator styles %s) through all 6 real '
                   'comparison operators; axioms (trichotomy, derived ops, antisymmetry, hash, transitivity over all triples) on the recorded '
                   'matrix; every operator spelling x spacing; all constraint lists <= %d; all %d^2 Range pairs; all check lists <= %d. '
                   'distinct_nontrivial = distinct (sub-check, expected outcome) classes observed' % (n, maxlen, styles, maxlist, len(ranges), maxchk),
              exhaustive=True)


def replay(ck):
    import json
    d = json.load(open(ck.args.replay))
    print('replay', d)
    if 'a' in d and 'b' in d:
        a, b = Version(d['a']), Version(d['b'])
        print({op: PYOP[op](a, b) for op in OPS}, 'ref', ref_cmp(d['a'], d['b']))
    if 'files' in d and 'where' in d:
        import os, shutil, tempfile
        from verif import mesonproc as mp
        from verif.core import scratch_root
        mp.preimport()
        root = tempfile.mkdtemp(prefix='c19rp.', dir=scratch_root())
        for rel, text in d['files'].items():
            os.makedirs(os.path.dirname(os.path.join(root, rel)), exist_ok=True)
            with open(os.path.join(root, rel), 'w') as f:
                f.write(text)
        r = mp.run_meson(['setup', '--backend=none', 'b'], root, timeout=300)
        out = r.out + r.err
        shutil.rmtree(root, ignore_errors=True)
        warned = set(re.findall(r"^(?:\.\./)?([\w/.]+):(\d+): WARNING: Project targets .* but uses feature introduced in '([0-9.]+)'", out, re.M))
        fname, line, since = d['where']
        print('expected: a FeatureNew warning for %s:%s (feature of %s); observed warnings: %s' % (fname, line, since, sorted(warned)))
        sys.exit(0 if (fname, str(line), since) in warned else 1)
    sys.exit(0)


run_main(main)
