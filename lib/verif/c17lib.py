# Helpers of check C17 that do not touch mesonbuild: the bounded expression family, the reference reading of a
# build file (records of project()/target/dependency() calls via verif.reflang with opaque constructors), the
# classifier that names which grouping / string feature a re-printed argument lost, and the textual skeleton
# matcher that decides "every statement other than the edited one is unchanged".
from __future__ import annotations
import itertools, re
import typing as T

from . import reflang
from .reflang import Fail, Unspecified, SyntaxFail, Opaque, canon, strip_parens

# =========================================================================================================
# 1. Typed expression family
#
# A tree is ('leaf', type) or (opname, [children]).  Rendering names the leaves by order of occurrence per type
# (a b c / p q r / s t u / l m) or, for closed contexts (project() precedes every assignment), substitutes the
# literal the variable is assigned in the generated file.  A compound operand is always written in parentheses
# in an operator slot (never in a bracketed slot: method arguments, index, array elements), so that the text
# means exactly the tree without the generator knowing any precedence.
VARS: T.List[T.Tuple[str, str, str]] = [
    ('a', 'int', '1'), ('b', 'int', '3'), ('c', 'int', '2'),
    ('p', 'bool', 'true'), ('q', 'bool', 'false'), ('r', 'bool', 'true'),
    ('s', 'str', "'xyzwv'"), ('t', 'str', "'Yzabc'"), ('u', 'str', "'wvuts'"),
    ('l', 'list', "['m', 'n', 'o', 'k', 'j', 'i', 'h']"), ('m', 'list', "['g', 'f']"),
]
VAR_TYPE = {n: ty for n, ty, _ in VARS}
VAR_LIT = {n: lit for n, _, lit in VARS}
NAMES = {'int': ['a', 'b', 'c'], 'bool': ['p', 'q', 'r'], 'str': ['s', 't', 'u'], 'list': ['l', 'm']}
VARS_TEXT = ''.join('%s = %s\n' % (n, lit) for n, _, lit in VARS)

# per-type domain over which a re-printed argument must keep its value (or its failure)
DOMAIN = {
    'int': [-2, 0, 1, 3],
    'bool': [True, False],
    'str': ['', 'x', 'Ab'],
    'list': [[], ['x'], ['Ab', 'x', 'm']],
}

# name -> (result type, operand types, template, operand slots that are bracketed (no parentheses needed))
OPS: T.Dict[str, T.Tuple[str, T.List[str], str, T.Set[int]]] = {
    'not': ('bool', ['bool'], 'not {0}', set()),
    'neg': ('int', ['int'], '-{0}', set()),
    'and': ('bool', ['bool', 'bool'], '{0} and {1}', set()),
    'or': ('bool', ['bool', 'bool'], '{0} or {1}', set()),
    'eq_i': ('bool', ['int', 'int'], '{0} == {1}', set()),
    'ne_s': ('bool', ['str', 'str'], '{0} != {1}', set()),
    'eq_b': ('bool', ['bool', 'bool'], '{0} == {1}', set()),
    'lt': ('bool', ['int', 'int'], '{0} < {1}', set()),
    'ge': ('bool', ['int', 'int'], '{0} >= {1}', set()),
    'in': ('bool', ['str', 'list'], '{0} in {1}', set()),
    'notin': ('bool', ['str', 'list'], '{0} not in {1}', set()),
    'add_i': ('int', ['int', 'int'], '{0} + {1}', set()),
    'sub': ('int', ['int', 'int'], '{0} - {1}', set()),
    'mul': ('int', ['int', 'int'], '{0} * {1}', set()),
    'div': ('int', ['int', 'int'], '{0} / {1}', set()),
    'mod': ('int', ['int', 'int'], '{0} % {1}', set()),
    'add_s': ('str', ['str', 'str'], '{0} + {1}', set()),
    'join': ('str', ['str', 'str'], '{0} / {1}', set()),
    'add_l': ('list', ['list', 'list'], '{0} + {1}', set()),
    'app_l': ('list', ['list', 'str'], '{0} + {1}', set()),
    'upper': ('str', ['str'], '{0}.to_upper()', set()),
    'to_s_i': ('str', ['int'], '{0}.to_string()', set()),
    'to_s_b': ('str', ['bool'], '{0}.to_string()', set()),
    'even': ('bool', ['int'], '{0}.is_even()', set()),
    'len': ('int', ['list'], '{0}.length()', set()),
    'contains': ('bool', ['str', 'str'], '{0}.contains({1})', {1}),
    'get': ('str', ['list', 'int'], '{0}.get({1})', {1}),
    'idx_l': ('str', ['list', 'int'], '{0}[{1}]', {1}),
    'idx_s': ('str', ['str', 'int'], '{0}[{1}]', {1}),
    'tern_i': ('int', ['bool', 'int', 'int'], '{0} ? {1} : {2}', set()),
    'tern_s': ('str', ['bool', 'str', 'str'], '{0} ? {1} : {2}', set()),
    'tern_b': ('bool', ['bool', 'bool', 'bool'], '{0} ? {1} : {2}', set()),
    'tern_l': ('list', ['bool', 'list', 'list'], '{0} ? {1} : {2}', set()),
    'arr2': ('list', ['str', 'str'], '[{0}, {1}]', {0, 1}),
}
OPS_BY_TYPE: T.Dict[str, T.List[str]] = {}
for _n, (_rt, _, _, _) in OPS.items():
    OPS_BY_TYPE.setdefault(_rt, []).append(_n)


def tree_type(t) -> str:
    return t[1] if t[0] == 'leaf' else OPS[t[0]][0]


def depth1(op: str):
    return (op, [('leaf', ty) for ty in OPS[op][1]])


def family(max_compound: int) -> T.List[tuple]:
    """All trees of depth <= 2: leaves, every operator over leaves, and every operator in which 1..max_compound
    operand slots hold an operator over leaves (every operator of the slot's type), simplest first."""
    out: T.List[tuple] = [('leaf', ty) for ty in ('bool', 'int', 'str', 'list')]
    out += [depth1(op) for op in OPS]
    for k in range(1, max_compound + 1):
        for op, (_, otys, _, _) in OPS.items():
            for slots in itertools.combinations(range(len(otys)), k):
                choices = [OPS_BY_TYPE[otys[i]] for i in slots]
                for inner in itertools.product(*choices):
                    ch = [('leaf', ty) for ty in otys]
                    for i, iop in zip(slots, inner):
                        ch[i] = depth1(iop)
                    out.append((op, ch))
    return out


def render(t, closed: bool = False, redundant: bool = False) -> str:
    """Text of a tree.  redundant=True additionally wraps every compound operand of a bracketed slot and the
    whole expression in parentheses (parentheses the grammar does not need)."""
    counters = {'int': 0, 'bool': 0, 'str': 0, 'list': 0}

    def leaf(ty):
        names = NAMES[ty]
        n = names[counters[ty] % len(names)]
        counters[ty] += 1
        return VAR_LIT[n] if closed else n

    def go(t):
        if t[0] == 'leaf':
            return leaf(t[1])
        _, _, tmpl, bracketed = OPS[t[0]]
        parts = []
        for i, ch in enumerate(t[1]):
            s = go(ch)
            if ch[0] != 'leaf' and (i not in bracketed or redundant):
                s = '(' + s + ')'
            parts.append(s)
        return tmpl.format(*parts)
    s = go(t)
    if redundant and t[0] != 'leaf':
        s = '(' + s + ')'
    return s


def tree_label(t) -> str:
    if t[0] == 'leaf':
        return 'leaf:' + t[1]
    return t[0] + '(' + ','.join('_' if ch[0] == 'leaf' else ch[0] for ch in t[1]) + ')'


def own_env() -> T.Dict[str, T.Any]:
    return reflang.run_program(VARS_TEXT)


def parse_expr(text: str, lenient: bool = False):
    p = reflang.Parser('x = ' + text + '\n', lenient_nl=lenient)
    tree = p.parse()
    if len(tree) != 1 or tree[0][0] != 'assign':
        raise SyntaxFail('not a single expression')
    return tree[0][2]


# string literals (source text) whose contents must survive re-printing
STRING_LITS: T.List[T.Tuple[str, str]] = [
    ('plain', "'plain'"),
    ('empty', "''"),
    ('quote', "'it\\'s'"),
    ('only-quote', "'\\''"),
    ('backslash', "'a\\\\b'"),
    ('only-backslash', "'\\\\'"),
    ('nl-escape', "'a\\nb'"),
    ('ws-before-nl-escape', "'a \\nb'"),
    ('tab-escape', "'a\\tb'"),
    ('cr-escape', "'a\\rb'"),
    ('unicode', "'grüß € \U0001d11e'"),
    ('hex-escapes', "'\\x41\\u00e9'"),
    ('unknown-escape', "'a\\qb'"),
    ('hash', "'#nocomment'"),
    ('brackets', "'[a, b: (c)]'"),
    ('ml', "'''two\nlines'''"),
    ('ml-quote', "'''it's \"q\"'''"),
    ('ml-backslash-n', "'''raw\\nkept'''"),
    ('ml-trailing-ws', "'''tr  \nws'''"),
    ('fstring', "f'@s@-x'"),
    ('fstring-quote', "f'@s@\\'x'"),
    ('ml-fstring', "f'''@s@\nml'''"),
]


# =========================================================================================================
# 2. Reference unparser (keeps explicit parentheses, adds none) and "which parentheses are necessary"
def unparse(e) -> str:
    k = e[0]
    if k == 'num':
        return e[2]
    if k == 'bool':
        return 'true' if e[1] else 'false'
    if k in ('str', 'fstr'):
        q = "'''" if e[2] else "'"
        return ('f' if k == 'fstr' else '') + q + e[3] + q
    if k == 'id':
        return e[1]
    if k == 'paren':
        return '(' + unparse(e[1]) + ')'
    if k == 'arr':
        return '[' + ', '.join(unparse(x) for x in e[1]) + ']'
    if k == 'dict':
        return '{' + ', '.join(unparse(a) + ': ' + unparse(b) for a, b in e[1]) + '}'
    if k == 'not':
        return 'not ' + unparse(e[1])
    if k == 'neg':
        return '-' + unparse(e[1])
    if k in ('and', 'or'):
        return unparse(e[1]) + ' ' + k + ' ' + unparse(e[2])
    if k == 'tern':
        return unparse(e[1]) + ' ? ' + unparse(e[2]) + ' : ' + unparse(e[3])
    if k in ('bin', 'cmp'):
        return unparse(e[2]) + ' ' + e[1] + ' ' + unparse(e[3])
    if k == 'idx':
        return unparse(e[1]) + '[' + unparse(e[2]) + ']'
    if k in ('call', 'meth'):
        args, kw = (e[2], e[3]) if k == 'call' else (e[3], e[4])
        inner = ', '.join([unparse(a) for a in args] + [n + ': ' + unparse(v) for n, v in kw])
        if k == 'call':
            return e[1] + '(' + inner + ')'
        return unparse(e[1]) + '.' + e[2] + '(' + inner + ')'
    raise AssertionError(k)


def children(e) -> T.List[T.Tuple[str, tuple]]:
    """(slot name, child expression) pairs of a node."""
    k = e[0]
    if k in ('num', 'bool', 'str', 'fstr', 'id'):
        return []
    if k == 'paren':
        return [('inner', e[1])]
    if k == 'arr':
        return [('elem', x) for x in e[1]]
    if k == 'dict':
        return [x for a, b in e[1] for x in (('key', a), ('val', b))]
    if k in ('not', 'neg'):
        return [('operand', e[1])]
    if k in ('and', 'or'):
        return [('operand', e[1]), ('operand', e[2])]
    if k == 'tern':
        return [('cond', e[1]), ('branch', e[2]), ('branch', e[3])]
    if k in ('bin', 'cmp'):
        return [('operand', e[2]), ('operand', e[3])]
    if k == 'idx':
        return [('recv', e[1]), ('index', e[2])]
    if k == 'call':
        return [('arg', a) for a in e[2]] + [('arg', v) for _, v in e[3]]
    if k == 'meth':
        return [('recv', e[1])] + [('arg', a) for a in e[3]] + [('arg', v) for _, v in e[4]]
    raise AssertionError(k)


def with_children(e, ch: T.List[tuple]):
    """The node e with its children (in the order of children()) replaced."""
    k = e[0]
    if not ch:
        return e
    if k == 'paren':
        return ('paren', ch[0])
    if k == 'arr':
        return ('arr', list(ch))
    if k == 'dict':
        return ('dict', [(ch[2 * i], ch[2 * i + 1]) for i in range(len(ch) // 2)])
    if k in ('not', 'neg'):
        return (k, ch[0])
    if k in ('and', 'or'):
        return (k, ch[0], ch[1])
    if k == 'tern':
        return (k, ch[0], ch[1], ch[2])
    if k in ('bin', 'cmp'):
        return (k, e[1], ch[0], ch[1])
    if k == 'idx':
        return (k, ch[0], ch[1])
    if k == 'call':
        n = len(e[2])
        return (k, e[1], list(ch[:n]), [(kn, v) for (kn, _), v in zip(e[3], ch[n:])])
    if k == 'meth':
        n = len(e[3])
        return (k, ch[0], e[2], list(ch[1:1 + n]), [(kn, v) for (kn, _), v in zip(e[4], ch[1 + n:])])
    raise AssertionError(k)


def shape(e) -> tuple:
    """Everything of a node except its children."""
    k = e[0]
    if k in ('num', 'bool', 'id'):
        return (k, e[1])
    if k in ('str', 'fstr'):
        return (k, e[1])
    if k in ('bin', 'cmp'):
        return (k, e[1])
    if k == 'call':
        return (k, e[1], len(e[2]), tuple(n for n, _ in e[3]))
    if k == 'meth':
        return (k, e[2], len(e[3]), tuple(n for n, _ in e[4]))
    if k in ('arr', 'dict'):
        return (k, len(e[1]))
    return (k,)


def unparen(e):
    while e[0] == 'paren':
        e = e[1]
    return e


def kind_name(e, slot: str) -> str:
    k = e[0]
    if k == 'bin':
        return 'arith'
    if k == 'neg':
        return 'uminus'
    if k in ('meth', 'idx'):
        return ('method' if k == 'meth' else 'index') + '-' + ('receiver' if slot == 'recv' else 'argument')
    if k == 'tern':
        return 'ternary'
    if k == 'cmp':
        return 'comparison'
    return k


def is_compound(e) -> bool:
    return unparen(e)[0] not in ('num', 'bool', 'str', 'fstr', 'id', 'arr', 'dict', 'call')


def paren_label(parent, slot: str, index: int, child) -> str:
    """Name of the defect class "the parentheses around `child` (operand `index` of `parent`) were dropped".
    Operators other than arithmetic: the class is the parent kind (their operands are never parenthesised).
    Arithmetic: the class is (parent operator, side, child operator) - the printer decides per operator pair."""
    if parent[0] == 'bin':
        c = unparen(child)
        cop = c[1] if c[0] == 'bin' else c[0]
        return 'lost-parens-under-arith:%s%s:%s' % (parent[1], 'L' if index == 0 else 'R', cop)
    return 'lost-parens-under-' + kind_name(parent, slot)


def _paren_child_label(e, n=None) -> T.Optional[str]:
    """Label of a parenthesised compound operand of e.  Preference: the pair whose removal alone turns e into the
    re-printed tree n; else a pair the reference grammar needs (removing it alone changes or breaks the reading
    of e); else the first pair."""
    first = needed = None
    ch = children(e)
    want = strip_parens(n) if n is not None else None
    for i, (slot, c) in enumerate(ch):
        if c[0] == 'paren' and is_compound(c):
            lab = paren_label(e, slot, i, c)
            if first is None:
                first = lab
            kids = [x for _, x in ch]
            kids[i] = c[1]
            try:
                t = strip_parens(parse_expr(unparse(with_children(e, kids))))
                if want is not None and t == want:
                    return lab
                if t != strip_parens(e) and needed is None:
                    needed = lab
            except SyntaxFail:
                if needed is None:
                    needed = lab
            except Unspecified:
                pass
    return needed or first


def string_features(e) -> T.List[str]:
    """Features of one string literal node that a printer can get wrong."""
    val, is_m, body = e[1], e[2], e[3]
    f = []
    if "'" in val:
        f.append('quote')
    if '\\' in val:
        f.append('backslash')
    if '\n' in val:
        f.append('newline' if not is_m else 'ml-newline')
    if re.search(r'[ \t]\n', val):
        f.append('ws-before-newline')
    if '\t' in val:
        f.append('tab')
    if any(ord(ch) > 127 for ch in val):
        f.append('nonascii')
    if e[0] == 'fstr':
        f.append('fstring')
    return f


def culprit(o, n) -> T.Optional[str]:
    """Names the construct of the ORIGINAL expression o at which the re-printed expression n (both reflang trees)
    stops meaning the same: 'lost-parens-under-<kind>', 'string-<features>' or None (no explanation found)."""
    r = _culprit(o, n)
    if r is None:
        syn, sem = necessary_parens(o)
        labs = sorted(set(syn + sem))
        if labs:
            return '+'.join(labs)
    return r


def _culprit(o, n) -> T.Optional[str]:
    o1, n1 = unparen(o), unparen(n)
    if o1[0] in ('str', 'fstr') and n1[0] in ('str', 'fstr') and (o1[0], o1[1]) != (n1[0], n1[1]):
        return 'string-' + ('+'.join(string_features(o1)) or 'plain')
    if shape(o1) == shape(n1):
        for i, ((slot, co), (_, cn)) in enumerate(zip(children(o1), children(n1))):
            if strip_parens(co) == strip_parens(cn):
                continue
            r = _culprit(co, cn)
            if r is not None:
                return r
            return _paren_child_label(o1, n1)
        return None
    return _paren_child_label(o1, n1)


def necessary_parens(e) -> T.Tuple[T.List[str], T.List[str]]:
    """For every parenthesised compound sub-expression of e: remove that one pair, unparse, re-read with the
    reference parser.  Returns (labels of pairs whose removal makes the text unparsable, labels of pairs whose
    removal changes the tree).  Labels are 'lost-parens-under-<kind of the parent>'."""
    syn: T.List[str] = []
    sem: T.List[str] = []
    base = strip_parens(e)

    def rebuild(node, path, repl):
        if not path:
            return repl
        ch = [c for _, c in children(node)]
        ch[path[0]] = rebuild(ch[path[0]], path[1:], repl)
        return with_children(node, ch)

    def walk(node, path, parent, slot, idx):
        if node[0] == 'paren' and is_compound(node) and parent is not None:
            label = paren_label(parent, slot, idx, node)
            new = rebuild(e, path, node[1])
            try:
                t = parse_expr(unparse(new))
                if strip_parens(t) != base:
                    sem.append(label)
            except SyntaxFail:
                syn.append(label)
            except Unspecified:
                pass
        for i, (s, ch) in enumerate(children(node)):
            if node[0] != 'paren':
                walk(ch, path + [i], node, s, i)
            else:
                walk(ch, path + [i], parent, slot, idx)
    walk(e, [], None, '', 0)
    return sorted(set(syn)), sorted(set(sem))


def all_strings(e) -> T.List[tuple]:
    out = []

    def go(x):
        if x[0] in ('str', 'fstr'):
            out.append(x)
        for _, ch in children(x):
            go(ch)
    go(e)
    return out


def free_ids(e) -> T.List[str]:
    out: T.List[str] = []

    def go(x):
        if x[0] == 'id' and x[1] not in out:
            out.append(x[1])
        if x[0] == 'fstr':
            for mm in re.finditer(r'@([_a-zA-Z][_0-9a-zA-Z]*)@', x[1]):
                if mm.group(1) not in out:
                    out.append(mm.group(1))
        for _, ch in children(x):
            go(ch)
    go(e)
    return out


# =========================================================================================================
# 3. Reference reading of a build file
FAILM = ('FAIL',)
UNSPECM = ('UNSPEC',)
TARGET_FUNCS = ('executable', 'library', 'static_library', 'shared_library', 'shared_module', 'both_libraries', 'jar')
ITEM_KW = ('sources', 'extra_files')


def evalm(e, env):
    """Canonical value of an expression under env, or a failure marker."""
    ev = reflang.Evaluator(env, opaque_calls=True)
    try:
        v = ev.ev(e)
        if v is None:
            return FAILM
        return shallow(canon(v))
    except Fail:
        return FAILM
    except Unspecified:
        return UNSPECM
    except RecursionError:
        return UNSPECM


def shallow(c):
    """Objects made by calls outside the core language are identified by (function, first argument) only - the
    record of a target must not change because a dependency() it refers to got another keyword.  files() keeps
    its arguments (they are sources)."""
    if c[0] == 'l':
        return ('l', tuple(shallow(x) for x in c[1]))
    if c[0] == 'd':
        return ('d', tuple((k, shallow(v)) for k, v in c[1]))
    if c[0] == 'o':
        if c[1] == 'files':
            return ('o', c[1], tuple(shallow(x) for x in c[2]), ())
        return ('o', c[1], tuple(shallow(x) for x in c[2][:1]), ())
    return c


def _flat_canon(c) -> T.List[tuple]:
    """Flatten a canonical value the way source lists flatten (nested arrays, files(...))."""
    if c[0] == 'l':
        return [y for x in c[1] for y in _flat_canon(x)]
    if c[0] == 'o' and c[1] == 'files' and not c[3]:
        return [y for x in c[2] for y in _flat_canon(x)]
    return [c]


def items(e, env) -> T.List[tuple]:
    """The flattened elements an expression contributes to a source list.  Array literals, files(...) and `+`
    chains that contain them are walked element by element, so that a failing element stays one marker."""
    e = unparen(e)
    if e[0] == 'arr':
        return [y for x in e[1] for y in items(x, env)]
    if e[0] == 'call' and e[1] == 'files' and not e[3]:
        return [y for x in e[2] for y in items(x, env)]
    if e[0] == 'bin' and e[1] == '+' and (_has_list_literal(e[2]) or _has_list_literal(e[3])) \
            and _listy(e[2], env) and _listy(e[3], env):
        return items(e[2], env) + items(e[3], env)
    c = evalm(e, env)
    return _flat_canon(c)


def literal_items(e) -> T.List[tuple]:
    """Source strings written literally in the expression itself (array elements, files() arguments, `+` chains),
    i.e. not reached through an identifier."""
    e = unparen(e)
    if e[0] == 'str':
        return [('s', e[1])]
    if e[0] == 'arr':
        return [y for x in e[1] for y in literal_items(x)]
    if e[0] == 'call' and e[1] == 'files' and not e[3]:
        return [y for x in e[2] for y in literal_items(x)]
    if e[0] == 'bin' and e[1] == '+':
        return literal_items(e[2]) + literal_items(e[3])
    return []


def _has_list_literal(e) -> bool:
    e = unparen(e)
    return e[0] == 'arr' or (e[0] == 'call' and e[1] == 'files') or \
        (e[0] == 'bin' and e[1] == '+' and (_has_list_literal(e[2]) or _has_list_literal(e[3])))


def _listy(e, env) -> bool:
    e = unparen(e)
    if e[0] == 'arr' or (e[0] == 'call' and e[1] == 'files'):
        return True
    if e[0] == 'bin' and e[1] == '+':
        return _listy(e[2], env) and _listy(e[3], env)
    c = evalm(e, env)
    return c[0] == 'l' or (c[0] == 'o' and c[1] == 'files')


def call_record(e, env) -> T.Dict[str, T.Any]:
    """Record of a call expression: positional values in order, source items (multiset), keyword values in order."""
    e = unparen(e)
    assert e[0] == 'call'
    pos = [evalm(a, env) for a in e[2]]
    rec: T.Dict[str, T.Any] = {'fname': e[1], 'pos': pos, 'kw': [], 'src': None, 'items_kw': {}, 'lit': []}
    if e[1] in TARGET_FUNCS:
        src: T.List[tuple] = []
        for a in e[2][1:]:
            src += items(a, env)
            rec['lit'] += literal_items(a)
        rec['src'] = src
    for k, v in e[3]:
        if k in ITEM_KW and e[1] in TARGET_FUNCS:
            it = items(v, env)
            rec['items_kw'][k] = it
            if k == 'sources':
                rec['src'] = rec['src'] + it
                rec['lit'] += literal_items(v)
            rec['kw'].append((k, ('items',)))
        else:
            rec['kw'].append((k, evalm(v, env)))
    if rec['src'] is not None:
        rec['src'] = sorted(rec['src'], key=repr)
    for k in rec['items_kw']:
        rec['items_kw'][k] = sorted(rec['items_kw'][k], key=repr)
    return rec


def stmt_rhs(stmt):
    """The expression of a simple statement (assignment value or expression statement), else None."""
    if stmt[0] in ('assign', 'plusassign'):
        return stmt[2]
    if stmt[0] == 'expr':
        return stmt[1]
    return None


def tracked_call(stmt) -> T.Optional[tuple]:
    rhs = stmt_rhs(stmt)
    if rhs is None:
        return None
    rhs = unparen(rhs)
    if rhs[0] == 'call' and (rhs[1] in TARGET_FUNCS or rhs[1] in ('project', 'dependency')):
        return rhs
    return None


class Reading(T.NamedTuple):
    leaves: T.List[T.Tuple[int, int, tuple]]
    env: T.Dict[str, T.Any]
    records: T.List[T.Tuple[int, T.Dict[str, T.Any]]]    # (leaf index, record) of every tracked call
    eval_ok: bool


def read_program(text: str, lenient: bool = False) -> Reading:
    """Parse (raises SyntaxFail/Unspecified) and evaluate in the file's own environment."""
    p = reflang.Parser(text, lenient_nl=lenient)
    tree = p.parse()
    ev = reflang.Evaluator(opaque_calls=True)
    ok = True
    try:
        ev.run(tree)
    except (Fail, Unspecified, RecursionError):
        ok = False
    recs = []
    for i, (_, _, st) in enumerate(p.leaves):
        c = tracked_call(st)
        if c is not None:
            recs.append((i, call_record(c, ev.vars)))
    return Reading(p.leaves, dict(ev.vars), recs, ok)


def rec_name(rec) -> T.Any:
    p = rec['pos']
    return p[0][1] if p and p[0][0] == 's' else None


# =========================================================================================================
# 4. Textual skeleton: new text must be the old text with only the allowed statements replaced
WS = ' \t\r\n'


def skeleton_match(old: str, new: str, leaves, allowed: T.Set[int], allow_append: bool):
    """Returns (runs, None) or (None, reason).  runs = list of (leaf indices of the run, replacement text).
    Every byte of old outside the allowed statements must re-appear in new, in order; white space directly
    adjacent to an allowed statement may differ (removing a statement may take its line break along)."""
    fixed: T.List[str] = []
    runs: T.List[T.List[int]] = []
    pos = 0
    cur: T.Optional[T.List[int]] = None
    for i, (s, e, _) in enumerate(leaves):
        if i not in allowed:
            continue
        gap = old[pos:s]
        if cur is not None and gap.strip(WS) == '':
            cur.append(i)
        else:
            fixed.append(gap)
            cur = [i]
            runs.append(cur)
        pos = e
    fixed.append(old[pos:])
    if allow_append:
        # a virtual run at end of file
        runs.append([])
        fixed.append('')
    # match: new = fixed[0] R0 fixed[1] R1 ... fixed[n]
    out = []
    p = 0
    for j, fx in enumerate(fixed):
        first, last = j == 0, j == len(fixed) - 1
        core = fx
        if not first:
            core = core.lstrip(WS)
        if not last:
            core = core.rstrip(WS)
        if first:
            if not new.startswith(core):
                return None, 'text before the first edited statement changed'
            q = 0
        elif last:
            q = len(new) - len(core)
            if q < p or not new.endswith(core):
                return None, 'text after the last edited statement changed'
        else:
            q = new.find(core, p)
            if q < 0:
                return None, 'text between edited statements changed'
        if not first:
            out.append((runs[j - 1], new[p:q]))
        p = q + len(core)
    return out, None


def split_statements(text: str, lenient: bool = False):
    """Leaves of a replacement text (raises SyntaxFail / Unspecified)."""
    p = reflang.Parser(text if text.endswith('\n') else text + '\n', lenient_nl=lenient)
    p.parse()
    return p.leaves
