#!/usr/bin/env python3
"""tools/seed_prompt.py <Cnn> <suffix>  -- prepare /tmp/seed/<cnn><suffix>/{wt,out} (a scratch git worktree of /repo) and print
the prompt for an independent seed agent.  The prompt carries the property text from properties.jsonl and the *names* of the
changes earlier agents produced for it (so that a new agent looks elsewhere) - nothing about the checks in /verif."""
import json, os, subprocess, sys, glob

pid, suffix = sys.argv[1].upper(), sys.argv[2]
here = os.path.dirname(os.path.dirname(os.path.abspath(__file__)))
prop = [json.loads(l) for l in open(os.path.join(here, 'properties.jsonl')) if json.loads(l)['id'] == pid][0]
tag = pid.lower() + suffix
base = '/tmp/seed/' + tag
wt = base + '/wt'
os.makedirs(base + '/out', exist_ok=True)
if not os.path.exists('/tmp/seed/ninja-stub'):
    subprocess.check_call(['cp', os.path.join(here, 'tools', 'ninja'), '/tmp/seed/ninja-stub'])
    os.chmod('/tmp/seed/ninja-stub', 0o755)
if not os.path.exists(wt):
    subprocess.check_call(['git', '-C', '/repo', 'worktree', 'add', '--detach', '-f', wt, 'HEAD'], stdout=subprocess.DEVNULL, stderr=subprocess.DEVNULL)
earlier = []
for d in sorted(glob.glob(os.path.join(here, 'seeded', pid.lower() + '*'))):
    m = json.load(open(os.path.join(d, 'meta.json')))
    earlier.append('- %s: needs %s' % (os.path.basename(d).split('-', 1)[1], m.get('needs', '')))
print('''You are helping to evaluate a verification effort for the Meson build system (Python). Your job is to write ONE realistic
*bug-introducing* change to Meson's source that breaks the semantic property below, and a demonstration that shows it.

PROPERTY %(id)s - %(title)s
%(statement)s
(Quantified over: %(q)s)
Files where the relevant code lives: %(files)s

Your scratch git worktree of the repository is %(wt)s (a detached checkout; work ONLY there; never touch /repo or /verif, and do not
read anything under /verif). Python is /venv/bin/python. There is no network. Ninja is not installed: if you need `meson setup` with
the ninja backend, export NINJA=/tmp/seed/ninja-stub (a stub that answers --version and -t compdb; nothing can be built with it),
or use --backend=none. gcc, pkg-config, patch, git are installed. Run meson from your worktree as
`/venv/bin/python %(wt)s/meson.py ...` (make sure PYTHONPATH=%(wt)s so that your edited mesonbuild is the one imported).

Requirements for the change:
1. It must look like a plausible maintainer mistake (an optimisation, a refactoring, a cache, a reordered statement, an off-by-one,
   a changed condition) - not sabotage, no dead code, no special-casing of magic inputs. Keep it small (typically 3-25 lines).
2. Meson must still import and work for ordinary projects, and the pinned test-suite must still pass:
   cd %(wt)s && PYTHONPATH=%(wt)s /venv/bin/python -m pytest -q -p no:cacheprovider unittests/cargotests.py unittests/optiontests.py unittests/taptests.py unittests/versiontests.py
   (107 tests; run it and report the result).
3. The breakage must need something SPECIFIC to manifest - a particular multi-step history, an unusual but legal input, a particular
   ordering/interleaving, a fault at a particular point, or two cooperating code sites that each look fine alone. Ordinary use (a plain
   hello-world project, the simplest input) must NOT expose it.
4. Earlier rounds already produced the changes listed below for this property. Pick a DIFFERENT part of the property statement / a
   different code site / a different mechanism than all of them:
%(earlier)s

Deliverables, all written into %(base)s/out/ :
- patch.diff : `git -C %(wt)s diff` of your change (source files only, applies with `patch -p1` at the repository root).
- demo.py (or demo.sh): a self-contained demonstration taking ONE argument, the path of a meson source tree (e.g. %(wt)s or /repo),
  which it must put first on sys.path / PYTHONPATH and use for everything. It exits 0 when the property holds on the inputs it tries and
  non-zero when it is violated. It must FAIL (non-zero) on your patched worktree and PASS (0) on the unmodified /repo. It must create its
  scratch files in a fresh temporary directory (tempfile.mkdtemp) and remove them; if it runs meson commands use
  NINJA=/tmp/seed/ninja-stub or --backend=none. Keep it under a minute.
- README.md : 10-20 lines: what the change is, which clause of the property it breaks, exactly what is needed for it to manifest,
  the pinned-suite result, and the demo's output on both trees.
If while working you notice that the UNMODIFIED code already violates the property for some input, add a section "Defect in the
unmodified tree" to README.md with the exact reproducer - that is valuable too.
Verify everything yourself before finishing (suite passes with the patch; demo fails with it and passes on /repo). Leave the worktree
as it is when you are done (patched); do not commit. Your final answer should be a 5-line summary.''' % dict(
    id=pid, title=prop['title'], statement=prop['statement'], q=prop['quantifier']['text'],
    files=', '.join(prop['anchors']['files']), wt=wt, base=base, earlier='\n'.join(earlier) or '- (none)'))
