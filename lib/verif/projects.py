# Hand-written feature-rich projects shared by C06 and C15.
RICH = {
    'meson.build': '''project('rich', 'c', version: '1.2.3', default_options: ['warning_level=2', 'c_std=c99'], license: ['MIT', 'BSD-3-Clause'])
pkg = import('pkgconfig')
fs = import('fs')
cdata = configuration_data()
foreach k, v : {'ZETA': 1, 'ALPHA': 'a', 'MID': true, 'BETA': 0, 'OMEGA': 'w', 'GAMMA': 3, 'DELTA': false}
  cdata.set(k, v)
endforeach
cdata.set_quoted('NAME', meson.project_name())
# answers of compiler checks (cached in coredata between runs) that end up in generated files; -Wnon-virtual-dtor is accepted
# by gcc for C with a warning on stderr only
cc = meson.get_compiler('c')
supp = cc.get_supported_arguments(['-Wnon-virtual-dtor', '-Wmissing-prototypes', '-Wno-such-warning-at-all'])
cdata.set('HAS_NVD', cc.has_argument('-Wnon-virtual-dtor'))
cdata.set('N_SUPPORTED', supp.length())
cdata.set('HAS_STDIO', cc.has_header('stdio.h'))
cdata.set('SIZEOF_INT', cc.sizeof('int'))
add_project_arguments(supp, language: 'c')
configure_file(output: 'config.h', configuration: cdata)
configure_file(input: 'tmpl.in', output: 'tmpl.out', configuration: cdata)
# templates whose lines end in CR LF / in a lone CR (the output keeps them)
configure_file(input: 'crlf.h.in', output: 'crlf.h', configuration: cdata)
configure_file(input: 'cr.txt.in', output: 'cr.txt', configuration: cdata)
configure_file(input: 'crlf.cm.in', output: 'crlf_cm.h', configuration: cdata, format: 'cmake@')
add_project_arguments('-DPROJ_B', '-DPROJ_A', language: 'c')
add_project_link_arguments('-Wl,--as-needed', language: 'c')
inc = include_directories('inc', 'inc2')
gen_h = custom_target('gen_h', input: 'g.h.in', output: 'g.h', command: ['cp', '@INPUT@', '@OUTPUT@'], install: true, install_dir: get_option('includedir'))
gen_c = custom_target('gen_c', input: 'g.c.in', output: ['g1.c', 'g2.h'], command: ['sh', '-c', 'cp "$0" "$1"; echo > "$2"', '@INPUT@', '@OUTPUT0@', '@OUTPUT1@'])
z = static_library('zlibish', 'z.c', include_directories: inc, install: true)
m = shared_library('mlib', 'm.c', gen_h, link_with: z, version: '2.3.4', soversion: '2', install: true, c_args: ['-DM_Z', '-DM_A'])
b = both_libraries('blib', 'b.c', link_with: [m, z], install: true)
zdep = declare_dependency(link_with: z, include_directories: inc, compile_args: ['-DZDEP'])
mdep = declare_dependency(link_with: m, sources: gen_h, dependencies: zdep)
sp = subproject('spa', default_options: ['flag=true', 'name=zz'])
spdep = sp.get_variable('spa_dep')
sp2 = subproject('spb')
exe = executable('main', 'main.c', gen_c, dependencies: [mdep, spdep, sp2.get_variable('spb_dep')], install: true, c_args: ['-DE2', '-DE1'])
exe2 = executable('tool', 'tool.c', link_with: b.get_static_lib(), native: false)
# statements with implicit AND several order-only dependencies: precompiled header / depend_files next to five generated headers
manyh = custom_target('manyh', output: ['epsilon.h', 'beta.h', 'delta.h', 'alpha.h', 'gamma.h'], command: ['sh', '-c', 'for f in "$@"; do echo > "$f"; done', 'sh', '@OUTPUT@'])
executable('pchapp', 'pchapp.c', manyh, gen_h, c_pch: 'pch/pchapp_pch.h')
custom_target('depf', input: 'g.h.in', output: 'depf.txt', command: ['cp', '@INPUT@', '@OUTPUT@'], depend_files: files('data/z.txt', 'data/a.txt', 'man/rich.1'), depends: [manyh, gen_h, gen_c])
pkg.generate(m, name: 'mlib', description: 'm', requires: [], libraries: [z], extra_cflags: ['-DX_B', '-DX_A'], variables: ['zvar=1', 'avar=2'], subdirs: ['sub2', 'sub1'])
pkg.generate(b, description: 'b lib', requires: m)
# several constraints per package (kept in a set internally), public and private
pkg.generate(name: 'reqs', description: 'r', version: '1', requires: ['foo>=1.0', 'foo!=1.3', 'foo!=1.4', 'foo<2.0', 'zed>1', 'zed>=1.1', 'zed!=1.5'],
             requires_private: ['bar<3.0', 'bar<=2.9', 'bar>=2.0', 'bar!=2.5', 'bar=2.2'])
install_data('data/z.txt', 'data/a.txt', install_dir: get_option('datadir') / 'rich')
install_headers('inc/pub_z.h', 'inc/pub_a.h', subdir: 'rich')
install_man('man/rich.1', 'man/arich.3')
install_subdir('tree', install_dir: get_option('datadir') / 'rich')
# one install_data() call whose files get different implicit tags (none for .txt, devel for .pc), in both orders
install_data('m1.txt', 'x.pc', install_dir: get_option('libdir') / 'pkgconfig')
install_data('y.pc', 'm2.txt', install_dir: get_option('libdir') / 'pkgconfig')
# several excluded names: sets on the way to the install plan
install_subdir('tree2', install_dir: get_option('datadir') / 'rich-partial', exclude_files: ['zz.txt', 'aa.txt', 'mm.txt', 'k/q.txt', 'bb.txt'], exclude_directories: ['zd', 'ad', 'md', 'bd', 'k/qd'])
eu = environment()
eu.unset('UNSET_Z')
eu.unset('UNSET_A')
eu.unset('UNSET_M')
eu.set('SETV', '1')
custom_target('envct', output: 'envct.txt', command: ['sh', '-c', 'echo x'], capture: true, env: eu)
run_target('envrt', command: ['true'], env: eu)
e = environment({'ZED': '1', 'ABC': '2'})
e.append('PATHISH', 'x', 'y')
e.prepend('LAST', 'l')
e.set('MIDDLE', 'm')
test('t_z', exe, env: e, suite: ['s_z', 's_a'], args: ['--z', '--a'], depends: [exe2, gen_h])
test('t_a', exe2, env: ['Q=1', 'P=2'], suite: 's_a', is_parallel: false, timeout: 7, priority: 3)
benchmark('bench', exe2)
run_target('rt', command: [exe2, '--x'], depends: m)
alias_target('ali', exe, exe2)
summary({'zeta': 1, 'alpha': 'a', 'mid': true}, section: 'Sec B')
summary({'k2': get_option('strop'), 'k1': get_option('combop')}, section: 'Sec A')
foreach f : ['src1/z.c', 'src1/a.c']
  executable('x_' + fs.stem(f), f)
endforeach
subdir('src2')
''',
    'meson.options': '''option('strop', type: 'string', value: 'sv')
option('combop', type: 'combo', choices: ['z', 'a', 'm'], value: 'a')
option('boolop', type: 'boolean', value: true)
option('intop', type: 'integer', min: 0, max: 10, value: 3)
option('arrop', type: 'array', choices: ['z', 'y', 'a'], value: ['y', 'a'])
option('featop', type: 'feature', value: 'auto')
option('zz_last', type: 'string', value: '')
option('aa_first', type: 'string', value: '')
''',
    'tmpl.in': 'a=@ALPHA@ z=@ZETA@ #mesondefine MID\n',
    'crlf.h.in': '/* crlf */\r\n#define A "@ALPHA@"\r\n#mesondefine MID\r\n#mesondefine BETA\r\nlast @ZETA@\r\n',
    'cr.txt.in': 'one @ALPHA@\rtwo @ZETA@\rthree\r',
    'crlf.cm.in': '#cmakedefine MID\r\n#cmakedefine01 BETA\r\nv=@GAMMA@\r\n',
    'g.h.in': '#define G 1\n', 'g.c.in': 'int g1(void) { return 1; }\n',
    'z.c': 'int zf(void) { return 1; }\n', 'm.c': '#include "g.h"\nint zf(void); int mf(void) { return zf() + G; }\n',
    'b.c': 'int mf(void); int bf(void) { return mf(); }\n',
    'main.c': '#include "g.h"\nint mf(void); int g1(void); int spa(void); int spb(void); int main(void) { return mf() + g1() + spa() + spb() - 5; }\n',
    'tool.c': 'int bf(void); int main(void) { return bf() - 2; }\n',
    'inc/pub_z.h': '', 'inc/pub_a.h': '', 'inc2/x.h': '', 'data/z.txt': 'z', 'data/a.txt': 'a', 'man/rich.1': '', 'man/arich.3': '',
    'm1.txt': 'm1', 'x.pc': 'Name: x\n', 'y.pc': 'Name: y\n', 'm2.txt': 'm2',
    'tree/z/f1': '1', 'tree/a/f2': '2', 'tree/m.txt': 'm', 'tree2/keep.txt': 'k', 'tree2/aa.txt': 'a', 'tree2/zz.txt': 'z', 'tree2/k/q.txt': 'q', 'tree2/k/r.txt': 'r',
    'tree2/zd/x': 'x', 'tree2/ad/y': 'y', 'tree2/keepd/w': 'w', 'tree2/k/qd/v': 'v', 'src1/z.c': 'int main(void){return 0;}\n', 'src1/a.c': 'int main(void){return 0;}\n',
    'src2/meson.build': "executable('s2_z', 'z.c')\nexecutable('s2_a', 'a.c', install: true, install_dir: 'libexec')\nsubdir('deep')\n",
    'src2/z.c': 'int main(void){return 0;}\n', 'src2/a.c': 'int main(void){return 0;}\n',
    'src2/deep/meson.build': "static_library('deep', 'd.c')\n", 'src2/deep/d.c': 'int d(void){return 0;}\n',
    'subprojects/spa/meson.build': "project('spa', 'c', version: '0.1', default_options: ['default_library=static'])\nl = library('spa', 'spa.c', c_args: get_option('flag') ? ['-DFLAG'] : [])\nspa_dep = declare_dependency(link_with: l)\ninstall_data('spa.txt')\ntest('spa_t', executable('spa_e', 'e.c'))\n",
    'subprojects/spa/meson.options': "option('flag', type: 'boolean', value: false)\noption('name', type: 'string', value: 'n')\noption('strop', type: 'string', value: 'spv', yield: true)\n",
    'subprojects/spa/spa.c': 'int spa(void) { return 1; }\n', 'subprojects/spa/e.c': 'int main(void){return 0;}\n', 'subprojects/spa/spa.txt': 's',
    'subprojects/spb/meson.build': "project('spb', 'c')\nl = static_library('spb', 'spb.c')\nspb_dep = declare_dependency(link_with: l)\n",
    'subprojects/spb/spb.c': 'int spb(void) { return 1; }\n',
    'pchapp.c': 'int main(void) { return 0; }\n',
    'pch/pchapp_pch.h': '#include <stdio.h>\n',
}

NOLANG = {
    'meson.build': '''project('nolang', version: '3', meson_version: '>=1.0')
cd = configuration_data({'Z': 'z', 'A': 'a', 'M': 1})
configure_file(output: 'out.h', configuration: cd)
configure_file(input: 'in.txt', output: 'copied.txt', copy: true)
foreach n : ['zeta', 'alpha', 'mid']
  custom_target(n, input: 'in.txt', output: n + '.txt', command: ['cp', '@INPUT@', '@OUTPUT@'], build_by_default: true, install: true, install_dir: 'share/nl', install_tag: n)
endforeach
install_data('in.txt', rename: 'renamed.txt', install_dir: 'share/nl')
install_emptydir('share/nl/empty_z', 'share/nl/empty_a')
install_symlink('lnk', pointing_to: 'renamed.txt', install_dir: 'share/nl')
t = find_program('true')
foreach n : ['tz', 'ta', 'tm']
  test(n, t, suite: n, env: {'Z': '1', 'A': '2'})
endforeach
subproject('s1')
subproject('s0')
''',
    'in.txt': 'x\n',
    'subprojects/s1/meson.build': "project('s1')\ncustom_target('s1t', output: 'o.txt', command: ['touch', '@OUTPUT@'], build_by_default: true)\n",
    'subprojects/s0/meson.build': "project('s0')\nconfigure_file(output: 's0.h', configuration: {'K': 1})\n",
}




def install_dirs_project():
    """Every installable kind x every way of spelling its install directory (relative literal, option, option-joined, joined
    with the prefix, absolute outside the prefix, absolute inside the prefix, built by string concatenation), one project."""
    forms = [
        ('rel', "'share/idp/rel'"),
        ('opt', "get_option('datadir')"),
        ('optjoin', "get_option('datadir') / 'idp' / 'oj'"),
        ('prefixjoin', "join_paths(get_option('prefix'), 'share', 'idp', 'pj')"),
        ('absout', "'/opt/idp/share'"),
        ('absin', "'/usr/share/idp/absin'"),
        ('concat', "'/' + 'opt' + '/idp/concat'"),
        ('fmt', "'@0@/idp/fmt'.format(get_option('libexecdir'))"),
    ]
    mb = ["project('idp', 'c', version: '1')"]
    files = {'in.txt': 'x\n', 'main.c': 'int main(void) { return 0; }\n', 'lib.c': 'int idp_f(void) { return 1; }\n',
             'hdr.h': '/* h */\n', 'cfg.in': 'v=@V@\n'}
    for tag, expr in forms:
        mb.append("custom_target('ct_%s', input: 'in.txt', output: 'ct_%s.txt', command: ['cp', '@INPUT@', '@OUTPUT@'], "
                  "build_by_default: true, install: true, install_dir: %s)" % (tag, tag, expr))
        mb.append("executable('exe_%s', 'main.c', install: true, install_dir: %s)" % (tag, expr))
        mb.append("static_library('sl_%s', 'lib.c', install: true, install_dir: %s)" % (tag, expr))
        mb.append("install_data('in_%s.txt', rename: 'data_%s.txt', install_dir: %s)" % (tag, tag, expr))
        mb.append("install_headers('hdr_%s.h', install_dir: %s / 'hdr_%s')" % (tag, expr, tag))
        files['in_%s.txt' % tag] = 'x\n'
        files['hdr_%s.h' % tag] = '/* h */\n'
        mb.append("configure_file(input: 'cfg.in', output: 'cfg_%s.txt', configuration: {'V': '%s'}, install: true, install_dir: %s)" % (tag, tag, expr))
        mb.append("install_subdir('tree_%s', install_dir: %s)" % (tag, expr))
        mb.append("install_emptydir(%s / 'empty_%s')" % (expr, tag))
        files['tree_%s/leaf.txt' % tag] = 'leaf\n'
    # one source installed to two places (the plan is keyed by source path)
    mb.append("install_data('dup.txt', install_dir: 'share/idp/dupA')")
    mb.append("install_data('dup.txt', install_dir: 'share/idp/dupB')")
    files['dup.txt'] = 'd\n'
    files['meson.build'] = '\n'.join(mb) + '\n'
    return files


def install_names_project():
    """Every install function x every documented keyword that changes the NAME (not only the directory) under which a file is
    installed: install_man(locale:) for pages with and without the locale infix, install_data(rename:, preserve_path:),
    install_headers(subdir:, preserve_path:), install_subdir(strip_directory:), name_prefix / name_suffix / version / soversion of
    targets, both_libraries, custom targets with one install_dir per output (false = not installed), install_symlink."""
    mb = ["project('inp', 'c', version: '1')"]
    files = {'main.c': 'int main(void) { return 0; }\n', 'lib.c': 'int inp_f(void) { return 1; }\n', 'in.txt': 'x\n'}
    pages = ['foo.1', 'foo.fr.1', 'bar.fr.3', 'my.frobnicator.fr.1', 'fr.fr.1', 'x.de.fr.5', 'plain.7']
    for p in pages:
        files['man/' + p] = '.TH X\n'
    mb.append("install_man(%s)" % ', '.join("'man/%s'" % p for p in ['foo.1', 'plain.7']))
    mb.append("install_man(%s, locale: 'fr')" % ', '.join("'man/%s'" % p for p in ['foo.fr.1', 'bar.fr.3', 'my.frobnicator.fr.1', 'fr.fr.1', 'x.de.fr.5']))
    files['man/nl/only.1'] = '.TH X\n'
    files['man/nl/only.de.1'] = '.TH X\n'
    mb.append("install_man('man/nl/only.1', locale: 'de')")
    mb.append("install_man('man/nl/only.de.1', locale: 'de', install_dir: 'share/altman')")
    for k, (srcs, kw) in enumerate([
            (['d/a.txt'], "rename: 'A.TXT'"),
            (['d/b.txt', 'd/c.txt'], "rename: ['sub/B.txt', 'C']"),
            (['d/deep/e.txt', 'd/f.txt'], "preserve_path: true"),
            (['d/deep/g.txt'], "preserve_path: false"),
            (['d/h.txt'], "install_dir: 'share/inp/h', rename: 'h.renamed'")]):
        for s in srcs:
            files[s] = 'x\n'
        mb.append("install_data(%s, %s%s)" % (', '.join("'%s'" % s for s in srcs), kw, '' if 'install_dir' in kw else ", install_dir: 'share/inp/data%d'" % k))
    for k, (srcs, kw) in enumerate([(['h/a.h'], "subdir: 'inp'"), (['h/deep/b.h', 'h/c.h'], "subdir: 'inp2', preserve_path: true"),
                                    (['h/deep/d.h'], "preserve_path: false")]):
        for s in srcs:
            files[s] = '/* h */\n'
        mb.append("install_headers(%s, %s)" % (', '.join("'%s'" % s for s in srcs), kw))
    for k, kw in enumerate(["strip_directory: true", "strip_directory: false", "strip_directory: true, exclude_files: ['skip.txt']"]):
        files['tree%d/inner/leaf.txt' % k] = 'leaf\n'
        files['tree%d/skip.txt' % k] = 's\n'
        mb.append("install_subdir('tree%d', install_dir: 'share/inp/sd%d', %s)" % (k, k, kw))
    files['outer/tree9/leaf.txt'] = 'leaf\n'
    mb.append("install_subdir('outer/tree9', install_dir: 'share/inp/sd9')")
    mb.append("executable('e_suffix', 'main.c', install: true, name_suffix: 'bin')")
    mb.append("executable('e_prefix', 'main.c', install: true, name_prefix: 'pre-')")
    mb.append("shared_library('sv', 'lib.c', install: true, version: '1.2.3', soversion: '1')")
    mb.append("shared_library('so', 'lib.c', install: true, soversion: '4')")
    mb.append("shared_library('np', 'lib.c', install: true, name_prefix: '', name_suffix: 'plugin')")
    mb.append("both_libraries('bl', 'lib.c', install: true)")
    mb.append("static_library('sl', 'lib.c', install: true, name_prefix: 'x', name_suffix: 'lib')")
    mb.append("shared_module('mod', 'lib.c', install: true, install_dir: 'lib/inp-mods')")
    mb.append("custom_target('multi', input: 'in.txt', output: ['m1.txt', 'm2.txt', 'm3.txt'], command: ['sh', '-c', 'for f in \"$@\"; do cp in.txt \"$f\" 2>/dev/null || echo x > \"$f\"; done', 'sh', '@OUTPUT@'], "
              "build_by_default: true, install: true, install_dir: ['share/inp/m1', false, 'share/inp/m3'])")
    mb.append("configure_file(input: 'in.txt', output: 'conf.out', copy: true, install: true, install_dir: 'share/inp/conf')")
    mb.append("install_symlink('ln.fr.1', pointing_to: 'foo.1', install_dir: 'share/inp/links')")
    mb.append("install_emptydir('share/inp/empty.fr')")
    files['meson.build'] = '\n'.join(mb) + '\n'
    return files
