/* fsfault: LD_PRELOAD shim that counts, logs and optionally kills a process immediately BEFORE its k-th
 * file-system mutation below a path prefix.  Dormant until verif_arm() is called (through ctypes) in the
 * process of interest; exec'd children start dormant again.
 *
 *   void verif_arm(const char *prefix, int kill_at, const char *logpath, int tear)
 *     kill_at <= 0 : count/log only;  kill_at = k : _exit(137) right before mutation number k (1-based)
 *     tear != 0 and mutation k is a write(): write the first half of the buffer, then _exit(137)
 *
 * Mutations: open/creat with O_CREAT|O_TRUNC|write access, write/pwrite/writev, rename*, unlink*, rmdir, mkdir*,
 * symlink*, link*, truncate/ftruncate, fsync/fdatasync, sendfile/copy_file_range (destination), chmod/fchmod,
 * utimensat/futimens.  fd-based calls are attributed through /proc/self/fd.
 */
#define _GNU_SOURCE
#include <dlfcn.h>
#include <errno.h>
#include <fcntl.h>
#include <limits.h>
#include <stdarg.h>
#include <stdio.h>
#include <stdlib.h>
#include <string.h>
#include <sys/sendfile.h>
#include <sys/stat.h>
#include <sys/types.h>
#include <sys/uio.h>
#include <unistd.h>

static int armed = 0, kill_at = 0, counter = 0, logfd = -1, tear = 0, busy = 0;
static char prefix[PATH_MAX];
static size_t prefix_len = 0;

#define REAL(name) static __typeof__(name) *real_##name; if (!real_##name) real_##name = dlsym(RTLD_NEXT, #name)

void verif_arm(const char *pfx, int k, const char *logpath, int t) {
    strncpy(prefix, pfx, sizeof(prefix) - 1);
    prefix_len = strlen(prefix);
    kill_at = k;
    tear = t;
    counter = 0;
    if (logpath && *logpath) {
        REAL(open);
        logfd = real_open(logpath, O_WRONLY | O_CREAT | O_TRUNC | O_CLOEXEC, 0644);
    }
    armed = 1;
}

int verif_count(void) { return counter; }

static int under(const char *path, int dirfd) {
    char buf[PATH_MAX], link[64];
    if (!path) return 0;
    if (path[0] != '/') {
        if (dirfd == AT_FDCWD) {
            if (!getcwd(buf, sizeof(buf))) return 0;
        } else {
            snprintf(link, sizeof(link), "/proc/self/fd/%d", dirfd);
            ssize_t n = readlink(link, buf, sizeof(buf) - 1);
            if (n < 0) return 0;
            buf[n] = 0;
        }
        size_t l = strlen(buf);
        snprintf(buf + l, sizeof(buf) - l, "/%s", path);
        path = buf;
    }
    return strncmp(path, prefix, prefix_len) == 0 && (path[prefix_len] == '/' || path[prefix_len] == 0);
}

static int fd_under(int fd, char *out, size_t outlen) {
    char link[64];
    snprintf(link, sizeof(link), "/proc/self/fd/%d", fd);
    ssize_t n = readlink(link, out, outlen - 1);
    if (n < 0) return 0;
    out[n] = 0;
    return strncmp(out, prefix, prefix_len) == 0 && (out[prefix_len] == '/' || out[prefix_len] == 0);
}

/* returns 1 if this mutation is the one to be torn (caller handles), otherwise 0; may not return at all */
static int point(const char *op, const char *path, long size) {
    if (!armed || busy) return 0;
    busy = 1;
    counter++;
    if (logfd >= 0) {
        char line[PATH_MAX + 64];
        int n = snprintf(line, sizeof(line), "%d %s %ld %s\n", counter, op, size, path ? path : "?");
        REAL(write);
        real_write(logfd, line, n);
    }
    if (kill_at > 0 && counter == kill_at) {
        if (tear && strcmp(op, "write") == 0 && size > 1) { busy = 0; return 1; }
        _exit(137);
    }
    busy = 0;
    return 0;
}

static int is_mutating_open(int flags) {
    return (flags & (O_CREAT | O_TRUNC)) != 0;
}

#define OPEN_BODY(fn, dirfd_expr, call)                                           \
    mode_t mode = 0;                                                               \
    if (flags & (O_CREAT | O_TMPFILE)) { va_list ap; va_start(ap, flags); mode = va_arg(ap, mode_t); va_end(ap); } \
    if (armed && !busy && is_mutating_open(flags) && under(path, dirfd_expr)) {     \
        struct stat st; int exists = 0;                                              \
        busy = 1; exists = (fstatat(dirfd_expr, path, &st, 0) == 0); busy = 0;       \
        if (!exists || (flags & O_TRUNC)) point(exists ? "open-trunc" : "open-create", path, 0); \
    }                                                                              \
    return call;

int open(const char *path, int flags, ...) { REAL(open); OPEN_BODY(open, AT_FDCWD, real_open(path, flags, mode)) }
int open64(const char *path, int flags, ...) { REAL(open64); OPEN_BODY(open64, AT_FDCWD, real_open64(path, flags, mode)) }
int openat(int dfd, const char *path, int flags, ...) { REAL(openat); OPEN_BODY(openat, dfd, real_openat(dfd, path, flags, mode)) }
int openat64(int dfd, const char *path, int flags, ...) { REAL(openat64); OPEN_BODY(openat64, dfd, real_openat64(dfd, path, flags, mode)) }

int creat(const char *path, mode_t mode) {
    REAL(creat);
    if (armed && !busy && under(path, AT_FDCWD)) point("creat", path, 0);
    return real_creat(path, mode);
}

ssize_t write(int fd, const void *buf, size_t n) {
    REAL(write);
    char p[PATH_MAX];
    if (armed && !busy && n > 0 && fd_under(fd, p, sizeof(p))) {
        if (point("write", p, (long)n)) { real_write(fd, buf, n / 2); _exit(137); }
    }
    return real_write(fd, buf, n);
}

ssize_t pwrite(int fd, const void *buf, size_t n, off_t off) {
    REAL(pwrite);
    char p[PATH_MAX];
    if (armed && !busy && n > 0 && fd_under(fd, p, sizeof(p))) point("pwrite", p, (long)n);
    return real_pwrite(fd, buf, n, off);
}

ssize_t writev(int fd, const struct iovec *iov, int cnt) {
    REAL(writev);
    char p[PATH_MAX];
    if (armed && !busy && fd_under(fd, p, sizeof(p))) point("writev", p, cnt);
    return real_writev(fd, iov, cnt);
}

int rename(const char *a, const char *b) {
    REAL(rename);
    if (armed && !busy && (under(a, AT_FDCWD) || under(b, AT_FDCWD))) point("rename", b, 0);
    return real_rename(a, b);
}

int renameat(int da, const char *a, int db, const char *b) {
    REAL(renameat);
    if (armed && !busy && (under(a, da) || under(b, db))) point("rename", b, 0);
    return real_renameat(da, a, db, b);
}

int renameat2(int da, const char *a, int db, const char *b, unsigned int fl) {
    REAL(renameat2);
    if (armed && !busy && (under(a, da) || under(b, db))) point("rename", b, 0);
    return real_renameat2(da, a, db, b, fl);
}

int unlink(const char *p) {
    REAL(unlink);
    if (armed && !busy && under(p, AT_FDCWD)) point("unlink", p, 0);
    return real_unlink(p);
}

int unlinkat(int d, const char *p, int fl) {
    REAL(unlinkat);
    if (armed && !busy && under(p, d)) point(fl & AT_REMOVEDIR ? "rmdir" : "unlink", p, 0);
    return real_unlinkat(d, p, fl);
}

int rmdir(const char *p) {
    REAL(rmdir);
    if (armed && !busy && under(p, AT_FDCWD)) point("rmdir", p, 0);
    return real_rmdir(p);
}

int mkdir(const char *p, mode_t m) {
    REAL(mkdir);
    if (armed && !busy && under(p, AT_FDCWD)) {
        struct stat st; int exists; busy = 1; exists = (stat(p, &st) == 0); busy = 0;
        if (!exists) point("mkdir", p, 0);
    }
    return real_mkdir(p, m);
}

int mkdirat(int d, const char *p, mode_t m) {
    REAL(mkdirat);
    if (armed && !busy && under(p, d)) point("mkdir", p, 0);
    return real_mkdirat(d, p, m);
}

int symlink(const char *t, const char *p) {
    REAL(symlink);
    if (armed && !busy && under(p, AT_FDCWD)) point("symlink", p, 0);
    return real_symlink(t, p);
}

int symlinkat(const char *t, int d, const char *p) {
    REAL(symlinkat);
    if (armed && !busy && under(p, d)) point("symlink", p, 0);
    return real_symlinkat(t, d, p);
}

int link(const char *a, const char *b) {
    REAL(link);
    if (armed && !busy && under(b, AT_FDCWD)) point("link", b, 0);
    return real_link(a, b);
}

int truncate(const char *p, off_t l) {
    REAL(truncate);
    if (armed && !busy && under(p, AT_FDCWD)) point("truncate", p, (long)l);
    return real_truncate(p, l);
}

int ftruncate(int fd, off_t l) {
    REAL(ftruncate);
    char p[PATH_MAX];
    if (armed && !busy && fd_under(fd, p, sizeof(p))) point("ftruncate", p, (long)l);
    return real_ftruncate(fd, l);
}

int fsync(int fd) {
    REAL(fsync);
    char p[PATH_MAX];
    if (armed && !busy && fd_under(fd, p, sizeof(p))) point("fsync", p, 0);
    return real_fsync(fd);
}

int fdatasync(int fd) {
    REAL(fdatasync);
    char p[PATH_MAX];
    if (armed && !busy && fd_under(fd, p, sizeof(p))) point("fdatasync", p, 0);
    return real_fdatasync(fd);
}

ssize_t sendfile(int out, int in, off_t *off, size_t n) {
    REAL(sendfile);
    char p[PATH_MAX];
    if (armed && !busy && fd_under(out, p, sizeof(p))) point("sendfile", p, (long)n);
    return real_sendfile(out, in, off, n);
}

ssize_t copy_file_range(int in, off64_t *oi, int out, off64_t *oo, size_t n, unsigned int fl) {
    REAL(copy_file_range);
    char p[PATH_MAX];
    if (armed && !busy && fd_under(out, p, sizeof(p))) point("copy_file_range", p, (long)n);
    return real_copy_file_range(in, oi, out, oo, n, fl);
}

int chmod(const char *p, mode_t m) {
    REAL(chmod);
    if (armed && !busy && under(p, AT_FDCWD)) point("chmod", p, 0);
    return real_chmod(p, m);
}

int fchmod(int fd, mode_t m) {
    REAL(fchmod);
    char p[PATH_MAX];
    if (armed && !busy && fd_under(fd, p, sizeof(p))) point("fchmod", p, 0);
    return real_fchmod(fd, m);
}
