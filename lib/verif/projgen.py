# E9: bounded generator of C projects (target graphs) for C04 / C05 / C06 / C15.
#
# A project is a sequence of nodes; node i may use any earlier node j through a relation that is admissible
# for (kind_i, kind_j).  enumerate_specs(k) yields every such project with at most k nodes (each shape once:
# nodes are kept in a canonical kind order and unused-prefix duplicates are removed).  render(spec, ...) turns a
# spec into a file tree whose C sources really need what the relations provide (a header that is not there yet
# makes the compile fail, a missing object makes the link fail), so that a missing dependency edge is observable.
from __future__ import annotations
import itertools
import typing as T

# kinds --------------------------------------------------------------------------------------------------------
#  H  custom_target producing a header            (cp h.h.in -> h.h)
#  S  custom_target producing a C source (+header when variant 'two')
#  G  generator() + process() producing a C source
#  C  configure_file() producing a header at configure time
#  K  custom_target copying the output of an earlier H/S/K (custom-target chain); variant 'depends' reads the file
#     behind meson's back and declares the producer with depends:
#  L  library (variant: static | shared | both)
#  E  executable
#  X  custom_target that runs an earlier executable (capture: true)
KINDS = ['H', 'S', 'G', 'C', 'K', 'L', 'E', 'X']

# relation types: (consumer kind, producer kind) -> list of relation names
RELS: T.Dict[T.Tuple[str, str], T.List[str]] = {
    ('L', 'H'): ['src', 'dep'], ('E', 'H'): ['src', 'dep'],      # header listed in sources | via declare_dependency(sources:)
    ('L', 'S'): ['src'], ('E', 'S'): ['src'],
    ('L', 'G'): ['src'], ('E', 'G'): ['src'],
    ('L', 'C'): ['inc'], ('E', 'C'): ['inc'],
    ('L', 'K'): ['src'], ('E', 'K'): ['src'],                    # K of a header: used like H/src
    ('L', 'L'): ['link_with', 'link_whole'], ('E', 'L'): ['link_with', 'dep_link'],
    # depends: the whole producer target | dependsidx: depends: producer[0] (an indexed custom-target output)
    ('K', 'H'): ['input', 'depends', 'dependsidx'], ('K', 'S'): ['input'], ('K', 'K'): ['input', 'depends', 'dependsidx'],
    ('X', 'E'): ['run'],
    ('K', 'X'): ['input'],
    ('K', 'G'): ['input'],                                       # custom_target(input: <generated list>): the list's rules are emitted for it again
}

VARIANTS = {'S': ['one', 'two'], 'L': ['static', 'shared', 'both'], 'H': ['plain'], 'G': ['plain'], 'C': ['plain'],
            'K': ['plain'], 'E': ['plain'], 'X': ['plain']}


class Node(T.NamedTuple):
    kind: str
    variant: str
    uses: T.Tuple[T.Tuple[int, str], ...]     # (producer index, relation)


Spec = T.Tuple[Node, ...]


def _header_like(spec: Spec, j: int) -> bool:
    """K is header-like iff its chain starts at an H."""
    n = spec[j]
    if n.kind == 'H':
        return True
    if n.kind == 'K':
        return any(_header_like(spec, p) for p, r in n.uses)
    return False


def _admissible(spec: Spec, kind: str, j: int, rel: str) -> bool:
    pk = spec[j].kind
    if (kind, pk) not in RELS or rel not in RELS[(kind, pk)]:
        return False
    if kind in 'LE' and pk == 'K':
        return _header_like(spec, j)
    if kind == 'K' and pk == 'S' and spec[j].variant == 'two':
        return False
    if kind == 'K' and pk == 'G' and spec[j].variant != 'plain':
        return False
    if rel == 'link_whole' and spec[j].variant != 'static':
        return False
    if rel == 'src' and pk in 'SG' and any(p == j and r == 'src' for n in spec for p, r in n.uses):
        return False      # a generated C source is compiled into one target only (else duplicate symbols when linked together)
    return True


def _whole_closure(spec: Spec, j: int) -> T.Set[int]:
    """Libraries whose objects are inside library j because of link_whole (transitively), j included."""
    out = {j}
    for p, r in spec[j].uses:
        if r == 'link_whole':
            out |= _whole_closure(spec, p)
    return out


def _double_whole(spec: Spec, uses: T.Sequence[T.Tuple[int, str]]) -> bool:
    """link_whole of two libraries that contain the same objects defines every symbol twice: a mistake of the project,
    not a build-graph matter."""
    seen: T.Set[int] = set()
    for p, r in uses:
        if r == 'link_whole':
            c = _whole_closure(spec, p)
            if c & seen:
                return True
            seen |= c
    return False


def enumerate_specs(k: int, kinds: T.Sequence[str] = KINDS, max_uses: int = 2,
                    lib_variants: T.Sequence[str] = ('static', 'shared', 'both')) -> T.Iterator[Spec]:
    """All projects with 1..k nodes.  Every node except the last must be used by a later node (otherwise the project
    is a smaller project plus an unrelated target, which the smaller bound already covers) -- except that a project
    may end in several sinks only when k allows no consumer; K and X need a producer."""
    seen = set()

    def extend(spec: Spec, remaining: int) -> T.Iterator[Spec]:
        if spec:
            used = {p for n in spec for p, _ in n.uses}
            if all(i in used for i in range(len(spec) - 1)):
                key = canon(spec)
                if key not in seen:
                    seen.add(key)
                    yield spec
        if remaining == 0:
            return
        i = len(spec)
        for kind in kinds:
            variants = list(VARIANTS[kind]) if kind != 'L' else list(lib_variants)
            for var in variants:
                cands = [(j, r) for j in range(i) for r in RELS.get((kind, spec[j].kind), []) if _admissible(spec, kind, j, r)]
                if kind in 'KX' and not cands:
                    continue
                subsets: T.List[T.Tuple[T.Tuple[int, str], ...]] = []
                if kind not in 'KX':
                    subsets.append(())
                for m in range(1, max_uses + 1):
                    for comb in itertools.combinations(cands, m):
                        if len({j for j, _ in comb}) != len(comb):
                            continue     # one relation per producer
                        if kind in 'KX' and m != 1:
                            continue
                        subsets.append(comb)
                for uses in subsets:
                    if _double_whole(spec, uses):
                        continue
                    yield from extend(spec + (Node(kind, var, uses),), remaining - 1)
    yield from extend((), k)


def chain_specs() -> T.List[Spec]:
    """4- and 5-node link chains (beyond the exhaustive 3-node bound): a library with a generator()-made header among its
    sources, one or two libraries linking to it in a row, and a consumer at the end; every source along the chain includes
    that header (through the owner's private directory)."""
    out: T.List[Spec] = []
    for v1 in ('static', 'shared'):
        for v2 in ('static', 'shared'):
            for r12 in ('link_with', 'link_whole'):
                for cons in (('E', 'plain', 'link_with'), ('E', 'plain', 'dep_link'), ('L', 'shared', 'link_with'), ('L', 'static', 'link_whole'), ('L', 'static', 'link_with')):
                    for depth in (1, 2, 3):
                        spec: T.List[Node] = [Node('G', 'hdr', ()), Node('L', v1, ((0, 'src'),))]
                        ok = True
                        for lvl in range(depth - 1):
                            prev = len(spec) - 1
                            if not _admissible(tuple(spec), 'L', prev, r12):
                                ok = False
                                break
                            spec.append(Node('L', v2, ((prev, r12),)))
                        prev = len(spec) - 1
                        if not ok or not _admissible(tuple(spec), cons[0], prev, cons[2]):
                            continue
                        spec.append(Node(cons[0], cons[1], ((prev, cons[2]),)))
                        t = tuple(spec)
                        if t not in out:
                            out.append(t)
    return out


def gendep_specs() -> T.List[Spec]:
    """Generators with depends: on a custom target (directly or through a custom-target chain), three inputs in one process()
    call, consumed by an executable or a library."""
    out: T.List[Spec] = []
    for chain in (False, True):
        for cons in (('E', 'plain'), ('L', 'static'), ('L', 'shared')):
            spec: T.List[Node] = [Node('H', 'plain', ())]
            if chain:
                spec.append(Node('K', 'plain', ((0, 'input'),)))
            h = len(spec) - 1
            spec.append(Node('G', 'deps', ((h, 'gdepends'),)))
            spec.append(Node(cons[0], cons[1], ((len(spec) - 1, 'src'),)))
            out.append(tuple(spec))
    # inputs in nested directories with preserve_path_from: (the outputs keep their path below that directory), consumed by build targets
    for cons in (('E', 'plain'), ('L', 'static'), ('L', 'shared')):
        out.append((Node('G', 'pp', ()), Node(cons[0], cons[1], ((0, 'src'),))))
    out.append((Node('G', 'pp', ()), Node('L', 'static', ((0, 'src'),)), Node('E', 'plain', ((1, 'link_with'),))))
    # the build-time product is an executable of this build: named directly, or as what find_program() returns for an overridden name
    for rel in ('gdepends', 'gdepends_prog'):
        for cons in (('E', 'plain'), ('L', 'static')):
            out.append((Node('E', 'plain', ()), Node('G', 'deps', ((0, rel),)), Node(cons[0], cons[1], ((1, 'src'),))))
    return out


def allgen_specs() -> T.List[Spec]:
    """Shapes to be rendered with '+own_ct' / '+own_gen': targets ALL of whose sources are generated - alone, with a generated
    header as source or through declare_dependency(sources:), with a precompiled header, linking a library of the same kind."""
    out: T.List[Spec] = []
    for cons in (('E', 'plain'), ('L', 'static'), ('L', 'shared')):
        out.append((Node(cons[0], cons[1], ()),))
        for rel in ('src', 'dep', 'src_pch', 'dep_pch'):
            out.append((Node('H', 'plain', ()), Node(cons[0], cons[1], ((0, rel),))))
        out.append((Node('G', 'hdr', ()), Node(cons[0], cons[1], ((0, 'src_pch'),))))
        out.append((Node('S', 'plain', ()), Node(cons[0], cons[1], ((0, 'src'),))))
    out.append((Node('L', 'static', ()), Node('E', 'plain', ((0, 'link_with'),))))
    out.append((Node('H', 'plain', ()), Node('L', 'shared', ((0, 'src_pch'),)), Node('E', 'plain', ((1, 'link_with'), (0, 'dep_pch')))))
    return out


def partialdep_specs() -> T.List[Spec]:
    """A generated header handed on with declare_dependency(sources:), where the consumer lists a partial_dependency() of that
    dependency before the dependency itself."""
    out: T.List[Spec] = []
    for rel in ('dep_partial', 'dep_partial_nested'):
        for cons in (('E', 'plain'), ('L', 'static'), ('L', 'shared')):
            for chain in (False, True):
                spec: T.List[Node] = [Node('H', 'plain', ())]
                if chain:
                    spec.append(Node('K', 'plain', ((0, 'input'),)))
                spec.append(Node(cons[0], cons[1], ((len(spec) - 1, rel),)))
                out.append(tuple(spec))
    return out


def pch_specs() -> T.List[Spec]:
    """A precompiled header (c_pch:) that includes a build-time generated header: the header reaches the target as a source
    (custom_target, custom-target chain, generator()) or through declare_dependency(sources:); the C file itself includes
    nothing, so only the PCH step needs the generated header."""
    out: T.List[Spec] = []
    for prod in ('H', 'HK', 'Ghdr'):
        for rel in (('src_pch', 'dep_pch') if prod != 'Ghdr' else ('src_pch',)):
            for cons in (('E', 'plain'), ('L', 'static'), ('L', 'shared')):
                spec: T.List[Node] = [Node('G', 'hdr', ())] if prod == 'Ghdr' else [Node('H', 'plain', ())]
                if prod == 'HK':
                    spec.append(Node('K', 'plain', ((0, 'input'),)))
                spec.append(Node(cons[0], cons[1], ((len(spec) - 1, rel),)))
                out.append(tuple(spec))
    return out


def genct_specs() -> T.List[Spec]:
    """One generated list consumed by a custom target (input:) and by something else, in both orders: the rules of the list are
    emitted once per consumer, so the order of the consumers must not matter."""
    g = Node('G', 'plain', ())
    k = Node('K', 'plain', ((0, 'input'),))
    out: T.List[Spec] = []
    for other in (Node('E', 'plain', ((0, 'src'),)), Node('L', 'static', ((0, 'src'),)), Node('L', 'shared', ((0, 'src'),)), k):
        out.append((g, other, k))
        if other is not k:
            out.append((g, k, other))
    out.append((g, Node('E', 'plain', ((0, 'src'),)), k, k))
    return out


def placement_ok(spec: Spec, placement: str) -> bool:
    """'sub' puts H/S/G/C/K into sub/ which is entered before the root targets: not possible when one of them
    consumes a root target (K <- X)."""
    placement = placement.partition('+')[0]
    if placement != 'sub':
        return True
    return not any(n.kind == 'K' and spec[p].kind == 'X' for n in spec for p, _ in n.uses)


def canon(spec: Spec) -> T.Tuple:
    """Shape key: nodes with producers referred to by index (the generation order is already canonical enough: two
    specs that differ only by a permutation of independent nodes are both generated; we merge them by sorting the
    multiset of (kind, variant, sorted uses-as-kinds) descriptions when no node is used twice)."""
    return tuple((n.kind, n.variant, tuple(sorted(n.uses))) for n in spec)


# rendering ----------------------------------------------------------------------------------------------------
class Rendered(T.NamedTuple):
    files: T.Dict[str, str]
    names: T.List[str]            # meson target / variable stem per node
    desc: str


def describe(spec: Spec) -> str:
    return ' ; '.join('%d:%s/%s%s' % (i, n.kind, n.variant, ''.join(' <-%s- %d' % (r, p) for p, r in n.uses)) for i, n in enumerate(spec))


def render(spec: Spec, placement: str = 'root', odd_names: bool = False, with_tests: bool = True,
           install: bool = False, project_name: str = 'gp') -> Rendered:
    """placement: 'root' (everything in the top meson.build) | 'sub' (producers that are not L/E/X live in sub/,
    consumers in the root) | 'allsub' (everything in sub/).  A suffix '+own_ct' / '+own_gen' makes the own C file of every library
    and executable a generated one (custom target / generator() output), so that such a target has no source in the source tree."""
    placement, _, own_src = placement.partition('+')
    files: T.Dict[str, str] = {}
    root: T.List[str] = ["project('%s', 'c', default_options: ['warning_level=0'])" % project_name, "cp = find_program('cp')", "sh = find_program('sh')"]
    sub: T.List[str] = []
    names: T.List[str] = []
    gen_declared = {'root': False, 'sub': False}

    def nm(i: int, n: Node) -> str:
        base = {'H': 'h', 'S': 's', 'G': 'g', 'C': 'c', 'K': 'k', 'L': 'l', 'E': 'e', 'X': 'x'}[n.kind] + str(i)
        return base

    def tname(i: int, n: Node) -> str:
        # odd target names only for link/exe targets: their file names then contain a space and a '+'
        if odd_names and n.kind in 'LE':
            # (odd_names == 'colon': a character Ninja needs escaped in every position of a build statement)
            return nm(i, n) + (' o:d' if odd_names == 'colon' else ' o+d')
        return nm(i, n)

    def where(i: int, n: Node) -> str:
        if placement == 'root':
            return 'root'
        if placement == 'allsub':
            return 'sub'
        return 'sub' if n.kind in 'HSGCK' else 'root'

    def pfx(loc: str) -> str:
        return 'sub/' if loc == 'sub' else ''

    # what a C consumer needs from each producer
    def is_ghdr(j: int) -> bool:
        return spec[j].kind == 'G' and spec[j].variant == 'hdr'

    def c_include(j: int) -> T.Optional[str]:
        n = spec[j]
        loc = where(j, n)
        if is_ghdr(j):
            return nm(j, n) + '.h'        # lands in the private directory of the target that lists it (on that target's include path)
        if n.kind == 'H':
            return pfx(loc) + nm(j, n) + '.h'
        if n.kind == 'C':
            return pfx(loc) + nm(j, n) + '.h'
        if n.kind == 'K':
            return pfx(loc) + nm(j, n) + '.h'
        if n.kind == 'S' and n.variant == 'two':
            return pfx(loc) + nm(j, n) + '.h'
        return None

    def c_term(j: int) -> str:
        n = spec[j]
        if n.kind in 'HCK' or is_ghdr(j):
            return 'V_%s' % origin_macro(j)
        return 'f%s()' % nm(j, n)

    def origin_macro(j: int) -> str:
        n = spec[j]
        if n.kind == 'K':
            return origin_macro(n.uses[0][0])
        return nm(j, n).upper()

    def c_decl(j: int) -> str:
        n = spec[j]
        if n.kind in 'SGL' and not (n.kind == 'S' and n.variant == 'two') and not is_ghdr(j):
            return 'int f%s(void);\n' % nm(j, n)
        return ''

    def value(j: int) -> int:
        n = spec[j]
        if n.kind in 'HC' or is_ghdr(j):
            return 100 + j
        if n.kind == 'K':
            return value(n.uses[0][0])
        if n.kind in 'SG':
            return 200 + j
        if n.kind in 'LE':
            return 300 + j + sum(value(p) for p, r in n.uses)
        return 0

    def linked_headers(j: int, seen: T.Optional[T.Set[int]] = None) -> T.Set[T.Tuple[int, int]]:
        """(generator-made header, owning library) pairs among the sources of the libraries node j links to, transitively.
        Only generator() outputs: for those the backend makes every (transitive) user of the library wait; a custom_target
        header must be handed on with declare_dependency(sources:) instead (Generating-sources.md)."""
        outp: T.Set[T.Tuple[int, int]] = set()
        seen = seen if seen is not None else set()
        for p, r in spec[j].uses:
            if spec[p].kind == 'L' and r in ('link_with', 'link_whole', 'dep_link') and p not in seen:
                seen.add(p)
                for q, rq in spec[p].uses:
                    if rq == 'src' and is_ghdr(q):
                        outp.add((q, p))
                outp |= linked_headers(p, seen)
        return outp

    def private_dir(j: int) -> str:
        n = spec[j]
        assert n.kind == 'L' and n.variant in ('static', 'shared')
        return 'lib%s.%s.p' % (tname(j, n), 'a' if n.variant == 'static' else 'so')

    def gen_src_prelude(j: int) -> str:
        """A generated C source is compiled as part of its (single) consumer: it includes the generated headers that
        consumer uses, so the compile step of the *generated* source needs them too."""
        cons = [i for i, n in enumerate(spec) if n.kind in 'LE' and any(p == j and r == 'src' for p, r in n.uses)]
        if not cons:
            return ''
        i = cons[0]
        cloc = where(i, spec[i])
        lines, terms = [], []
        for p, r in spec[i].uses:
            if p == j or spec[p].kind == 'L':
                continue
            inc = c_include(p)
            if inc is None or spec[p].kind == 'S':
                continue
            if cloc == 'sub' and inc.startswith('sub/'):
                inc = inc[4:]
            lines.append('#include "%s"\n' % inc)
            terms.append('V_%s' % origin_macro(p))
        return ''.join(lines) + ('enum { prelude_%d = %s };\n' % (j, ' + '.join(terms)) if terms else '')

    for i, n in enumerate(spec):
        me = nm(i, n)
        names.append(me)
        loc = where(i, n)
        out = sub if loc == 'sub' else root
        d = pfx(loc)

        def ref(j: int) -> str:
            return nm(j, spec[j])
        if n.kind == 'H':
            files[d + me + '.h.in'] = '#define V_%s %d\n' % (me.upper(), value(i))
            out.append("%s = custom_target('%s', input: '%s.h.in', output: '%s.h', command: [cp, '@INPUT@', '@OUTPUT@'])" % (me, me, me, me))
        elif n.kind == 'C':
            files[d + me + '.h.in'] = '#define V_%s @V@\n' % me.upper()
            out.append("%s = configure_file(input: '%s.h.in', output: '%s.h', configuration: {'V': %d})" % (me, me, me, value(i)))
        elif n.kind == 'S':
            files[d + me + '.c.in'] = gen_src_prelude(i) + 'int f%s(void) { return %d; }\n' % (me, value(i))
            if n.variant == 'two':
                files[d + me + '.h.in'] = 'int f%s(void);\n' % me
                out.append("%s = custom_target('%s', input: ['%s.c.in', '%s.h.in'], output: ['%s.c', '%s.h'], "
                           "command: [sh, '-c', 'cp \"$0\" \"$2\" && cp \"$1\" \"$3\"', '@INPUT0@', '@INPUT1@', '@OUTPUT0@', '@OUTPUT1@'])" % (me, me, me, me, me, me))
            else:
                out.append("%s = custom_target('%s', input: '%s.c.in', output: '%s.c', command: [cp, '@INPUT@', '@OUTPUT@'])" % (me, me, me, me))
        elif n.kind == 'G' and n.variant == 'hdr':
            files[d + me + '.h.in'] = '#define V_%s %d\n' % (me.upper(), value(i))
            if not gen_declared.get(loc + ':hdr'):
                out.append("genhdr_%s = generator(cp, output: '@BASENAME@', arguments: ['@INPUT@', '@OUTPUT@'])" % loc)
                gen_declared[loc + ':hdr'] = True
            out.append("%s = genhdr_%s.process('%s.h.in')" % (me, loc, me))
        elif n.kind == 'G' and n.variant == 'deps':
            # a generator that needs a build-time product (depends:) and processes several inputs in ONE process() call
            (p, rel), = n.uses
            files[d + me + '.in'] = gen_src_prelude(i) + 'int f%s(void) { return %d; }\n' % (me, value(i))
            files[d + me + '_b.in'] = 'int f%s_b(void) { return 1; }\n' % me
            files[d + me + '_c.in'] = 'int f%s_c(void) { return 2; }\n' % me
            dep = ref(p)
            if rel == 'gdepends_prog':
                # the product is an executable of this build that find_program() hands out (meson.override_find_program)
                out.append("meson.override_find_program('tool_%s', %s)" % (me, ref(p)))
                out.append("prog_%s = find_program('tool_%s')" % (me, me))
                dep = 'prog_%s' % me
            out.append("gend_%s = generator(sh, output: '@BASENAME@.c', arguments: ['-c', 'cat \"$2\" > /dev/null && cp \"$0\" \"$1\"', "
                       "'@INPUT@', '@OUTPUT@', %s.full_path()], depends: %s)" % (me, dep, dep))
            out.append("%s = gend_%s.process('%s.in', '%s_b.in', '%s_c.in')" % (me, me, me, me, me))
        elif n.kind == 'G' and n.variant == 'pp':
            # inputs in nested directories, processed with preserve_path_from: the outputs keep the path below that directory
            files[d + 'pp/' + me + '/' + me + '.in'] = gen_src_prelude(i) + 'int f%s(void) { return %d; }\n' % (me, value(i))
            files[d + 'pp/' + me + '/deep/' + me + '_b.in'] = 'int f%s_b(void) { return 1; }\n' % me
            files[d + me + '_c.in'] = 'int f%s_c(void) { return 2; }\n' % me
            if not gen_declared[loc]:
                out.append("gen_%s = generator(cp, output: '@BASENAME@.c', arguments: ['@INPUT@', '@OUTPUT@'])" % loc)
                gen_declared[loc] = True
            out.append("%s = gen_%s.process('pp/%s/%s.in', 'pp/%s/deep/%s_b.in', '%s_c.in', preserve_path_from: meson.current_source_dir())" % (me, loc, me, me, me, me, me))
        elif n.kind == 'G':
            files[d + me + '.in'] = gen_src_prelude(i) + 'int f%s(void) { return %d; }\n' % (me, value(i))
            if not gen_declared[loc]:
                out.append("gen_%s = generator(cp, output: '@BASENAME@.c', arguments: ['@INPUT@', '@OUTPUT@'])" % loc)
                gen_declared[loc] = True
            out.append("%s = gen_%s.process('%s.in')" % (me, loc, me))
        elif n.kind == 'K':
            (p, rel), = n.uses
            pn = spec[p]
            ext = 'h' if _header_like(spec, p) else ('c' if pn.kind == 'S' else 'txt')
            # a custom target nobody consumes is not part of `all` unless it says so (and would then never be built or explored)
            bbd = '' if any(q == i for n2 in spec for q, _r in n2.uses) else ', build_by_default: true'
            if rel == 'input':
                out.append("%s = custom_target('%s', input: %s, output: '%s.%s', command: [cp, '@INPUT@', '@OUTPUT@']%s)" % (me, me, ref(p), me, ext, bbd))
            else:
                # reads the producer's output without naming it as input: only `depends:` orders the two
                # (the path comes from meson: it depends on the layout option)
                out.append("%s = custom_target('%s', output: '%s.%s', command: [sh, '-c', 'cp \"$1\" \"$0\"', '@OUTPUT@', %s.full_path()], depends: %s, depend_files: files('%s.stamp')%s)"
                           % (me, me, me, ext, ref(p) + ('[0]' if rel == 'dependsidx' else ''), ref(p) + ('[0]' if rel == 'dependsidx' else ''), me, bbd))
                files[d + me + '.stamp'] = 'stamp\n'
        elif n.kind in 'LE':
            incs, decls, terms = [], [], []
            pch_incs: T.List[str] = []
            srcs = ["'%s.c'" % me]
            kw: T.Dict[str, T.List[str]] = {}
            for p, rel in n.uses:
                pn = spec[p]
                inc = c_include(p)
                if inc is not None and pn.kind != 'L':
                    # consumer C files are in root or sub; includes are relative to the build root / current build dir
                    if loc == 'sub' and inc.startswith('sub/'):
                        inc = inc[4:]
                    (pch_incs if rel.endswith('_pch') else incs).append('#include "%s"\n' % inc)
                decls.append(c_decl(p))
                terms.append(c_term(p))
                if rel in ('src', 'src_pch'):
                    srcs.append(ref(p))
                elif rel in ('dep', 'dep_pch'):
                    out.append("%s_dep%d = declare_dependency(sources: %s)" % (me, p, ref(p)))
                    kw.setdefault('dependencies', []).append('%s_dep%d' % (me, p))
                elif rel in ('dep_partial', 'dep_partial_nested'):
                    # the full dependency comes AFTER a partial view of itself (directly, or wrapped in another dependency)
                    out.append("%s_dep%d = declare_dependency(sources: %s, compile_args: ['-DHAVE_%s'])" % (me, p, ref(p), me.upper()))
                    out.append("%s_inc%d = %s_dep%d.partial_dependency(includes: true)" % (me, p, me, p))
                    first = '%s_inc%d' % (me, p)
                    if rel == 'dep_partial_nested':
                        out.append("%s_wrap%d = declare_dependency(dependencies: %s_inc%d)" % (me, p, me, p))
                        first = '%s_wrap%d' % (me, p)
                    kw.setdefault('dependencies', []).extend([first, '%s_dep%d' % (me, p)])
                elif rel == 'inc':
                    pass
                elif rel == 'link_with':
                    kw.setdefault('link_with', []).append(ref(p))
                elif rel == 'link_whole':
                    kw.setdefault('link_whole', []).append(ref(p))
                elif rel == 'dep_link':
                    out.append("%s_dep%d = declare_dependency(link_with: %s)" % (me, p, ref(p)))
                    kw.setdefault('dependencies', []).append('%s_dep%d' % (me, p))
            # a library's generated headers are its public interface: whoever links to it (at any distance) may include them
            lh_terms = []
            for h, owner in sorted(linked_headers(i)):
                # by its path below the build directory of this file (the owner sits in the same directory in every placement
                # the chain family uses)
                assert where(owner, spec[owner]) == loc
                incs.append('#include "%s/%s"\n' % (private_dir(owner), c_include(h)))
                lh_terms.append('V_%s' % origin_macro(h))
            body = ''.join(incs) + ''.join(decls)
            if lh_terms:
                body += 'enum { linked_headers_%d = %s };\n' % (i, ' + '.join(lh_terms))
            expr = ' + '.join(['%d' % (300 + i)] + terms)
            if n.kind == 'L':
                body += 'int f%s(void) { return %s; }\n' % (me, expr)
                fn = {'static': 'static_library', 'shared': 'shared_library', 'both': 'both_libraries'}[n.variant]
                if n.variant != 'static' and any(r == 'link_whole' for _, r in n.uses) and False:
                    pass
            else:
                body += 'int main(void) { return (%s) == %d ? 0 : 1; }\n' % (expr, value(i))
                fn = 'executable'
            if own_src:
                files[d + me + '.c.in'] = body
                if own_src == 'own_ct':
                    out.append("%s_own = custom_target('%s_own', input: '%s.c.in', output: '%s.c', command: [cp, '@INPUT@', '@OUTPUT@'])" % (me, me, me, me))
                else:
                    if not gen_declared.get(loc + ':own'):
                        out.append("genown_%s = generator(cp, output: '@BASENAME@', arguments: ['@INPUT@', '@OUTPUT@'])" % loc)
                        gen_declared[loc + ':own'] = True
                    out.append("%s_own = genown_%s.process('%s.c.in')" % (me, loc, me))
                srcs[0] = '%s_own' % me
            else:
                files[d + me + '.c'] = body
            kws = ''.join(', %s: [%s]' % (k, ', '.join(v)) for k, v in kw.items())
            if pch_incs:
                files[d + 'pch/' + me + '_pch.h'] = ''.join(pch_incs)
                kws += ", c_pch: 'pch/%s_pch.h'" % me
            if install:
                kws += ', install: true'
            if loc == 'root' and placement == 'sub':
                kws += ", include_directories: include_directories('.')"
            out.append("%s = %s('%s', %s%s)" % (me, fn, tname(i, n), ', '.join(srcs), kws))
            if n.kind == 'E' and with_tests:
                # the test also names (as argument / depends:) earlier targets that the executable itself does not use
                targs = [nm(j, spec[j]) for j in range(i) if spec[j].kind in 'HSK' and where(j, spec[j]) == loc or spec[j].kind in 'HSK' and loc == 'root'][:1]
                tdeps = [nm(j, spec[j]) for j in range(i) if spec[j].kind in 'LX'][:1]
                extra = ''
                if targs:
                    extra += ', args: [%s]' % ', '.join(targs)
                if tdeps:
                    extra += ', depends: [%s]' % ', '.join(tdeps)
                out.append("test('t_%s', %s%s)" % (me, me, extra))
        elif n.kind == 'X':
            (p, rel), = n.uses
            out.append("%s = custom_target('%s', output: '%s.txt', command: [%s], capture: true)" % (me, me, me, ref(p)))
    if sub:
        # sub/ holds producers: it must be entered before the root consumers that refer to its variables
        idx = 3
        root.insert(idx, "subdir('sub')")
        if placement == 'allsub':
            sub = ["cp = find_program('cp')", "sh = find_program('sh')"][0:0] + sub
        files['sub/meson.build'] = '\n'.join(sub) + '\n'
    files['meson.build'] = '\n'.join(root) + '\n'
    return Rendered(files, names, describe(spec))
