# C05 - the build graph is dependency-complete: any valid schedule builds the same thing.
# Model checking over the lattice of ideals of the edge partial order of real generated build.ninja files:
# a state is a downward-closed set S of executed edges, a transition runs one enabled edge for real (gcc, ar, cp,
# sh ...) in a build directory that holds exactly the configure-time files plus the outputs of S.  Every
# transition must exit 0 and reproduce the reference digests of its outputs.
import hashlib, itertools, json, os, shutil, sys, time
from verif.core import Check, pmap, run_main, scratch_root, NCPU
from verif import projgen as pg, refninja as rn

MAX_IDEALS = 400


def digest(path):
    try:
        with open(path, 'rb') as f:
            return hashlib.sha1(f.read()).hexdigest()
    except IsADirectoryError:
        return 'dir'
    except OSError:
        return None


def snapshot(d):
    """{relative path: bytes | ('link', target)} of every file below d"""
    out = {}
    for base, dirs, files in os.walk(d):
        for fn in files:
            p = os.path.join(base, fn)
            rel = os.path.relpath(p, d)
            if os.path.islink(p):
                out[rel] = ('link', os.readlink(p))
            else:
                with open(p, 'rb') as f:
                    out[rel] = (os.stat(p).st_mode & 0o777, f.read())
        for dn in dirs:
            p = os.path.join(base, dn)
            if not os.listdir(p):
                out[os.path.relpath(p, d) + '/'] = None
    return out


def restore(d, snap):
    shutil.rmtree(d, ignore_errors=True)
    os.makedirs(d)
    for rel, v in snap.items():
        p = os.path.join(d, rel)
        if rel.endswith('/'):
            os.makedirs(p, exist_ok=True)
            continue
        os.makedirs(os.path.dirname(p), exist_ok=True)
        if v[0] == 'link':
            os.symlink(v[1], p)
        else:
            with open(p, 'wb') as f:
                f.write(v[1])
            os.chmod(p, v[0])


def put_outputs(d, files):
    for rel, v in files.items():
        p = os.path.join(d, rel)
        os.makedirs(os.path.dirname(p), exist_ok=True)
        if v[0] == 'link':
            if os.path.lexists(p):
                os.unlink(p)
            os.symlink(v[1], p)
        else:
            with open(p, 'wb') as f:
                f.write(v[1])
            os.chmod(p, v[0])


class Workdir:
    """The build directory at a fixed path, cheaply reset to `pristine + given files` between transitions."""

    def __init__(self, d, pristine):
        self.d = d
        self.pristine = pristine
        restore(d, pristine)
        self.sig = {}
        for rel in pristine:
            if not rel.endswith('/'):
                st = os.lstat(os.path.join(d, rel))
                self.sig[rel] = (st.st_mtime_ns, st.st_size)

    def listing(self):
        out = {}
        for base, dirs, files in os.walk(self.d):
            for fn in files:
                p = os.path.join(base, fn)
                st = os.lstat(p)
                out[os.path.relpath(p, self.d)] = (st.st_mtime_ns, st.st_size)
        return out

    def reset(self, files):
        cur = self.listing()
        for rel, sg in cur.items():
            if rel not in self.pristine:
                os.unlink(os.path.join(self.d, rel))
            elif self.sig.get(rel) != sg:
                put_outputs(self.d, {rel: self.pristine[rel]})
                st = os.lstat(os.path.join(self.d, rel))
                self.sig[rel] = (st.st_mtime_ns, st.st_size)
        for rel in self.pristine:
            if not rel.endswith('/') and rel not in cur:
                put_outputs(self.d, {rel: self.pristine[rel]})
                st = os.lstat(os.path.join(self.d, rel))
                self.sig[rel] = (st.st_mtime_ns, st.st_size)
        put_outputs(self.d, files)

    def read(self, rels):
        out = {}
        for rel in rels:
            p = os.path.join(self.d, rel)
            if os.path.islink(p):
                out[rel] = ('link', os.readlink(p))
            elif os.path.isfile(p):
                with open(p, 'rb') as f:
                    out[rel] = (os.stat(p).st_mode & 0o777, f.read())
        return out


def explore_project(job):
    from verif import mesonproc as mp
    idx, spec, placement, odd, setup_args = job
    hand = spec if isinstance(spec, dict) else None      # a hand-enumerated project: {'desc', 'files'}
    res = {'idx': idx, 'desc': (hand['desc'] if hand else pg.describe(spec) + ' @' + placement + (' odd-names' if odd else '')) + ' ' + ' '.join(setup_args),
           'states': 0, 'transitions': 0, 'edges': 0, 'viol': [], 'capped': False, 'nondet_outputs': 0, 'skip': None, 'orders': 0,
           'family': hand.get('family') if hand else None, 'cell': hand.get('cell') if hand else None, 'link_lines': []}
    root = os.path.join(scratch_root(), 'c05.%d' % os.getpid(), 'p')
    shutil.rmtree(root, ignore_errors=True)
    files_repr = hand['files'] if hand else pg.render(spec, placement, odd_names=odd).files
    mp.write_tree(root, files_repr)
    s = mp.run_meson(['setup', 'b'] + list(setup_args), root)
    if s.rc != 0:
        res['skip'] = 'setup failed: ' + s.out[-300:]
        return res
    bdir = os.path.join(root, 'b')
    try:
        mf = rn.parse_file(os.path.join(bdir, 'build.ninja'))
    except rn.NinjaError as e:
        res['viol'].append(('C05:manifest-unreadable', str(e), {'files': files_repr}))
        return res
    edges = [e for e in rn.topo_order(mf, ['all', 'meson-test-prereq']) if not e.is_phony]
    res['edges'] = len(edges)
    n = len(edges)
    eid = {id(e): i for i, e in enumerate(edges)}

    def producers_through_phony(p, seen=None):
        """non-phony edges that an input path depends on (phony aliases are transparent)"""
        seen = seen if seen is not None else set()
        e = mf.producer.get(p)
        if e is None or id(e) in seen:
            return set()
        seen.add(id(e))
        if not e.is_phony:
            return {eid[id(e)]} if id(e) in eid else set()
        out = set()
        for q in e.all_ins:
            out |= producers_through_phony(q, seen)
        return out
    direct = []
    for e in edges:
        d = set()
        for p in e.all_ins:
            d |= producers_through_phony(p)
        direct.append(d)
    pristine = snapshot(bdir)
    wd = Workdir(bdir, pristine)

    def run_in(state_files, e):
        wd.reset(state_files)
        rr = rn.run_edge(e, bdir)
        outs = {}
        for o in e.all_outs:
            outs[o] = digest(os.path.join(bdir, o))
        return rr, outs

    # reference build (declaration-respecting order, everything accumulates), run twice for calibration
    def full_build():
        wd.reset({})
        produced = {}
        digs = {}
        link_lines = res['link_lines'] = []
        for e in edges:
            before = wd.listing()
            rr = rn.run_edge(e, bdir)
            if e.rule.name.endswith('_LINKER'):
                link_lines.append(rr.command)
            if rr.rc != 0:
                return None, (e, rr)
            after = wd.listing()
            new = [k for k, sg in after.items() if (before.get(k) != sg or k in e.all_outs) and not k.endswith('.d')]
            produced[eid[id(e)]] = wd.read(new)
            for o in e.all_outs:
                digs[o] = digest(os.path.join(bdir, o))
        return (produced, digs), None
    ref, err = full_build()
    if err:
        e, rr = err
        key = 'C05:reference-build-fails:' + e.rule.name
        if hand and hand.get('must_link') and e.rule.name.endswith('_LINKER') and hand['must_link'] not in rr.command:
            # the manual says this file is linked into the target; the link line generated for it does not name it
            key = 'C05:library-not-on-link-line:' + hand['keytag']
        res['viol'].append((key, 'declaration-order build fails at %s: %s' % (e.outs, rr.output[-300:]),
                            {'files': files_repr, 'setup_args': list(setup_args), 'edge': e.outs, 'command': rr.command}))
        return res
    produced, refdig = ref
    ref2, err2 = full_build()
    unstable = set()
    if ref2:
        for o, dg in ref2[1].items():
            if dg != refdig.get(o):
                unstable.add(o)
    res['nondet_outputs'] = len(unstable)
    if hand and hand.get('must_link') and not any(hand['must_link'] in c for c in res['link_lines']):
        res['viol'].append(('C05:library-not-on-link-line:' + hand['keytag'], 'the build succeeds but no link line names %s, which the user calls into' % hand['must_link'],
                            {'files': files_repr, 'setup_args': list(setup_args), 'link_lines': res['link_lines']}))
        return res

    # BFS over ideals
    from collections import deque
    start = frozenset()
    seen = {start}
    dq = deque([start])
    while dq:
        S = dq.popleft()
        res['states'] += 1
        if len(seen) > MAX_IDEALS:
            res['capped'] = True
        state_files = {}
        for i in S:
            state_files.update(produced[i])
        for i in range(n):
            if i in S or not direct[i] <= S:
                continue
            e = edges[i]
            rr, outs = run_in(state_files, e)
            res['transitions'] += 1
            if rr.rc != 0:
                missing = sorted(j for j in range(n) if j not in S)
                res['viol'].append(('C05:edge-fails:%s' % e.rule.name,
                                    'edge %s fails when only its declared ancestors %s have run: %s' % (e.outs, sorted(edges[j].outs[0] for j in S), rr.output[-300:]),
                                    {'files': files_repr, 'setup_args': list(setup_args), 'edge': e.outs, 'state': sorted(edges[j].outs[0] for j in S), 'command': rr.command, 'output': rr.output[-600:]}))
                continue
            for o, dg in outs.items():
                if dg is None:
                    res['viol'].append(('C05:output-missing:%s' % e.rule.name, 'edge %s succeeded but did not produce %s' % (e.outs, o),
                                        {'files': files_repr, 'setup_args': list(setup_args), 'edge': e.outs}))
                elif o not in unstable and dg != refdig[o]:
                    res['viol'].append(('C05:digest-differs:%s' % e.rule.name,
                                        'output %s differs from the reference build when built in state %s' % (o, sorted(edges[j].outs[0] for j in S)),
                                        {'files': files_repr, 'setup_args': list(setup_args), 'edge': e.outs, 'state': sorted(edges[j].outs[0] for j in S)}))
            T = frozenset(S | {i})
            if T not in seen and not res['capped']:
                seen.add(T)
                dq.append(T)
        if res['viol']:
            break
    # adversarial complete orders (always; they are the whole story when the lattice was capped)
    if not res['viol']:
        orders = []
        rev = []     # reverse declaration among ready
        for name, pick in (('reverse-declaration', lambda ready: max(ready)), ('consumers-first', lambda ready: max(ready, key=lambda i: (len(direct[i]), i)))):
            done = set()
            order = []
            while len(done) < n:
                ready = [i for i in range(n) if i not in done and direct[i] <= done]
                i = pick(ready)
                done.add(i)
                order.append(i)
            orders.append((name, order))
        for name, order in orders:
            wd.reset({})
            ok = True
            for i in order:
                rr = rn.run_edge(edges[i], bdir)
                res['transitions'] += 1
                if rr.rc != 0:
                    res['viol'].append(('C05:schedule-fails:%s' % edges[i].rule.name, 'schedule %s fails at %s: %s' % (name, edges[i].outs, rr.output[-300:]),
                                        {'files': files_repr, 'setup_args': list(setup_args), 'order': [edges[j].outs for j in order]}))
                    ok = False
                    break
            if ok:
                res['orders'] += 1
                for o, dg in refdig.items():
                    if o not in unstable and digest(os.path.join(bdir, o)) != dg:
                        res['viol'].append(('C05:schedule-digest', 'schedule %s gives a different %s' % (name, o), {'files': files_repr, 'setup_args': list(setup_args)}))
                # the built tests must pass too (artifacts are right)
    shutil.rmtree(root, ignore_errors=True)
    return res


def unitymix_projects(thorough):
    """One executable of plain and build-time generated sources in one or two languages, built as a unity build: every unity
    compile includes generated sources, whichever language and position they have."""
    out = []
    for n_cpp in (0, 2) if not thorough else (0, 1, 2):
        for gen_c in (0, 1, 2):
            for gen_cpp in ((0, 1, 2) if n_cpp or thorough else (0,)):
                if gen_c + gen_cpp == 0:
                    continue
                for usize in ((2,) if not thorough else (1, 2, 4)):
                    for order in ('by-language', 'generated-first', 'interleaved'):
                        files = {'main.c': 'int a0(void);\nint main(void) { return a0() - 1; }\n', 'a0.c': 'int a0(void) { return 1; }\n'}
                        plain = ["'main.c'", "'a0.c'"]
                        gens = []
                        L = ["project('um', 'c'%s, default_options: ['warning_level=0'])" % (", 'cpp'" if n_cpp or gen_cpp else ''), "cp = find_program('cp')"]
                        for i in range(n_cpp):
                            files['p%d.cpp' % i] = 'int p%d() { return %d; }\n' % (i, i)
                            plain.append("'p%d.cpp'" % i)
                        for i in range(gen_c):
                            files['gc%d.c.in' % i] = 'int gc%d(void) { return %d; }\n' % (i, i)
                            L.append("gc%d = custom_target('gc%d', input: 'gc%d.c.in', output: 'gc%d.c', command: [cp, '@INPUT@', '@OUTPUT@'])" % (i, i, i, i))
                            gens.append('gc%d' % i)
                        for i in range(gen_cpp):
                            files['gp%d.cpp.in' % i] = 'int gp%d() { return %d; }\n' % (i, i)
                            L.append("gp%d = custom_target('gp%d', input: 'gp%d.cpp.in', output: 'gp%d.cpp', command: [cp, '@INPUT@', '@OUTPUT@'])" % (i, i, i, i))
                            gens.append('gp%d' % i)
                        if order == 'by-language':
                            srcs = plain + gens
                        elif order == 'generated-first':
                            srcs = gens + plain
                        else:
                            srcs = [x for pair in itertools.zip_longest(plain, gens) for x in pair if x]
                        L.append("executable('app', %s)" % ', '.join(srcs))
                        files['meson.build'] = '\n'.join(L) + '\n'
                        desc = 'unitymix: %d plain C++, %d generated C, %d generated C++ sources, unity_size %d, sources %s' % (n_cpp, gen_c, gen_cpp, usize, order)
                        out.append(({'desc': desc, 'files': files}, ('--unity=on', '-Dunity_size=%d' % usize)))
    return out


def pchmix_projects():
    """Precompiled headers of a target written in two languages: c_pch and / or cpp_pch (each language has its own header and its
    own precompile step), target kinds, source orders, with and without a generated header inside the precompiled one.  Each
    source really needs what its language's precompiled header declares, and the headers lie in a directory that is on no
    include path: only the precompiled form can satisfy `-include`."""
    out = []
    for which in ('c', 'cpp', 'both'):
        for kind in ('executable', 'static_library', 'shared_library'):
            for order in ('c-first', 'cpp-first'):
                for gen in (False, True):
                    files = {'main.c': 'int cpart(void) { return C_FROM_PCH; }\n%s' % ('int main(void) { return cpart() - 1; }\n' if kind == 'executable' else ''),
                             'util.cpp': 'int cpppart() { return CPP_FROM_PCH; }\n',
                             'pch/mix_pch.h': '%s#define C_FROM_PCH 1\n' % ('#include "genh.h"\n' if gen else ''),
                             'pch/mix_pch.hpp': '%s#define CPP_FROM_PCH 2\n' % ('#include "genh.h"\n' if gen else '')}
                    L = ["project('pm', 'c', 'cpp', default_options: ['warning_level=0'])", "cp = find_program('cp')"]
                    srcs = ["'main.c'", "'util.cpp'"] if order == 'c-first' else ["'util.cpp'", "'main.c'"]
                    if gen:
                        files['genh.h.in'] = '#define GENH 1\n'
                        L.append("genh = custom_target('genh', input: 'genh.h.in', output: 'genh.h', command: [cp, '@INPUT@', '@OUTPUT@'])")
                        srcs.append('genh')
                    kws = []
                    cargs, cppargs = [], []
                    if which in ('c', 'both'):
                        kws.append("c_pch: 'pch/mix_pch.h'")
                    else:
                        cargs.append("'-DC_FROM_PCH=1'")
                    if which in ('cpp', 'both'):
                        kws.append("cpp_pch: 'pch/mix_pch.hpp'")
                    else:
                        cppargs.append("'-DCPP_FROM_PCH=2'")
                    if cargs:
                        kws.append('c_args: [%s]' % ', '.join(cargs))
                    if cppargs:
                        kws.append('cpp_args: [%s]' % ', '.join(cppargs))
                    L.append("%s('mix', %s, %s)" % (kind, ', '.join(srcs), ', '.join(kws)))
                    files['meson.build'] = '\n'.join(L) + '\n'
                    desc = 'pchmix: %s of a C and a C++ source (%s), precompiled header for %s%s' % (kind, order, which, ', including a generated header' if gen else '')
                    out.append(({'desc': desc, 'files': files, 'family': 'pchmix'}, ()))
    return out


def preprocess_projects():
    """compiler.preprocess(depends:): the preprocessed source includes a build-time generated file of any name (a header, an .inc
    table, a .def list), produced by a single- or multi-output custom target that another target needs as well."""
    out = []
    for ext, via_dep in (('h', False), ('inc', False), ('def', False), ('tab.c', False), ('h', True)):
        for multi in (False, True):
            for also in ('exe', 'alone'):
                gen = 'gen_x.' + ext
                files = {'a.c': '#include "%s"\nint a(void) { return GEN_X; }\n' % gen, 'gen.in': '#define GEN_X 3\n', 'main.c': '#include "%s"\nint main(void) { return GEN_X - 3; }\n' % gen,
                         'other.in': 'other\n'}
                L = ["project('pp', 'c', default_options: ['warning_level=0'])", "cp = find_program('cp')", "cc = meson.get_compiler('c')"]
                if multi:
                    L.append("ct = custom_target('gen', input: ['other.in', 'gen.in'], output: ['other.txt', '%s'], command: [cp, '@INPUT@', '@OUTDIR@'])" % gen)
                    files['other.txt.unused'] = ''
                    # cp a b DIR copies under the source names: name the inputs like the outputs
                    files['other.txt'] = 'other\n'
                    files[gen + '.src'] = ''
                    L[-1] = "ct = custom_target('gen', input: ['other.txt.in', '%s.in'], output: ['other.txt', '%s'], command: ['sh', '-c', 'cp \"$0\" \"$2\" && cp \"$1\" \"$3\"', '@INPUT0@', '@INPUT1@', '@OUTPUT0@', '@OUTPUT1@'])" % (gen, gen)
                    files['other.txt.in'] = 'other\n'
                    files[gen + '.in'] = '#define GEN_X 3\n'
                else:
                    L.append("ct = custom_target('gen', input: 'gen.in', output: '%s', command: [cp, '@INPUT@', '@OUTPUT@'])" % gen)
                L.append("pp = cc.preprocess('a.c', output: '@PLAINNAME@.i', include_directories: include_directories('.'), %s)"
                         % ('dependencies: declare_dependency(sources: ct%s)' % ('[1]' if multi else '') if via_dep else 'depends: ct'))
                L.append("custom_target('use_pp', input: pp, output: 'pp.copy', command: [cp, '@INPUT0@', '@OUTPUT@'], build_by_default: true)")
                if also == 'exe':
                    L.append("executable('app', 'main.c', ct%s)" % ('[1]' if multi else ''))
                files['meson.build'] = '\n'.join(L) + '\n'
                for k in [k for k in files if k.endswith(('.unused', '.src')) or (multi and k in ('gen.in', 'other.in', 'other.txt'))]:
                    del files[k]
                if ext == 'tab.c' and also == 'exe':
                    continue      # a generated .c listed as a source of the executable would be compiled on its own
                out.append(({'desc': 'preprocess: includes generated %s (%s custom target%s%s)' % (gen, 'second output of a two-output' if multi else 'single-output', ', also a source of an executable' if also == 'exe' else '',
                                                                                                ', reached through declare_dependency(sources:)' if via_dep else ''), 'files': files}, ()))
    return out


CTLIB_PRODUCERS = ('a', 'so', 'h+a', 'h+a,hdr-src')
CTLIB_RELATIONS = ('src', 'dep_src', 'link_with', 'link_whole', 'dep_link_with', 'dep_link_whole')
CTLIB_CONSUMERS = ('exe', 'shlib', 'static>exe', 'module', 'static>shlib')


def ctlib_admissible(prod, rel, cons):
    """Combinations the reference manual allows: link_whole needs a static archive; a static library cannot absorb (link_whole)
    an archive that meson did not build itself; a library as a *source* is documented for targets that are linked."""
    if 'whole' in rel and prod == 'so':
        return False
    if 'whole' in rel and cons.startswith('static>'):
        return False
    if rel in ('src', 'dep_src') and cons.startswith('static>'):
        return False        # unspecified corner: a library file among the sources of a static library
    return True


def ctlib_projects(thorough, seed):
    """A library made by a custom_target() (a foreign build step: compile + ar, or compile -shared; alone or next to its public
    header, then addressed by index) and linked into a build target: producer shape x relation x consumer kind x build_by_default.
    The consumer's code calls into the library, so the link needs the file."""
    out = []
    n = 0
    for cons in CTLIB_CONSUMERS if thorough else CTLIB_CONSUMERS[:3]:
        for prod in CTLIB_PRODUCERS:
            for rel in CTLIB_RELATIONS:
                if not ctlib_admissible(prod, rel, cons):
                    continue
                n += 1
                for bbd in ((False, True) if thorough else ((n + seed) % 2 == 1,)):
                    two = prod.startswith('h+')
                    libname = 'libext.so' if prod == 'so' else 'libext.a'
                    make = ('"$@" -fPIC -shared "$in" -o "$out"' if prod == 'so'
                            else '"$@" -fPIC -c "$in" -o "$out.o" && rm -f "$out" && ar rcsD "$out" "$out.o"')
                    L = ["project('ctlib', 'c', default_options: ['warning_level=0'])", "cc = meson.get_compiler('c')", "sh = find_program('sh')"]
                    if two:
                        L.append("ext = custom_target('ext', input: 'ext.c', output: ['ext.h', '%s'], build_by_default: %s,\n"
                                 "  command: [sh, '-c', 'in=$1; hdr=$2; out=$3; shift 3; echo \"int ext_value(void);\" > \"$hdr\" && %s',\n"
                                 "            'mklib', '@INPUT@', '@OUTPUT0@', '@OUTPUT1@', cc.cmd_array()])" % (libname, str(bbd).lower(), make))
                        lib = 'ext[1]'
                    else:
                        L.append("ext = custom_target('ext', input: 'ext.c', output: '%s', build_by_default: %s,\n"
                                 "  command: [sh, '-c', 'in=$1; out=$2; shift 2; %s',\n"
                                 "            'mklib', '@INPUT@', '@OUTPUT@', cc.cmd_array()])" % (libname, str(bbd).lower(), make))
                        lib = 'ext'
                    hdr_src = prod.endswith('hdr-src')
                    proto = '#include "ext.h"\n' if hdr_src else 'int ext_value(void);\n'
                    files = {'ext.c': 'int ext_value(void) { return 30; }\n'}
                    srcs = ["'user.c'"] + (['ext[0]'] if hdr_src else [])
                    kw = ''
                    if rel == 'src':
                        srcs.append(lib)
                    elif rel == 'dep_src':
                        kw = ', dependencies: declare_dependency(sources: %s)' % lib
                    elif rel in ('link_with', 'link_whole'):
                        kw = ', %s: %s' % (rel, lib)
                    else:
                        kw = ', dependencies: declare_dependency(%s: %s)' % (rel[4:], lib)
                    first = {'exe': 'executable', 'shlib': 'shared_library', 'module': 'shared_module'}.get(cons, 'static_library')
                    if first == 'executable':
                        files['user.c'] = proto + 'int main(void) { return ext_value() - 30; }\n'
                    else:
                        files['user.c'] = proto + 'int user_value(void) { return ext_value() + 1; }\n'
                    L.append("user = %s('user', %s%s)" % (first, ', '.join(srcs), kw))
                    if cons == 'static>exe':
                        files['main.c'] = 'int user_value(void);\nint main(void) { return user_value() - 31; }\n'
                        L.append("executable('app', 'main.c', link_with: user)")
                    elif cons == 'static>shlib':
                        files['top.c'] = 'int user_value(void);\nint top_value(void) { return user_value() + 1; }\n'
                        L.append("shared_library('top', 'top.c', link_with: user)")
                    files['meson.build'] = '\n'.join(L) + '\n'
                    desc = 'ctlib: custom target making %s%s, %s of %s, build_by_default %s' % (
                        {'a': 'libext.a', 'so': 'libext.so'}.get(prod, '[ext.h, libext.a] (library addressed as ext[1]'
                                                                 + (', ext[0] a source of the user)' if hdr_src else ')')),
                        '', rel, cons, str(bbd).lower())
                    out.append(({'desc': desc, 'files': files, 'family': 'ctlib', 'cell': (prod, rel, cons), 'must_link': libname,
                                 'keytag': '%s:%s' % ('indexed-custom-target-output' if two else 'custom-target', 'sources' if rel in ('src', 'dep_src') else rel)}, ()))
    return out


def jobs_for(ck):
    jobs = []
    idx = 0
    # libraries made by custom targets, linked by build targets
    if ck.want('ctlib'):
        for spec, args in ctlib_projects(ck.thorough, ck.seed):
            jobs.append((idx, spec, 'root', False, args))
            idx += 1
    if ck.args.only and not ck.want('projgen'):
        return jobs
    if ck.thorough:
        kmax, libv = 3, ('static', 'shared', 'both')
    else:
        kmax, libv = 3, ('static', 'shared')
    specs = list(pg.enumerate_specs(kmax, lib_variants=libv))
    for si, spec in enumerate(specs):
        has_gen = any(n.kind in 'HSGCKX' for n in spec)
        if not has_gen and not ck.thorough and len(spec) == 3:
            continue
        placements = ['root', 'sub', 'allsub']
        if not ck.thorough and len(spec) == 3:
            placements = [placements[(si + ck.seed) % 3]]
            if si % 4 != ck.seed % 4:
                # quick: a quarter of the 3-node shapes, rotated by VERIF_SEED (all 1- and 2-node shapes are always complete)
                continue
        for pl in placements:
            if not pg.placement_ok(spec, pl):
                continue
            variants = [(False, ())]
            if ck.thorough:
                variants += [(True, ()), (False, ('--unity=on',)), (False, ('--layout=flat',)), (False, ('--default-library=static',))]
            elif len(spec) <= 2:
                variants += [[(True, ())], [(False, ('--unity=on',))], [(False, ('--layout=flat',))]][(si + ck.seed) % 3]
            for odd, args in variants:
                if '--layout=flat' in args and pl == 'sub':
                    continue    # generated C sources include headers by their mirror-layout path
                jobs.append((idx, spec, pl, odd, args))
                idx += 1
    # a dependency listed after a partial view of itself
    for pi_, spec in enumerate(pg.partialdep_specs()):
        for pl in (('root', 'allsub') if ck.thorough else (('root', 'allsub')[(pi_ + ck.seed) % 2],)):
            jobs.append((idx, spec, pl, False, ()))
            idx += 1
    # one generated list consumed by a custom target and by another target, in both orders
    for gi, spec in enumerate(pg.genct_specs()):
        for pl in (('root', 'allsub') if ck.thorough else (('root', 'allsub')[(gi + ck.seed) % 2],)):
            jobs.append((idx, spec, pl, False, ()))
            idx += 1
    # a precompiled header that includes a generated header
    for qi, spec in enumerate(pg.pch_specs()):
        for pl in (('root', 'allsub') if ck.thorough else (('root', 'allsub')[(qi + ck.seed) % 2],)):
            jobs.append((idx, spec, pl, False, ()))
            idx += 1
    # generators that need a build-time product and process several inputs in one call
    for gi, spec in enumerate(pg.gendep_specs()):
        for pl in (('root', 'allsub') if ck.thorough else (('root', 'allsub')[(gi + ck.seed) % 2],)):
            jobs.append((idx, spec, pl, False, ()))
            idx += 1
    # targets without a single source in the source tree (their own C file is a custom-target / generator() output)
    for ai, spec in enumerate(pg.allgen_specs() + pg.pch_specs()[:6]):
        for oi, own in enumerate(('own_ct', 'own_gen')):
            for pl in (('root', 'allsub') if ck.thorough else (('root', 'allsub')[(ai + oi + ck.seed) % 2],)):
                jobs.append((idx, spec, pl + '+' + own, False, ()))
                idx += 1
    # compiler.preprocess(depends:) over generated files of any name
    for spec, args in preprocess_projects():
        jobs.append((idx, spec, 'root', False, args))
        idx += 1
    # precompiled headers of a target written in two languages
    for spec, args in pchmix_projects():
        jobs.append((idx, spec, 'root', False, args))
        idx += 1
    # unity builds of targets that mix plain and generated sources of one or two languages
    for spec, args in unitymix_projects(ck.thorough):
        jobs.append((idx, spec, 'root', False, args))
        idx += 1
    # link chains deeper than the exhaustive bound: generated header two or three link levels away from its user
    for ci, spec in enumerate(pg.chain_specs()):
        for pl in (('root', 'allsub') if ck.thorough else (('root', 'allsub')[(ci + ck.seed) % 2],)):
            for odd, args in ([(False, ()), (False, ('--unity=on',)), (False, ('--default-library=static',))] if ck.thorough else [(False, ())]):
                jobs.append((idx, spec, pl, odd, args))
                idx += 1
    return jobs


def main():
    ck = Check('C05', 'model_checking')
    if ck.args.replay:
        d = json.load(open(ck.args.replay))
        print(json.dumps({k: v for k, v in d.items() if k != 'files'}, indent=1)[:3000])
        print('(re-run: write d["files"] to a directory, meson setup b %s, then run the edge in the recorded state)' % ' '.join(d.get('setup_args', [])))
        sys.exit(1)
    from verif import mesonproc as mp
    mp.preimport()
    jobs = jobs_for(ck)
    tot = {'projects': 0, 'states': 0, 'transitions': 0, 'edges': 0, 'capped': 0, 'skipped_setup': 0, 'orders': 0, 'nondet_outputs': 0, 'with_branching': 0}
    maxedges = 0
    ctl = {'projects': 0, 'cells': set(), 'library_on_link_line': 0}
    for res in pmap(explore_project, jobs, chunksize=1):
        if res['skip']:
            tot['skipped_setup'] += 1
            print('INTERNAL: generated project does not configure: %s: %s' % (res['desc'], res['skip']), file=sys.stderr)
            continue
        tot['projects'] += 1
        for k in ('states', 'transitions', 'edges', 'orders', 'nondet_outputs'):
            tot[k] += res[k]
        tot['capped'] += 1 if res['capped'] else 0
        if res['states'] > res['edges'] + 1:
            tot['with_branching'] += 1
        maxedges = max(maxedges, res['edges'])
        if res['family'] == 'ctlib':
            ctl['projects'] += 1
            ctl['cells'].add(tuple(res['cell']))
            if any('libext.' in c for c in res['link_lines']):
                ctl['library_on_link_line'] += 1
        if res['states'] > 6:
            ck.sample({'project': res['desc'], 'edges': res['edges'], 'ideals': res['states'], 'transitions': res['transitions']}, cap=5)
        for key, what, rep in res['viol']:
            rep['project'] = res['desc']
            ck.violation(key, res['desc'] + ': ' + what, rep)
    if tot['skipped_setup']:
        ck.internal('%d generated projects did not configure' % tot['skipped_setup'])
    if ck.want('projgen'):
        ck.require(tot['projects'] > 20 and tot['with_branching'] > 5, 'too few projects / no branching lattices')
    if ck.want('ctlib'):
        ck.part('ctlib', projects=ctl['projects'], cells=len(ctl['cells']), library_on_link_line=ctl['library_on_link_line'],
                producers=len({c[0] for c in ctl['cells']}), relations=len({c[1] for c in ctl['cells']}), consumers=len({c[2] for c in ctl['cells']}))
        ck.require(ctl['projects'] >= 40 and ctl['library_on_link_line'] >= 30 and len({c[1] for c in ctl['cells']}) == len(CTLIB_RELATIONS),
                   'custom-target library family: too few projects whose link line really names the library')
    for k, v in tot.items():
        ck.part('lattice', **{k: v})
    ck.part('lattice', max_edges=maxedges)
    ck.assume('ninja semantics come from lib/verif/refninja.py (ninja is not installed); edges are run through /bin/sh like ninja does')
    ck.assume('outputs of already executed edges are restored from the reference build (their digests are checked wherever they are produced)')
    ck.assume('sequential schedules only: two edges are never run concurrently')
    ck.finish(states=tot['states'], transitions=tot['transitions'], traces_validated_against_impl=tot['orders'] + tot['projects'],
              rule='all generated projects of <= 3 targets (projgen shapes x placements%s); per project every ideal of the edge order '
                   '(cap %d ideals, then only the adversarial complete orders) and from every ideal every enabled edge executed for real; '
                   'plus two adversarial complete schedules per project; hand-enumerated families on top: preprocess, unity mixes, deep link chains, '
                   'libraries made by custom targets (producer shape x relation x consumer kind x build_by_default)' % (' x odd names/unity/flat layout/default_library' if ck.thorough else ' rotated, 1- and 2-target shapes with option variants', MAX_IDEALS),
              exhaustive=tot['capped'] == 0, projects=tot['projects'])


run_main(main)
