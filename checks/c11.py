# C11 - installation is confined to DESTDIR, exact and reversible.
#
# Model checking over install histories of generated projects.  A project is a set of install rules (rule variant x
# name style x install_mode) plus a configuration (install_umask, prefix, DESTDIR kind and mechanism, --tags,
# --skip-subprojects).  Every transition is a real CLI command (`meson install --no-rebuild [...]`, `meson --internal
# uninstall`) forked through E4 in a world that lives entirely below a scratch root; installed targets are really
# built from the generated build.ninja by the E5 executor.  After every transition the DESTDIR tree, the install log
# and *everything else below the scratch root* are compared with the prediction of a reference install model that is
# computed from the generated build definition (lib/verif/c11model.py), never from install.dat.
# Family A adds the histories in which an install cannot complete (an obstacle at the destination of any entry of the
# model, or a vanished source): the stopped run must stay within the plan and log all it created, uninstall must give
# back the pre-install tree, and after removing the obstacle a second install must equal an undisturbed one.
# Family G adds the dimension "destination directory x no explicit install_tag" to the --tags clause: every kind of rule
# that is tagged from its destination, installed into every standard directory, directories below them and look-alike
# siblings (bin-extra, libexec, share/locale-archive ...), with every single documented tag selected; the expected
# selection comes from the tag list of Installing.md (c11model.documented_tags).
# Family L: install_subdir() trees that hold a symlink to a directory x follow_symlinks {unset, true, false}.
# Family Y: install_data() of a source that is a symlink x follow_symlinks x rename x {target kept, target removed after setup}.
# Family D: install_dir spelled with '..' (inside the tree, climbing above the root) x the kinds of rule that take an install_dir.
# Family N: the shape of the NAME given to install_subdir() (one / several components, trailing slash, last component repeated
# earlier, space and non-ASCII in a non-last component, call in a nested meson.build) x strip_directory {unset, false, true} x
# exclude lists (entries relative to the installed directory, decoys relative to anything else) x install_dir kind; the
# expectation is the example of install_subdir.yaml (the LAST component of the name is kept unless strip_directory).
# Family M: a directory that two rules SHARE - install_emptydir(P, install_mode: M) x {alone, install_data, install_headers,
# install_man, install_subdir, install_symlink, custom_target} whose destination directory is P / lies below P / (install_subdir) IS P,
# x both declaration orders x DESTDIR pre-states {absent, the declared directories exist with default permissions (mkdir -p),
# the tree left by installing revision 1 of the same project that declared no install_mode}; install, install, uninstall: P carries
# the declared mode after every install (c11model._r_shared).
import hashlib, itertools, json, os, re, shutil, stat, subprocess, sys, time
from collections import deque
from verif.core import Check, pmap, run_main, scratch_root, REPO, VERIF
from verif import c11model as M

ACTS = ('I', 'C', 'D', 'U')       # install, touch + install --only-changed, install --dry-run, uninstall
T_BASE = 1_600_000_000            # mtime given to every generated source file (seconds)

# plan placeholders -> documented default of the corresponding directory option (libdir is passed explicitly)
PLAN_DIRS = {'bindir': 'bin', 'libdir': 'lib', 'libdir_shared': 'lib', 'libdir_static': 'lib', 'includedir': 'include',
             'datadir': 'share', 'mandir': 'share/man'}


def sha(b):
    return hashlib.sha1(b).hexdigest()[:16]


# ------------------------------------------------------------------------------------------------------------
# The commands under test run as root.  To make "the whole world the process can write is the scratch root" true even
# for a broken installer, the forked child enters a private mount namespace in which the root file system is
# remounted read-only (the tmpfs that holds the scratch root is a separate mount and stays writable): a write that
# escapes to /usr, /opt or /etc fails with EROFS instead of landing on the host.
SANDBOX = None


def _enter_sandbox():
    import ctypes
    libc = ctypes.CDLL(None, use_errno=True)
    MS_RDONLY, MS_REMOUNT, MS_BIND, MS_REC, MS_PRIVATE = 1, 32, 4096, 16384, 1 << 18
    os.unshare(os.CLONE_NEWNS)
    if libc.mount(b'none', b'/', None, MS_REC | MS_PRIVATE, None) != 0:
        raise OSError(ctypes.get_errno(), 'mount --make-rprivate /')
    if libc.mount(None, b'/', None, MS_REMOUNT | MS_BIND | MS_RDONLY, None) != 0:
        raise OSError(ctypes.get_errno(), 'mount -o remount,bind,ro /')


def probe_sandbox():
    """Can a child make / read-only for itself while the scratch root stays writable?"""
    global SANDBOX
    sr = scratch_root()
    pid = os.fork()
    if pid == 0:
        rc = 1
        try:
            _enter_sandbox()
            try:
                os.mkdir('/c11-sandbox-probe')
                os.rmdir('/c11-sandbox-probe')
                rc = 2
            except OSError:
                with open(os.path.join(sr, 'probe'), 'w') as f:
                    f.write('x')
                os.unlink(os.path.join(sr, 'probe'))
                rc = 0
        except BaseException:
            rc = 1
        os._exit(rc)
    _, st = os.waitpid(pid, 0)
    SANDBOX = _enter_sandbox if os.WIFEXITED(st) and os.WEXITSTATUS(st) == 0 else None
    return SANDBOX is not None


# ------------------------------------------------------------------------------------------------------------
# file-system observation
def snap_tree(top):
    """rel -> (kind, mode, payload, mtime_ns); payload = bytes | link target | None.  '.' is the top itself."""
    out = {}
    if not os.path.lexists(top):
        return out
    st = os.lstat(top)
    if not stat.S_ISDIR(st.st_mode):
        out['.'] = ('other', stat.S_IMODE(st.st_mode), None, st.st_mtime_ns)
        return out
    out['.'] = ('dir', stat.S_IMODE(st.st_mode), None, st.st_mtime_ns)
    for base, dirs, files in os.walk(top):
        for n in dirs + files:
            p = os.path.join(base, n)
            rel = os.path.relpath(p, top)
            st = os.lstat(p)
            if stat.S_ISLNK(st.st_mode):
                out[rel] = ('link', 0, os.readlink(p), st.st_mtime_ns)
            elif stat.S_ISDIR(st.st_mode):
                out[rel] = ('dir', stat.S_IMODE(st.st_mode), None, st.st_mtime_ns)
            elif stat.S_ISREG(st.st_mode):
                with open(p, 'rb') as f:
                    out[rel] = ('file', stat.S_IMODE(st.st_mode), f.read(), st.st_mtime_ns)
            else:
                out[rel] = ('other', stat.S_IMODE(st.st_mode), None, st.st_mtime_ns)
    return out


def tree_key(t):
    return tuple(sorted((rel, v[0], v[1], sha(v[2]) if v[0] == 'file' else v[2]) for rel, v in t.items()))


def restore_tree(top, t):
    if os.path.lexists(top):
        if os.path.isdir(top) and not os.path.islink(top):
            shutil.rmtree(top)
        else:
            os.unlink(top)
    if '.' not in t:
        return
    os.makedirs(top)
    dirs = []
    for rel in sorted(t, key=lambda r: (r.count('/'), r)):
        kind, mode, payload, mt = t[rel]
        p = top if rel == '.' else os.path.join(top, rel)
        if kind == 'dir':
            if rel != '.':
                os.mkdir(p)
            dirs.append((p, mode, mt))
        elif kind == 'link':
            os.symlink(payload, p)
        elif kind == 'file':
            with open(p, 'wb') as f:
                f.write(payload)
            os.chmod(p, mode)
            os.utime(p, ns=(mt, mt))
    for p, mode, mt in reversed(dirs):
        os.chmod(p, mode)
        os.utime(p, ns=(mt, mt))


def snap_outside(root, exclude):
    """Everything below root except the DESTDIR tree: rel -> fingerprint."""
    out = {}
    ex = exclude.rstrip('/')
    for base, dirs, files in os.walk(root):
        dirs[:] = [d for d in dirs if os.path.join(base, d) != ex]
        for n in dirs + files:
            p = os.path.join(base, n)
            if p == ex:
                continue
            rel = os.path.relpath(p, root)
            st = os.lstat(p)
            if stat.S_ISLNK(st.st_mode):
                out[rel] = ('link', os.readlink(p))
            elif stat.S_ISDIR(st.st_mode):
                out[rel] = ('dir', stat.S_IMODE(st.st_mode))
            elif stat.S_ISREG(st.st_mode):
                with open(p, 'rb') as f:
                    out[rel] = ('file', stat.S_IMODE(st.st_mode), st.st_size, st.st_mtime_ns, sha(f.read()))
            else:
                out[rel] = ('other', stat.S_IMODE(st.st_mode))
    return out


# ------------------------------------------------------------------------------------------------------------
class World:
    """One generated project configured in its own scratch world."""

    def __init__(self, job, root):
        self.job = job
        self.root = root
        self.src = os.path.join(root, 'src')
        self.b = os.path.join(root, 'b')
        self.home = os.path.join(root, 'home')
        self.tmp = os.path.join(root, 'tmp')
        self.logrel = os.path.join('b', 'meson-logs', 'install-log.txt')
        self.logpath = os.path.join(root, self.logrel)
        dk = job['destdir']
        pfx = M.PREFIXES[job['prefix']]
        if dk == 'abs':
            self.treeroot = os.path.join(root, 'dest')
            self.destarg = self.treeroot
            self.prefix, self.absbase = pfx, ''
        elif dk == 'rel':
            self.treeroot = os.path.join(self.b, 'rel dest')
            self.destarg = 'rel dest'
            self.prefix, self.absbase = pfx, ''
        else:
            self.treeroot = os.path.join(root, 'sys')
            self.destarg = None
            self.prefix, self.absbase = self.treeroot + pfx, self.treeroot
        self.proj = M.make_project(job['rules'], self.absbase, job.get('with_sub', False), job.get('sub_style', 'plain'),
                                   guess=job.get('guess'), prefix=self.prefix)
        self.dirs = dict(M.DIRSETS[job['guess']['dirset']]) if job.get('guess') else None
        self.umask = job['umask']
        self.touched = None       # (path, kind) of the file that action C touches
        self.rev1_tree = {}       # init 'rev1': the DESTDIR tree after installing the previous revision (run_job)
        self.mode_conflicts = 0   # two rules declare different modes for one directory: not specified, counted
        self.touch_base = None

    def treerel(self, syspath):
        if self.job['destdir'] == 'none':
            return os.path.relpath(syspath, self.treeroot)
        return syspath.lstrip('/') or '.'

    def entry_rel(self, e):
        return self.where_rel(e.where)

    def where_rel(self, where):
        # the directory a path denotes is the one its lexical normalisation names ('/' is its own parent)
        return os.path.normpath(self.treerel(os.path.normpath(M.syspath(where, self.prefix))))

    def srcpath(self, src):
        return os.path.join(self.src if src[0] == 'src' else self.b, src[1])

    def env(self, with_destdir=True):
        from verif import mesonproc as mp
        e = mp.base_env(home=self.home, TMPDIR=self.tmp)
        if with_destdir and self.destarg is not None and self.job['mech'] == 'env':
            e['DESTDIR'] = self.destarg
        return e

    def install_argv(self, tags, skip, extra=()):
        a = ['install', '--no-rebuild']
        if self.destarg is not None and self.job['mech'] == 'flag':
            a += ['--destdir', self.destarg]
        if tags:
            a += ['--tags', ','.join(tags)]
        if skip is not None:
            a += ['--skip-subprojects'] if skip == '*' else ['--skip-subprojects', skip]
        return a + list(extra)

    # -- creation -------------------------------------------------------------------------------------------
    def create(self):
        from verif import mesonproc as mp, refninja as rn
        shutil.rmtree(self.root, ignore_errors=True)
        for d in (self.src, self.home, self.tmp):
            os.makedirs(d)
        for rel, (content, mode) in self.proj.files.items():
            p = os.path.join(self.src, rel)
            os.makedirs(os.path.dirname(p), exist_ok=True)
            with open(p, 'w', encoding='utf-8', newline='') as f:
                f.write(content)
            os.chmod(p, mode)
            os.utime(p, (T_BASE, T_BASE))
        for rel, tg in self.proj.links.items():
            p = os.path.join(self.src, rel)
            os.makedirs(os.path.dirname(p), exist_ok=True)
            os.symlink(tg, p)
        argv = ['setup', self.b, self.src, '--prefix', self.prefix, '--libdir', 'lib', '-Dinstall_umask=' + self.umask]
        if self.dirs is not None:
            # every directory option the tag rules mention is given explicitly (the defaults of some depend on the host)
            argv = argv[:5] + ['-Dinstall_umask=' + self.umask] + ['-D%s=%s' % kv for kv in sorted(self.dirs.items())]
        if not self.proj.needs_c:
            argv.append('--backend=none')
        r = mp.run_meson(argv, self.root, self.env(with_destdir=False))
        if r.rc != 0:
            return 'setup failed rc=%d: %s' % (r.rc, r.out[-500:])
        if self.proj.needs_c:
            try:
                mf = rn.parse_file(os.path.join(self.b, 'build.ninja'))
            except rn.NinjaError as e:
                return 'build.ninja unreadable: %s' % e
            for e in rn.topo_order(mf, ['all']):
                if e.is_phony:
                    continue
                rr = rn.run_edge(e, self.b, env=self.env(with_destdir=False))
                if rr.rc != 0:
                    return 'build edge %s failed: %s' % (e.outs, rr.output[-300:])
        for rel in self.proj.gone_after_setup:       # disappears between `meson setup` and the install
            os.unlink(os.path.join(self.src, rel))
        # the file that "touching one source" modifies: the install source of the first file entry
        for e in self.proj.entries:
            if e.kind == 'file' and not e.sub and e.src[1] not in self.proj.gone_after_setup:
                self.touched = (self.srcpath(e.src), e.src[0])
                if e.src[0] == 'build':
                    self.touch_base = os.stat(self.touched[0]).st_mtime_ns
                break
        return None

    def set_version(self, v):
        """Put the touched source into version v (content for source files, mtime for both kinds)."""
        if self.touched is None:
            return
        p, kind = self.touched
        if kind == 'src':
            rel = os.path.relpath(p, self.src)
            content, mode = self.proj.files[rel]
            if v:
                content = content + 'touched %d\n' % v
            with open(p, 'w', encoding='utf-8', newline='') as f:
                f.write(content)
            # versions are 0.3 s apart: an edit within the same wall-clock second is still an edit
            ns = T_BASE * 1_000_000_000 + 300_000_000 * v
            os.utime(p, ns=(ns, ns))
        else:
            ns = self.touch_base + 300_000_000 * v
            os.utime(p, ns=(ns, ns))

    def initial_tree(self, init):
        if init == 'absent':
            return {}
        if init == 'rev1':
            # what installing the previous revision of the project (no install_mode anywhere) into the same DESTDIR left behind
            return dict(self.rev1_tree)
        if init == 'declared':
            # every directory that a rule names is already there with default permissions, as `mkdir -p` under umask 022 (a
            # packaging tool preparing the staging tree, a hand-made prefix) makes them
            t = {'.': ('dir', 0o755, None, T_BASE * 10**9)}
            for e in self.proj.entries:
                if e.kind != 'dir':
                    continue
                parts = self.entry_rel(e).split('/')
                for i in range(1, len(parts) + 1):
                    t.setdefault('/'.join(parts[:i]), ('dir', 0o755, None, T_BASE * 10**9))
            return t
        t = {'.': ('dir', 0o755, None, T_BASE * 10**9)}
        pr = self.treerel(self.prefix)
        parts = pr.split('/')
        for i in range(1, len(parts) + 1):
            t['/'.join(parts[:i])] = ('dir', 0o755, None, T_BASE * 10**9)
        t[pr + '/share'] = ('dir', 0o750, None, T_BASE * 10**9)
        t[pr + '/share/foreign.txt'] = ('file', 0o600, b'not installed by meson\n', T_BASE * 10**9)
        t[pr + '/share/flink'] = ('link', 0, 'foreign.txt', T_BASE * 10**9)
        t[pr + '/keep'] = ('dir', 0o700, None, T_BASE * 10**9)
        t['etc'] = ('dir', 0o755, None, T_BASE * 10**9)
        # the destination of a directory that an install_subdir() rule EXCLUDES already exists (as after an earlier
        # install of another package into it): the exclusion must hold all the same
        for spec in self.job['rules']:
            if spec[0] == 'subdir_excl':
                st = spec[1]
                chain = [pr, 'share', M.nm(st, 'xdir'), M.nm(st, 'treec'), 'other', M.nm(st, 'deep')]
                for i in range(2, len(chain) + 1):
                    t.setdefault('/'.join(chain[:i]), ('dir', 0o755, None, T_BASE * 10**9))
        return t


# ------------------------------------------------------------------------------------------------------------
# reference model: what a command must do to a tree
class Exp:
    __slots__ = ('kind', 'mode', 'val', 'optional', 'entry', 'alias', 'implied')

    def __init__(self, kind, mode, val, optional=False, entry=None, alias=False, implied=False):
        self.kind, self.mode, self.val, self.optional, self.entry, self.alias = kind, mode, val, optional, entry, alias
        self.implied = implied      # a directory that exists only because something is installed below it


def default_mode(w, srcfile, is_dir):
    """Default permissions masked by install_umask; 'preserve' keeps the mode of what is copied."""
    if w.umask == 'preserve':
        if is_dir:
            return M.UNSPEC
        return stat.S_IMODE(os.stat(srcfile).st_mode)
    u = int(w.umask, 8)
    if is_dir:
        return 0o777 & ~u
    x = os.stat(srcfile).st_mode & 0o111
    return (0o777 if x else 0o666) & ~u


def predict_install(w, T, sel):
    """Expected tree after a (full) install of the selected entries on top of tree T.  Returns (exp, stats)."""
    exp = {rel: Exp(v[0], v[1], sha(v[2]) if v[0] == 'file' else v[2]) for rel, v in T.items()}
    skipped = 0

    def parents(rel):
        out = ['.']
        parts = rel.split('/')
        for i in range(1, len(parts)):
            out.append('/'.join(parts[:i]))
        return out
    for wh in w.proj.optional_dirs:       # neither demanded nor forbidden (c11model._r_dotdot)
        rel = w.where_rel(wh)
        for p in parents(rel) + [rel]:
            if p not in exp:
                exp[p] = Exp('dir', M.UNSPEC, None, optional=True, implied=True)
                skipped += 1
    for e, must in sel:
        rel = w.entry_rel(e)
        for p in parents(rel):
            if p not in exp:
                exp[p] = Exp('dir', M.UNSPEC, None, optional=not must, implied=True)       # implied parent: mode not specified
                skipped += 1
        if e.kind == 'dir':
            old = exp.get(rel)
            other = old.entry if (old is not None and old.entry is not None and old.kind == 'dir') else None
            if other is not None and other.mode is not None and e.mode is None:
                continue              # an earlier rule declares a mode for this directory, this one declares none: the declared one holds
            if other is not None and other.mode is not None and e.mode is not None and other.mode != e.mode:
                # two rules declare different modes for the same directory: which one holds is not specified
                exp[rel] = Exp('dir', M.UNSPEC, None, optional=not must, entry=e)
                w.mode_conflicts += 1
                skipped += 1
            elif e.mode is not None:
                # "the declared install_mode": the rule states the mode of this directory, whether the directory is new, was made
                # a moment ago by another rule of the same install, or was there before the install
                exp[rel] = Exp('dir', e.mode, None, optional=not must, entry=e)
            elif rel in T and T[rel][0] == 'dir':
                # no declared mode and it existed before this install ("contents are left in place"): its mode is not specified
                exp[rel] = Exp('dir', M.UNSPEC, None, optional=not must, entry=e)
                skipped += 1
            else:
                mode = default_mode(w, None, True)
                if mode is M.UNSPEC:
                    skipped += 1
                exp[rel] = Exp('dir', mode, None, optional=not must, entry=e)
        elif e.kind == 'link':
            exp[rel] = Exp('link', 0, e.target, optional=not must, entry=e, alias=e.alias)
        else:
            sp = w.srcpath(e.src)
            with open(sp, 'rb') as f:
                dg = sha(f.read())
            mode = e.mode if e.mode is not None else default_mode(w, sp, False)
            exp[rel] = Exp('file', mode, dg, optional=not must, entry=e)
    return exp, skipped


def resolve_alias(obs, rel):
    """Follow relative symlinks inside the observed tree (library aliases)."""
    for _ in range(4):
        v = obs.get(rel)
        if v is None or v[0] != 'link':
            return rel
        rel = os.path.normpath(os.path.join(os.path.dirname(rel), v[2]))
    return rel


class Problems(list):
    """list of (key, text); .entries[i] = the entry of the model that problem i is about (or None)"""

    def __init__(self):
        super().__init__()
        self.entries = []

    def add(self, key, text, entry=None):
        self.append((key, text))
        self.entries.append(entry)

    def first(self, n):
        """The first problem of each of the first n distinct keys (so that one class cannot hide the others)."""
        out, seen = [], set()
        for (k, t), e in zip(self, self.entries):
            if k not in seen and len(seen) < n:
                seen.add(k)
                out.append((k, t, e))
        return out


def compare_tree(w, obs, exp, act):
    """-> Problems (a list of (key, text))"""
    out = Problems()
    for rel, x in exp.items():
        rid = x.entry.rule.rid if x.entry is not None else 'preexisting-or-parent'
        o = obs.get(rel)
        if o is None:
            if not x.optional and not x.implied:      # (a missing implied parent: the entry below it is missing and is reported)
                out.add('C11:%s:missing:%s' % (act, rid), 'expected %s %r is missing' % (x.kind, rel), x.entry)
            continue
        if o[0] != x.kind:
            out.add('C11:%s:type:%s' % (act, rid), '%r is a %s, expected %s' % (rel, o[0], x.kind), x.entry)
            continue
        if x.kind == 'file':
            if sha(o[2]) != x.val:
                out.add('C11:%s:content:%s' % (act, rid), 'content of %r differs from its install source' % rel, x.entry)
            if x.mode is not M.UNSPEC and o[1] != x.mode:
                how = 'explicit' if (x.entry is not None and x.entry.mode is not None) else ('umask-' + w.umask if x.entry is not None else 'preexisting')
                out.add('C11:%s:mode:%s:%s' % (act, rid, how), 'mode of %r is %o, expected %o' % (rel, o[1], x.mode), x.entry)
        elif x.kind == 'dir':
            if x.mode is not M.UNSPEC and o[1] != x.mode:
                how = 'explicit' if (x.entry is not None and x.entry.mode is not None) else ('umask-' + w.umask if x.entry is not None else 'preexisting')
                out.add('C11:%s:dirmode:%s:%s' % (act, rid, how), 'mode of directory %r is %o, expected %o' % (rel, o[1], x.mode), x.entry)
        elif x.kind == 'link':
            if x.alias:
                want = os.path.normpath(os.path.join(os.path.dirname(rel), x.val))
                end = resolve_alias(obs, rel)
                if x.optional and end not in obs:
                    continue      # --tags left out a link of the chain (alias tags are not documented)
                if end != want:
                    out.add('C11:%s:alias:%s' % (act, rid), 'alias %r resolves to %r, expected %r' % (rel, resolve_alias(obs, rel), want), x.entry)
            elif o[2] != x.val:
                out.add('C11:%s:linktarget:%s' % (act, rid), 'symlink %r points to %r, expected %r' % (rel, o[2], x.val), x.entry)
    extra = [rel for rel in obs if rel not in exp]
    if extra:
        # classifier: is it (or does it lead to) something that a rule of the project installs, but that --tags /
        # --skip-subprojects left out of this run?
        left_out = [(w.entry_rel(e), e) for e in w.proj.entries]
        left_out = [(r, e) for r, e in left_out if r not in exp]
        if act == 'A':
            left_out = []       # a stopped install: everything is selected, nothing is "left out"
        for rel in extra:
            ent = next((e for r, e in left_out if r == rel), None) or next((e for r, e in left_out if r.startswith(rel + '/')), None)
            if ent is None:
                out.add('C11:%s:extra' % act, 'unexpected %s %r in the DESTDIR tree' % (obs[rel][0], rel))
            else:
                tg = ('documented tag(s) %s' % sorted(map(str, ent.cands))) if ent.cands is not None else 'tag %r' % ent.tag
                out.add('C11:%s:extra:not-selected:%s' % (act, ent.rule.rid), '%s %r is in the DESTDIR tree although the rule it comes from (%s%s) '
                        'is not selected by this run' % (obs[rel][0], rel, tg, ', subproject %r' % ent.sub if ent.sub else ''), ent)
    return out


def parse_log(w):
    """-> (list of tree-relative logged paths in order, list of paths outside the tree, comment lines) or None"""
    if not os.path.exists(w.logpath):
        return None
    inside, outside, comments = [], [], []
    with open(w.logpath, encoding='utf-8') as f:
        for line in f:
            line = line.rstrip('\n')
            if line.startswith('#') or not line:
                comments.append(line)
                continue
            p = os.path.normpath(line)
            tr = w.treeroot
            if p == tr:
                inside.append('.')
            elif p.startswith(tr + '/'):
                inside.append(os.path.relpath(p, tr))
            else:
                outside.append(line)
    return inside, outside, comments


def predict_uninstall(T, logged):
    """Uninstall removes exactly what the log names (directories only when they are empty by then)."""
    t = dict(T)
    for rel in logged:
        v = t.get(rel)
        if v is None:
            continue
        if v[0] == 'dir':
            pre = '' if rel == '.' else rel + '/'
            if any((k != rel and (k.startswith(pre) if pre else k != '.')) for k in t):
                continue        # not empty: stays
            del t[rel]
        else:
            del t[rel]
    return t


def classify_outside(rel):
    top = rel.split('/')[0]
    if top == 'b':
        parts = rel.split('/')
        return 'build:' + (parts[1] if len(parts) > 1 else '')
    return top


# ------------------------------------------------------------------------------------------------------------
class State:
    __slots__ = ('tree', 'log', 'v', 'path', 'origin', 'depth')

    def __init__(self, tree, log, v, path, origin):
        self.tree, self.log, self.v, self.path, self.origin = tree, log, v, path, origin


def stale_bits(w, sel, tree):
    bits = []
    for e, _ in sel:
        if e.kind != 'file':
            continue
        rel = w.entry_rel(e)
        o = tree.get(rel)
        if o is None or o[0] != 'file':
            continue
        if o[3] < os.stat(w.srcpath(e.src)).st_mtime_ns:
            bits.append(rel)
    return tuple(bits)


def norm_log(b):
    if b is None:
        return None
    return tuple(sorted(b.decode('utf-8', 'surrogateescape').splitlines()))


def KIND_SUBDIR(e):
    return e.rule.rid.startswith('subdir')


class Runner:
    """Executes transitions of one (world, tags, skip) run and checks each against the model."""

    def __init__(self, w, tags, skip, res):
        self.w, self.tags, self.skip, self.res = w, tags, skip, res
        self.sel, self.tag_unspec = M.select(w.proj.entries, tags, skip)
        self.treekeys = set()
        self.init_tree = {}
        self.cur_fault = None
        self.init_kind = None       # the DESTDIR pre-state of this run when it is not the job's (recorded for replay)

    def viol(self, key, text, path, extra=None, entry=None):
        rep = {'job': self.w.job, 'tags': self.tags, 'skip': self.skip, 'history': list(path)}
        if self.init_kind is not None:
            rep['job'] = dict(self.w.job, init=self.init_kind)
        if entry is not None and entry.rule.guess is not None and not self.w.job['guess'].get('only'):
            # minimal reproducer: the project reduced to the rules for the one destination directory concerned
            rep['job'] = dict(self.w.job, guess=dict(self.w.job['guess'], only=[entry.rule.guess]))
        if self.cur_fault is not None:
            rep['fault'] = self.cur_fault
        if extra:
            rep.update(extra)
        if self.w.proj.key_class:
            # a family about one class of input: the key names the class and the symptom (not the rule variant)
            for r in self.w.proj.rules:
                key = key.replace(':' + r.rid, '')
            sym = key.split(':')[2:]          # without the action: one defect shows in every later step of the history
            if sym[0] == 'outside':
                sym = ['outside-destdir']
            key = 'C11:%s:%s' % (self.w.proj.key_class, ':'.join(sym))
            if self.w.proj.key_whole:
                key = 'C11:%s' % self.w.proj.key_class
        self.res['viol'].append((key, text, rep))

    # -- aborted installs --------------------------------------------------------------------------------------
    # An install cannot always be completed: a directory sits where a file (or link) has to go, a file sits where a
    # directory has to go, a source / build product has disappeared since `meson setup`.  The installer then stops
    # part-way.  The property's log clause does not depend on the run having succeeded: whatever the stopped run has
    # created by then must be named in the log, so that uninstall gives back the tree from before the install.
    # The family of such situations of a project is derived from the reference model (one or more per entry, in
    # the order of the rule list), never from the implementation's list of error messages.
    def faults(self, init_tree):
        """-> list of fault dicts {'id', 'kind', 'rel' | 'src'}; counts the unspecified ones that are left out."""
        w = self.w
        out, seen = [], set()

        def add(kind, where):
            fid = '%s@%s' % (kind, where if isinstance(where, str) else ':'.join(where))
            if fid in seen:
                return
            seen.add(fid)
            out.append({'id': fid, 'kind': kind, ('rel' if isinstance(where, str) else 'src'): where})
        dir_rels = {w.entry_rel(e) for e, _ in self.sel if e.kind == 'dir'}
        for e, _ in self.sel:
            rel = w.entry_rel(e)
            if rel in init_tree:
                continue
            if e.kind == 'dir':
                add('dst-is-file', rel)                     # a regular file where a directory has to be created
                continue
            add('dst-is-dir', rel)                          # a directory where a file / symlink has to be created
            if e.kind == 'link':
                # a regular file where a symlink has to be created: refused or replaced (not documented which; if the
                # install completes, the complete tree is what is compared)
                add('dst-is-file', rel)
                out[-1]['may_replace'] = True
            parent = os.path.dirname(rel)
            if parent and parent not in init_tree and parent not in dir_rels:
                add('parent-is-file', parent)               # a regular file where the implied parent directory has to go
            if e.kind == 'file':
                if KIND_SUBDIR(e):
                    # install_subdir() copies what the directory holds at install time: a file that is gone is not
                    # an error, so there is nothing to abort
                    self.res['skipped_unspecified'] += 1
                else:
                    add('src-gone', tuple(e.src))           # the file to install has disappeared since configure
        return out

    def faulted_entries(self, fault):
        w = self.w
        bad = []
        for e, _ in self.sel:
            if fault['kind'] == 'src-gone':
                if e.src is not None and tuple(e.src) == tuple(fault['src']) and not KIND_SUBDIR(e):
                    bad.append(e)
            else:
                rel = w.entry_rel(e)
                if rel == fault['rel'] or rel.startswith(fault['rel'] + '/'):
                    bad.append(e)
        return bad

    def apply_fault(self, fault):
        """Produce the situation in the file system; returns what undo_fault needs."""
        w = self.w
        if fault['kind'] == 'src-gone':
            p = w.srcpath(fault['src'])
            st = os.stat(p)
            with open(p, 'rb') as f:
                saved = (p, f.read(), stat.S_IMODE(st.st_mode), st.st_mtime_ns)
            os.unlink(p)
            return saved
        p = os.path.join(w.treeroot, fault['rel'])
        os.makedirs(os.path.dirname(p), exist_ok=True)
        if fault['kind'] == 'dst-is-dir':
            os.mkdir(p)
        else:
            with open(p, 'wb') as f:
                f.write(b'in the way\n')
            os.chmod(p, 0o644)
        return (p,)

    def undo_fault(self, saved):
        if len(saved) == 1:
            p = saved[0]
            if os.path.isdir(p) and not os.path.islink(p):
                if not os.listdir(p):
                    os.rmdir(p)
            elif os.path.lexists(p):
                os.unlink(p)
            return
        p, content, mode, mt = saved
        with open(p, 'wb') as f:
            f.write(content)
        os.chmod(p, mode)
        os.utime(p, ns=(mt, mt))

    def abort_step(self, pre, fault, path):
        """`meson install` in a situation in which it cannot complete.  -> State after the stopped run, or None."""
        from verif import mesonproc as mp
        w = self.w
        before_out = snap_outside(w.root, w.treeroot)
        r = mp.run_meson(w.install_argv(self.tags, self.skip), w.b, w.env(), pre=SANDBOX)
        self.res['transitions'] += 1
        obs = snap_tree(w.treeroot)
        after_out = snap_outside(w.root, w.treeroot)
        log = open(w.logpath, 'rb').read() if os.path.exists(w.logpath) else None
        self.treekeys.add(tree_key(obs))
        bad = self.faulted_entries(fault)
        if r.rc == 0 and fault.get('may_replace'):
            self.res['fault_replaced'] += 1
            self.res['skipped_unspecified'] += 1
            exp, skipped = predict_install(w, {k: v for k, v in pre.items() if k != fault['rel']}, self.sel)
            for key, text, ent in compare_tree(w, obs, exp, 'A').first(6):
                self.viol(key, text, path, entry=ent)
            return None
        if r.rc == 0:
            self.viol('C11:A:fault-ignored:%s' % fault['kind'], 'install exited 0 although %s cannot be installed (%s)'
                      % (', '.join(repr(w.entry_rel(e)) for e in bad[:3]), fault['id']), path)
            return None
        m = re.search(r"Read-only file system: '([^']*)'", r.out)
        if m:
            self.viol('C11:A:escape-attempt', 'the command tried to write %r, which is outside DESTDIR and outside the scratch root '
                      '(refused by the read-only sandbox)' % m.group(1), path)
            return None
        self.res['aborts'] += 1
        for rel in sorted(set(before_out) | set(after_out)):
            if before_out.get(rel) != after_out.get(rel) and rel != w.logrel:
                self.viol('C11:A:outside:%s' % classify_outside(rel),
                          '%r outside the DESTDIR tree changed: %r -> %r' % (rel, before_out.get(rel), after_out.get(rel)), path)
                break
        # -- exactness of a partial install: what exists is what was there before plus (some of) what the rules specify
        badset = set(id(e) for e in bad)
        ok = [(e, False) for e, _ in self.sel if id(e) not in badset]
        exp, skipped = predict_install(w, pre, ok)
        for e in bad:       # the directory above something that could not be installed may or may not have been made
            parts = w.entry_rel(e).split('/')
            for i in range(1, len(parts)):
                exp.setdefault('/'.join(parts[:i]), Exp('dir', M.UNSPEC, None, optional=True))
        self.res['skipped_unspecified'] += skipped
        for key, text, ent in compare_tree(w, obs, exp, 'A').first(6):
            self.viol(key, text, path, entry=ent)
        self.res['tree_compares'] += 1
        self.res['entries_compared'] += len(exp)
        # -- the log names everything the stopped run created, and nothing it did not create
        created = sorted(rel for rel in obs if rel not in pre)
        if any(obs[rel][0] == 'dir' for rel in created):
            self.res['aborts_after_mkdir'] += 1
        self.res['abort_created_paths'] += len(created)
        pl = parse_log(w)
        if pl is None:
            if created:
                self.viol('C11:A:log:absent', 'the stopped install created %r but wrote no install log' % created[0], path)
        else:
            inside, outside, _ = pl
            self.res['abort_log_checks'] += 1
            if outside:
                self.viol('C11:A:log:outside-path', 'log names a path outside DESTDIR: %r' % outside[0], path)
            replaced = {w.entry_rel(e) for e, _ in ok if e.kind != 'dir'}
            miss = [rel for rel in created if rel not in set(inside)]
            extra = sorted(set(inside) - set(created) - replaced)
            if miss:
                kind = obs[miss[0]][0]
                self.viol('C11:A:log:missing-%s' % kind, 'the stopped install created %s %r (and %d more paths) without naming it in the install log'
                          % (kind, miss[0], len(miss) - 1), path)
            if extra:
                self.viol('C11:A:log:extra', 'install log names %r which this run did not create' % extra[0], path)
        return State(obs, log, 0, path, None)

    def run_abort(self, init_tree, only=None):
        w = self.w
        self.init_tree = init_tree
        s0 = State(init_tree, None, 0, (), None)
        self.treekeys.add(tree_key(init_tree))
        # reference: the tree that one undisturbed install from the initial tree gives
        self.restore(s0)
        clean = self.step(s0, 'I', restore=False)
        if clean is None:
            return
        # directories that a rule names and that exist beforehand: "left in place", their mode afterwards is not specified
        unspec = {w.entry_rel(e) for e, _ in self.sel if e.kind == 'dir'}

        def rkey(t):
            return tuple(sorted((rel, v[0], None if (v[0] == 'dir' and rel in unspec) else v[1], sha(v[2]) if v[0] == 'file' else v[2])
                                for rel, v in t.items()))
        for fault in self.faults(init_tree):
            if only is not None and fault['id'] not in only:
                continue
            self.cur_fault = fault['id']
            self.res['faults'] += 1
            self.res['faults_' + fault['kind'].replace('-', '_')] += 1
            self.restore(s0)
            saved = self.apply_fault(fault)
            try:
                pre = snap_tree(w.treeroot)
                path = ('fault ' + fault['id'], 'I(stops)')
                sa = self.abort_step(pre, fault, path)
                if sa is None:
                    continue
                # history 1: stopped install -> uninstall == the tree from before the install
                su = self.step(sa, 'U', restore=False)
                self.res['traces'] += 1
                if su is not None:
                    self.res['abort_reversal_checks'] += 1
                    if rkey(su.tree) != rkey(pre):
                        self.viol('C11:AU:not-reversed', 'a stopped install followed by uninstall does not give back the pre-install tree: %s'
                                  % diff_text(pre, su.tree), su.path)
                # history 2: stopped install -> remove the obstacle -> install == an undisturbed install
                restore_tree(w.treeroot, sa.tree)
                if sa.log is not None:
                    with open(w.logpath, 'wb') as f:
                        f.write(sa.log)
                self.undo_fault(saved)
                saved = None
                fixed = snap_tree(w.treeroot)
                sf = self.step(State(fixed, sa.log, 0, sa.path + ('fix',), None), 'I', restore=False)
                self.res['traces'] += 1
                if sf is not None:
                    self.res['abort_reinstall_checks'] += 1
                    mine = {rel: v for rel, v in sf.tree.items() if rel not in pre}
                    ref = {rel: v for rel, v in clean.tree.items() if rel not in pre}
                    if tree_key(mine) != tree_key(ref):
                        self.viol('C11:AI:differs-from-clean-install', 'stopped install, obstacle removed, install again differs from an undisturbed '
                                  'install: %s' % diff_text(ref, mine), sf.path)
            finally:
                if saved is not None:
                    self.undo_fault(saved)
                self.cur_fault = None
        self.res['states'] += len(self.treekeys)

    def restore(self, st):
        w = self.w
        restore_tree(w.treeroot, st.tree)
        if st.log is None:
            if os.path.exists(w.logpath):
                os.unlink(w.logpath)
        else:
            with open(w.logpath, 'wb') as f:
                f.write(st.log)
        w.set_version(st.v)

    def step(self, st, act, restore=True):
        """Run one action from state st; returns the successor State (or None after a harness-level failure)."""
        from verif import mesonproc as mp
        w = self.w
        if restore:
            self.restore(st)
        v = st.v
        path = st.path + (act,)
        if act == 'F':
            # not a command: a foreign file appears in the deepest directory that the install created
            newdirs = sorted((r for r, x in st.tree.items() if x[0] == 'dir' and r != '.' and r not in self.init_tree),
                             key=lambda r: (-r.count('/'), r))
            if not newdirs:
                return st
            rel = newdirs[0] + '/foreign-later.txt'
            p = os.path.join(w.treeroot, rel)
            with open(p, 'wb') as f:
                f.write(b'dropped after the install\n')
            os.chmod(p, 0o600)
            now = snap_tree(w.treeroot)
            origin = None
            if st.origin is not None:
                origin = dict(st.origin)
                parts = rel.split('/')
                for i in range(0, len(parts) + 1):
                    k = '/'.join(parts[:i]) or '.'
                    origin[k] = now[k]
            return State(now, st.log, v, path, origin)
        if act == 'C':
            v += 1
            w.set_version(v)
        before_out = snap_outside(w.root, w.treeroot)
        T = st.tree
        stale = set(stale_bits(w, self.sel, T)) if act == 'C' else None
        if act == 'U':
            r = mp.run_meson(['--internal', 'uninstall'], w.b, w.env(), pre=SANDBOX)
        else:
            extra = {'I': (), 'C': ('--only-changed',), 'D': ('--dry-run',)}[act]
            r = mp.run_meson(w.install_argv(self.tags, self.skip, extra), w.b, w.env(), pre=SANDBOX)
        self.res['transitions'] += 1
        obs = snap_tree(w.treeroot)
        after_out = snap_outside(w.root, w.treeroot)
        log = open(w.logpath, 'rb').read() if os.path.exists(w.logpath) else None
        self.treekeys.add(tree_key(obs))
        if r.rc != 0:
            m = re.search(r"Read-only file system: '([^']*)'", r.out)
            if m:
                self.viol('C11:%s:escape-attempt' % act, 'the command tried to write %r, which is outside DESTDIR and outside the scratch root '
                          '(refused by the read-only sandbox)' % m.group(1), path)
            else:
                k = 'C11:%s:command-failed' % act
                if act in ('I', 'C') and 'FileExistsError' in r.out:
                    # classifier: the tree held a dangling symlink at the destination of an entry of the model
                    dang = [rel for rel in (w.entry_rel(e) for e, _ in self.sel if e.kind != 'dir')
                            if T.get(rel, ('',))[0] == 'link' and resolve_alias(T, rel) not in T]
                    if dang:
                        k += ':dangling-symlink-at-destination'
                # classifier: a rule installs a tree that holds a symlink to a directory
                dl = sorted({e.dirlink for e, _ in self.sel if e.dirlink})
                if dl:
                    how = 'is-a-directory-error' if 'IsADirectoryError' in r.out else \
                        'refuses-existing-directory' if 'but a directory of that name already exists' in r.out else 'other'
                    k += ':subdir-symlink-to-directory:%s:%s:%s' % ('+'.join(dl), how,
                         'over-earlier-install' if any(w.entry_rel(e) in T for e, _ in self.sel if e.dirlink) else 'fresh')
                self.viol(k, 'command exited %d: %s' % (r.rc, r.out[-400:]), path)
            return None
        # -- confinement: nothing outside the DESTDIR tree changes except the install log ----------------------
        allowed = {w.logrel} if act != 'U' else set()
        for rel in sorted(set(before_out) | set(after_out)):
            if before_out.get(rel) != after_out.get(rel) and rel not in allowed:
                self.viol('C11:%s:outside:%s' % (act, classify_outside(rel)),
                          '%r outside the DESTDIR tree changed: %r -> %r' % (rel, before_out.get(rel), after_out.get(rel)), path)
                break
        origin = None
        if act == 'D':
            self.res['dry_runs'] += 1
            if tree_key(obs) != tree_key(T):
                self.viol('C11:D:tree-changed', '--dry-run changed the DESTDIR tree: %s' % diff_text(T, obs), path)
            origin = None
        elif act in ('I', 'C'):
            exp, skipped = predict_install(w, T, self.sel)
            self.res['skipped_unspecified'] += skipped + self.tag_unspec
            problems = compare_tree(w, obs, exp, act)
            for key, text, ent in problems.first(6):
                self.viol(key, text, path, entry=ent)
            self.res['tree_compares'] += 1
            self.res['entries_compared'] += len(exp)
            # coverage: directories with a declared mode that were there before the install / that another rule installs into
            rels = [(w.entry_rel(e), e) for e, _ in self.sel]
            for rel, e in rels:
                x = exp.get(rel)
                if e.kind == 'dir' and e.mode is not None and x is not None and x.entry is e and x.mode is not M.UNSPEC:
                    self.res['declared_dir_modes_compared'] += 1
                    if rel in T and T[rel][0] == 'dir':
                        self.res['declared_dir_preexisting'] += 1
                    if any(r2.startswith(rel + '/') or (r2 == rel and e2 is not e) for r2, e2 in rels):
                        self.res['declared_dir_shared'] += 1
            # -- install twice == install once (all fields, also those the docs leave open) ----------------------
            if act == 'I' and T and all((not must) or w.entry_rel(e) in T for e, must in self.sel) and self.sel and \
                    not stale_bits(w, self.sel, T) and st.path and st.path[-1] in ('I', 'C'):
                self.res['idempotence_checks'] += 1
                if tree_key(obs) != tree_key(T):
                    self.viol('C11:I:not-idempotent', 'installing again changed the tree: %s' % diff_text(T, obs), path)
            # -- the log names exactly what was created ------------------------------------------------------------
            pl = parse_log(w)
            if pl is None:
                self.viol('C11:%s:log:absent' % act, 'no install log was written', path)
            else:
                inside, outside, comments = pl
                if outside:
                    self.viol('C11:%s:log:outside-path' % act, 'log names a path outside DESTDIR: %r' % outside[0], path)
                want, maybe = set(), set()
                for e, must in self.sel:
                    rel = w.entry_rel(e)
                    if e.kind == 'dir':
                        continue
                    if rel not in obs:
                        continue
                    if act == 'C' and e.oc_unspec:
                        maybe.add(rel)
                        continue
                    if act == 'C' and e.kind == 'file' and rel in T and rel not in stale:
                        continue        # not older than its source: preserved, hence not (re)created
                    (want if must else maybe).add(rel)
                for rel, x in obs.items():
                    if x[0] == 'dir' and rel not in T:
                        want.add(rel)
                got = set(inside)
                self.res['log_checks'] += 1
                miss = sorted(want - got)
                extra = sorted(got - want - maybe)
                if miss:
                    kind = obs[miss[0]][0]
                    self.viol('C11:%s:log:missing-%s' % (act, kind), 'created %s %r is not in the install log' % (kind, miss[0]), path)
                if extra:
                    self.viol('C11:%s:log:extra' % act, 'install log names %r which this run did not create' % extra[0], path)
                if act == 'C' and any(c.startswith('# Preserving') for c in comments):
                    self.res['only_changed_preserved'] += 1
            if not any(rel in T for rel in (w.entry_rel(e) for e, _ in self.sel)):
                origin = dict(T)
        else:   # U
            self.res['uninstalls'] += 1
            pl_before = norm_log(st.log)
            logged = []
            if st.log is not None:
                for line in st.log.decode('utf-8', 'surrogateescape').splitlines():
                    if line.startswith('#') or not line:
                        continue
                    p = os.path.normpath(line)
                    if p == w.treeroot:
                        logged.append('.')
                    elif p.startswith(w.treeroot + '/'):
                        logged.append(os.path.relpath(p, w.treeroot))
            expT = predict_uninstall(T, logged)
            step_ok = True
            if tree_key(obs) != tree_key(expT):
                step_ok = False
                d = diff_text(expT, obs)
                left = [r for r in obs if r not in expT]
                gone = [r for r in expT if r not in obs]
                k = 'leftover' if left else ('removed-unlisted' if gone else 'modified')
                if left and not gone:
                    # classifier: everything left behind is (or contains) a logged name that begins / ends with white space
                    edge = [r for r in left if os.path.basename(r) != os.path.basename(r).strip()]
                    if edge and all(any(r == e or e.startswith(r + '/') or r == '.' for e in edge) for r in left):
                        k = 'leftover:name-with-edge-whitespace'
                self.viol('C11:U:%s' % k, 'uninstall did not remove exactly what the log names: %s' % d, path)
            if norm_log(log) != pl_before:
                self.viol('C11:U:log-changed', 'uninstall rewrote the install log', path)
            # end to end: install from a tree without any of the model's paths, then uninstall == that tree
            if st.origin is not None and step_ok:
                self.res['reversal_checks'] += 1
                if tree_key(obs) != tree_key(st.origin):
                    self.viol('C11:U:not-reversed', 'install followed by uninstall does not give back the pre-install tree: %s'
                              % diff_text(st.origin, obs), path)
            elif st.log is not None and st.path and any(a in ('I', 'C') for a in st.path):
                self.res['skipped_unspecified'] += 1     # uninstall after the log was rewritten by a later run
        return State(obs, log, v, path, origin)

    # -- linear history ----------------------------------------------------------------------------------------
    def run_seq(self, init_tree, acts):
        self.init_tree = init_tree
        st = State(init_tree, None, 0, (), None)
        self.restore(st)
        self.treekeys.add(tree_key(init_tree))
        for a in acts:
            nxt = self.step(st, a, restore=False)
            if nxt is None:
                break
            st = nxt
        self.res['traces'] += 1
        self.res['states'] += len(self.treekeys)
        return st

    # -- explicit-state search ---------------------------------------------------------------------------------
    def run_bfs(self, init_tree, depth):
        w = self.w
        self.init_tree = init_tree
        s0 = State(init_tree, None, 0, (), None)
        self.treekeys.add(tree_key(init_tree))

        def key(s):
            return (tree_key(s.tree), norm_log(s.log), s.v, stale_bits_for(s))

        def stale_bits_for(s):
            w.set_version(s.v)
            return stale_bits(w, self.sel, s.tree)
        seen = {key(s0): s0}
        dq = deque([(s0, 0)])
        product_states = 1
        last = s0
        while dq:
            s, d = dq.popleft()
            if d >= depth:
                continue
            for a in ACTS:
                nxt = self.step(s, a)
                if nxt is None:
                    continue
                self.res['traces'] += 1 if d + 1 == depth else 0
                k = key(nxt)
                if k not in seen:
                    seen[k] = nxt
                    product_states += 1
                    dq.append((nxt, d + 1))
                    last = nxt
        self.res['product_states'] += product_states
        self.res['states'] += len(self.treekeys)
        self.res['sample_history'] = {'history': list(last.path), 'tree_entries_at_end': len(last.tree),
                                      'log_lines_at_end': len(norm_log(last.log) or ())}
        # snapshot/restore faithfulness: replay the path of the last discovered state from scratch, no restores
        if last.path:
            self.res['replays'] += 1
            sub = Runner(w, self.tags, self.skip, {k: ([] if k == 'viol' else 0) for k in self.res if k != 'sample_history'})
            end = sub.run_seq(init_tree, last.path)
            w.set_version(end.v)
            k2 = (tree_key(end.tree), norm_log(end.log), end.v, stale_bits(w, self.sel, end.tree))
            if k2 != key(last):
                self.res['internal'] = 'state reached by restore differs from the state reached by replaying %s' % (last.path,)
            self.res['transitions'] += sub.res['transitions']


def diff_text(a, b):
    ka = {x[0]: x for x in tree_key_any(a)}
    kb = {x[0]: x for x in tree_key_any(b)}
    out = []
    for rel in sorted(set(ka) | set(kb)):
        if ka.get(rel) != kb.get(rel):
            out.append('%r: %s -> %s' % (rel, fmt_ent(ka.get(rel)), fmt_ent(kb.get(rel))))
    return '; '.join(out[:6]) + (' ...' if len(out) > 6 else '')


def tree_key_any(t):
    out = []
    for rel, v in t.items():
        val = v[2]
        if v[0] == 'file' and isinstance(val, bytes):
            val = sha(val)
        out.append((rel, v[0], v[1], val))
    return sorted(out)


def fmt_ent(x):
    if x is None:
        return 'absent'
    return '%s %o %s' % (x[1], x[2], x[3] if x[3] is not None else '')


# ------------------------------------------------------------------------------------------------------------
def check_plan(w, res):
    """intro-install_plan.json / intro-installed.json against the model."""
    try:
        plan = json.load(open(os.path.join(w.b, 'meson-info', 'intro-install_plan.json'), encoding='utf-8'))
        inst = json.load(open(os.path.join(w.b, 'meson-info', 'intro-installed.json'), encoding='utf-8'))
    except (OSError, ValueError) as e:
        res['viol'].append(('C11:plan:unreadable', 'install plan not readable: %s' % e, {'job': w.job}))
        return

    plan_dirs = dict(PLAN_DIRS)
    if w.dirs is not None:
        plan_dirs.update({k: v for k, v in w.dirs.items() if k in PLAN_DIRS})
        plan_dirs.update(libdir_shared=w.dirs['libdir'], libdir_static=w.dirs['libdir'], mandir=w.dirs['datadir'] + '/man')

    def jobrep(rule):
        if rule is not None and rule.guess is not None and not w.job['guess'].get('only'):
            return {'job': dict(w.job, guess=dict(w.job['guess'], only=[rule.guess]))}
        return {'job': w.job}

    def resolve(dest):
        if dest.startswith('{'):
            name, rest = dest[1:].split('}', 1)
            if name == 'prefix':
                return w.prefix + rest
            if name not in plan_dirs:
                return None
            return w.prefix.rstrip('/') + '/' + plan_dirs[name] + rest
        if dest.startswith('/'):
            return dest
        return w.prefix.rstrip('/') + '/' + dest
    want = {}
    rule_of = {}
    for r in w.proj.rules:
        for section, src, where, tag in r.plan:
            rule_of[(section, w.srcpath(src))] = r
    for section, src, where, tag in w.proj.plan:
        want[(section, w.srcpath(src))] = (M.syspath(where, w.prefix), tag)
    got = {}
    for section, d in plan.items():
        for k, ent in d.items():
            got[(section, k)] = ent
    for k, (dest, tag) in want.items():
        res['plan_entries'] += 1
        ent = got.get(k)
        if ent is None:
            res['viol'].append(('C11:plan:missing:' + k[0], 'install plan lacks %s %r' % k, {'job': w.job}))
            continue
        rd = resolve(ent.get('destination', ''))
        if rd is None:
            res['skipped_unspecified'] += 1
        elif os.path.normpath(rd) != os.path.normpath(dest):
            res['viol'].append(('C11:plan:destination:' + k[0], 'plan destination of %r is %r (= %r), the rules say %r' % (k[1], ent.get('destination'), rd, dest), {'job': w.job}))
        if isinstance(tag, frozenset):
            # no install_tag: the tag comes from the destination (Installing.md); several candidates = not specified which
            res['plan_guessed_tags'] += 1
            if len(tag) > 1:
                res['skipped_unspecified'] += 1
            if ent.get('tag') not in tag:
                rule = rule_of.get(k)
                res['viol'].append(('C11:plan:tag:' + (rule.rid if rule is not None else k[0]), 'plan tag of %r (no install_tag, destination %r) is %r, the '
                                    'documented tag rules say %s' % (k[1], ent.get('destination'), ent.get('tag'), ' or '.join(sorted(map(repr, tag), key=str))), jobrep(rule)))
        elif ent.get('tag') != tag:
            res['viol'].append(('C11:plan:tag:' + k[0], 'plan tag of %r is %r, the rules say %r' % (k[1], ent.get('tag'), tag), {'job': w.job}))
        # the documented companion file: build-time path -> absolute system location
        if k[1] in inst:
            if os.path.normpath(inst[k[1]]) != os.path.normpath(dest):
                res['viol'].append(('C11:installed-map:' + k[0], 'intro-installed maps %r to %r, the rules say %r' % (k[1], inst[k[1]], dest), {'job': w.job}))
        else:
            res['viol'].append(('C11:installed-map:missing:' + k[0], 'intro-installed lacks %r' % k[1], {'job': w.job}))
    for k in got:
        if k not in want:
            res['viol'].append(('C11:plan:extra:' + k[0], 'install plan lists %s %r which no rule installs' % k, {'job': w.job}))


# ------------------------------------------------------------------------------------------------------------
# strace slice: every mutating path-taking syscall of a cold `meson install`
MUT_CALLS = {'mkdir', 'mkdirat', 'rmdir', 'unlink', 'unlinkat', 'rename', 'renameat', 'renameat2', 'symlink', 'symlinkat',
             'link', 'linkat', 'chmod', 'fchmodat', 'fchmodat2', 'chown', 'lchown', 'fchownat', 'utime', 'utimes', 'utimensat',
             'futimesat', 'truncate', 'mknod', 'mknodat', 'creat', 'setxattr', 'lsetxattr', 'removexattr', 'lremovexattr'}
STR_RE = re.compile(r'"((?:[^"\\]|\\.)*)"')
FD_RE = re.compile(r'(AT_FDCWD|\d+)<((?:[^<>\\]|\\.)*)>')


def unescape(s):
    return s.encode('latin-1', 'backslashreplace').decode('unicode_escape').encode('latin-1').decode('utf-8', 'surrogateescape')


def strace_install(w, tags, skip, res):
    tdir = os.path.join(os.path.dirname(w.root), 'trace.%d' % os.getpid())
    shutil.rmtree(tdir, ignore_errors=True)
    os.makedirs(tdir)
    restore_tree(w.treeroot, {})
    if os.path.exists(w.logpath):
        os.unlink(w.logpath)
    w.set_version(0)
    cmd = []
    if SANDBOX is not None:
        cmd = ['unshare', '-m', '--propagation', 'private', 'sh', '-c', 'mount -o remount,bind,ro / && exec "$@"', 'sh']
    cmd += ['strace', '-ff', '-y', '-s', '4096', '-e', 'trace=%file,chdir,fchdir', '-o', os.path.join(tdir, 't'),
           '/venv/bin/python', '-X', 'utf8', os.path.join(REPO, 'meson.py')] + w.install_argv(tags, skip)
    r = subprocess.run(cmd, cwd=w.b, env=w.env(), stdin=subprocess.DEVNULL, stdout=subprocess.PIPE, stderr=subprocess.STDOUT)
    res['strace_runs'] += 1
    if r.returncode != 0:
        res['viol'].append(('C11:strace:command-failed', 'install under strace exited %d: %s' % (r.returncode, r.stdout[-300:]), {'job': w.job, 'tags': tags, 'skip': skip, 'history': ['I'], 'strace': True}))
        return
    allowed_root = w.treeroot
    log_real = os.path.realpath(w.logpath)
    nmut = 0
    for fn in sorted(os.listdir(tdir)):
        cwd = w.b
        fdmap = {}
        with open(os.path.join(tdir, fn), encoding='utf-8', errors='surrogateescape') as f:
            for line in f:
                m = re.match(r'(\w+)\((.*)\)\s+= (-?\d+|\?)(.*)$', line.rstrip('\n'))
                if not m:
                    continue
                call, args, ret, tail = m.groups()
                if ret.startswith('-') or ret == '?':
                    continue
                if call == 'chdir':
                    s = STR_RE.search(args)
                    if s:
                        cwd = os.path.normpath(os.path.join(cwd, unescape(s.group(1))))
                    continue
                if call == 'fchdir':
                    fm = FD_RE.search(args)
                    if fm:
                        cwd = unescape(fm.group(2))
                    continue
                paths = []
                if call in ('open', 'openat', 'openat2'):
                    rm0 = re.match(r'<((?:[^<>\\]|\\.)*)>', tail)
                    if rm0:
                        fdmap[ret] = unescape(rm0.group(1))
                    if not re.search(r'O_WRONLY|O_RDWR|O_CREAT|O_TRUNC|O_APPEND', args):
                        continue
                    rm = re.match(r'<((?:[^<>\\]|\\.)*)>', tail)
                    if rm:
                        paths.append(unescape(rm.group(1)))
                    else:
                        s = STR_RE.search(args)
                        paths.append(os.path.join(cwd, unescape(s.group(1))) if s else '?')
                elif call in MUT_CALLS:
                    strs = [unescape(x) for x in STR_RE.findall(args)]
                    fds = FD_RE.findall(args)
                    if call in ('symlink', 'symlinkat'):
                        strs = strs[1:]          # first string is the link content, not a path that is written
                    # rename / link: both names count (one is removed or referenced, the other created)
                    dirbase = unescape(fds[0][1]) if fds else cwd
                    for s in strs:
                        pm = re.match(r'/proc/self/fd/(\d+)$', s)
                        if pm and pm.group(1) in fdmap:
                            s = fdmap[pm.group(1)]      # glibc's fchmodat(AT_SYMLINK_NOFOLLOW): O_PATH fd + /proc/self/fd/N
                        paths.append(s if s.startswith('/') else os.path.join(dirbase, s))
                else:
                    continue
                for p in paths:
                    nmut += 1
                    rp = os.path.normpath(p)
                    ok = rp == allowed_root or rp.startswith(allowed_root + '/') or os.path.realpath(rp) == log_real or rp in ('/dev/null', '/dev/tty')
                    if not ok:
                        inside = rp.startswith(w.root + '/')
                        res['viol'].append(('C11:strace:%s:%s' % (call, classify_outside(os.path.relpath(rp, w.root)) if inside else 'outside-scratch'),
                                            'syscall %s mutates %r which is neither below DESTDIR nor the install log' % (call, rp),
                                            {'job': w.job, 'tags': tags, 'skip': skip, 'history': ['I'], 'strace': True}))
                        break
    res['strace_mutations'] += nmut
    shutil.rmtree(tdir, ignore_errors=True)


# ------------------------------------------------------------------------------------------------------------
COUNTERS = ('transitions', 'states', 'product_states', 'traces', 'tree_compares', 'entries_compared', 'log_checks', 'dry_runs',
            'uninstalls', 'reversal_checks', 'idempotence_checks', 'only_changed_preserved', 'skipped_unspecified', 'replays',
            'plan_entries', 'strace_runs', 'strace_mutations', 'setups', 'built',
            'declared_dir_modes_compared', 'declared_dir_preexisting', 'declared_dir_shared', 'dir_mode_conflicts', 'rev1_installs',
            'faults', 'faults_dst_is_dir', 'faults_dst_is_file', 'faults_parent_is_file', 'faults_src_gone', 'aborts', 'aborts_after_mkdir',
            'abort_created_paths', 'abort_log_checks', 'abort_reversal_checks', 'abort_reinstall_checks', 'fault_replaced',
            'plan_guessed_tags', 'guess_rules', 'guess_entries', 'guess_entries_one_tag', 'guess_entries_untagged', 'guess_entries_open',
            'guess_runs', 'guess_cells', 'guess_cells_must', 'guess_cells_left_out', 'guess_cells_open', 'guess_lookalike_left_out',
            'guess_standard_dir_must', 'rejected_at_setup')


def count_guess_cells(w, rn_, res):
    """Coverage of the implicit-tag family: one cell = (entry without install_tag, --tags selection of the run)."""
    ents = [e for e in w.proj.entries if e.cands is not None]
    if res['guess_entries'] == 0:
        res['guess_rules'] = len({id(e.rule) for e in ents})
        res['guess_entries'] = len(ents)
        res['guess_entries_one_tag'] = sum(1 for e in ents if len(e.cands) == 1 and None not in e.cands)
        res['guess_entries_untagged'] = sum(1 for e in ents if e.cands == frozenset([None]))
        res['guess_entries_open'] = sum(1 for e in ents if len(e.cands) > 1)
    res['guess_runs'] += 1
    if not rn_.tags:
        return
    must = {id(e): m for e, m in rn_.sel}
    dir_tags = ('runtime', 'devel', 'i18n', 'tests', 'systemtap')
    for e in ents:
        res['guess_cells'] += 1
        m = must.get(id(e))
        if m is None:
            res['guess_cells_left_out'] += 1
            # an untagged entry while a tag that destinations can give is selected: the look-alike directories live here
            if e.cands == frozenset([None]) and rn_.tags[0] in dir_tags:
                res['guess_lookalike_left_out'] += 1
        elif m:
            res['guess_cells_must'] += 1
            if rn_.tags[0] in dir_tags:
                res['guess_standard_dir_must'] += 1
        else:
            res['guess_cells_open'] += 1


def run_job(job):
    res = {k: 0 for k in COUNTERS}
    res.update({'viol': [], 'internal': None, 'id': job['id'], 'family': job['family'], 'wall': 0.0, 'sample_history': None})
    t0 = time.time()
    root = os.path.join(scratch_root(), 'c11.%d' % os.getpid(), 'w')
    rev1_tree = None
    if any(run.get('init', job['init']) == 'rev1' for run in job['runs']):
        # install history across revisions: revision 1 of the project is the same rules without any install_mode; it is set up,
        # installed into the (empty) DESTDIR and compared like every other install, the tree it leaves is the pre-state of revision 2
        j1 = dict(job, rules=[[r[0], r[1], 'unset'] for r in job['rules']], init='absent')
        w1 = World(j1, root)
        err = w1.create()
        if err:
            res['internal'] = 'job %s (revision 1): %s' % (job['id'], err)
            return res
        r1 = Runner(w1, None, None, res)
        st1 = r1.run_seq({}, ['I'])
        if st1.path != ('I',):
            shutil.rmtree(root, ignore_errors=True)
            return res          # (the failed install of revision 1 is reported)
        rev1_tree = st1.tree
        res['rev1_installs'] += 1
        res['setups'] += 1
    w = World(job, root)
    err = w.create()
    w.rev1_tree = rev1_tree
    res['setups'] += 1
    res['built'] = 1 if w.proj.needs_c else 0
    if err and w.proj.may_reject and err.startswith('setup failed') and 'ERROR:' in err and 'Traceback' not in err:
        res['rejected_at_setup'] = 1      # the build definition is refused: nothing gets installed, nothing to compare
        shutil.rmtree(root, ignore_errors=True)
        return res
    if err:
        res['internal'] = 'job %s: %s' % (job['id'], err)
        return res
    check_plan(w, res)
    for run in job['runs']:
        tags, skip, hist = run['tags'], run['skip'], run['hist']
        rn_ = Runner(w, tags, skip, res)
        init = w.initial_tree(run.get('init', job['init']))
        if 'init' in run:
            rn_.init_kind = run['init']
        if job['family'] == 'G':
            count_guess_cells(w, rn_, res)
        if hist[0] == 'seq':
            rn_.run_seq(init, hist[1])
        elif hist[0] == 'abort':
            rn_.run_abort(init, hist[1])
        else:
            rn_.run_bfs(init, hist[1])
        if run.get('strace'):
            strace_install(w, tags, skip, res)
    shutil.rmtree(root, ignore_errors=True)
    res['dir_mode_conflicts'] = w.mode_conflicts
    res['wall'] = time.time() - t0
    return res


# ------------------------------------------------------------------------------------------------------------
# enumeration of the job families
OA9 = [(a, b, (a + b) % 3, (a + 2 * b) % 3) for a in range(3) for b in range(3)]    # strength-2 orthogonal array, 4 factors x 3 levels

LINEAR = ['D', 'I', 'U', 'I', 'I', 'C']
LINEAR_PREPOP = ['D', 'I', 'F', 'U', 'I', 'I', 'C']


def mkjob(jid, family, rules, umask, prefix, destdir, mech, init, runs, with_sub=False, sub_style='plain', guess=None):
    j = {'id': jid, 'family': family, 'rules': [list(r) for r in rules], 'umask': umask, 'prefix': prefix, 'destdir': destdir,
         'mech': mech, 'init': init, 'runs': runs, 'with_sub': with_sub, 'sub_style': sub_style}
    if guess is not None:
        j['guess'] = guess
    return j


def run_spec(tags, skip, hist, strace=False, init=None):
    r = {'tags': tags, 'skip': skip, 'hist': hist, 'strace': strace}
    if init is not None:
        r['init'] = init        # DESTDIR pre-state of this run (default: the job's)
    return r


def tag_choices(universe):
    """none; every single tag (and one that no rule carries); every pair."""
    out = [None]
    for t in universe + ['nosuch']:
        out.append([t])
    for a, b in itertools.combinations(universe, 2):
        out.append([a, b])
    out.append([universe[0], 'nosuch'])
    return out


FILTER_PROJECTS = [
    (['data_default', 'data_rename', 'headers_default', 'man_plain', 'subdir_excl', 'emptydir', 'symlink_abs'], ['custom', 'devel', 'man', 'doc']),
    (['exe', 'shlib', 'stlib', 'custom2', 'headers_subdir', 'symlink_rel'], ['runtime', 'devel', 'custom']),
]
SKIPS = [None, '*', 'sp', 'other']
# family A (installs that cannot complete): multi-rule projects that together hold every rule variant, so that an obstacle
# can be put at every entry of every kind of rule while other rules have already created (or still have to create) things
ABORT_PROJECTS = [FILTER_PROJECTS[0][0], FILTER_PROJECTS[1][0],
                  ['data_abs', 'headers_preserve', 'man_locale', 'subdir_plain', 'subdir_strip', 'subdir_nofollow']]
# --tags rotation of the pair family: none (3 of 7), one tag, two tags
P_TAGS = [None, ['devel'], None, ['runtime', 'custom'], ['custom'], None, ['devel', 'man']]


def jobs_for(ck):
    jobs = []
    R = M.RULE_IDS
    n = 0
    seed = ck.seed

    def row_job(fam, rules_ids, row, idx, hist, prefix=None, with_sub=False, strace=False, tags=None, skip=None, same_style=True):
        a, b, c, d = row
        rules = []
        for j, rid in enumerate(rules_ids):
            st = M.STYLES[(a + (0 if same_style else j)) % 3]
            md = M.MODES[(b + j) % 3]
            rules.append((rid, st, md))
        pf = prefix if prefix is not None else (idx % 2)
        init = 'prepop' if (idx // 2) % 2 else 'absent'
        mech = 'flag' if (idx // 4) % 2 else 'env'
        h = hist
        if h == 'linear':
            h = ('seq', LINEAR_PREPOP if init == 'prepop' else LINEAR)
        return mkjob('%s-%d' % (fam, idx), fam, rules, M.UMASKS[c], pf, M.DESTDIRS[d], mech, init,
                     [run_spec(tags, skip, h, strace)], with_sub=with_sub, sub_style=M.STYLES[(a + 1) % 3])

    # family S: every single rule x (thorough: full product of style x mode x umask x prefix x DESTDIR kind;
    #           quick: the 9 rows of a pairwise-covering orthogonal array over style, mode, umask, DESTDIR kind)
    idx = 0
    for rid in R:
        if ck.thorough:
            for a, b, c, d, p in itertools.product(range(3), range(3), range(3), range(3), range(2)):
                jobs.append(row_job('S', [rid], (a, b, c, d), idx, 'linear', prefix=p,
                                    strace=(a, b, c) == (idx % 3, 0, 0) and p == 0))
                idx += 1
        else:
            for row in OA9:
                jobs.append(row_job('S', [rid], row, idx, 'linear'))
                idx += 1
    # family P: every unordered pair of rules (thorough: x 9 OA rows; quick: one row, rotating)
    idx = 0
    for i, (r1, r2) in enumerate(itertools.combinations(R, 2)):
        rows = OA9 if ck.thorough else [OA9[(i + seed) % 9]]
        for row in rows:
            jobs.append(row_job('P', [r1, r2], row, idx, 'linear', same_style=(i % 2 == 0), with_sub=(i % 5 == 0),
                                skip=('sp' if i % 10 == 0 else None), tags=P_TAGS[(i + idx) % len(P_TAGS)]))
            idx += 1
    # family T (thorough): every rule triple, one rotating row
    if ck.thorough:
        for i, tr in enumerate(itertools.combinations(R, 3)):
            jobs.append(row_job('T', list(tr), OA9[(i + seed) % 9], i, 'linear', same_style=(i % 2 == 0)))
    # family H: explicit-state search over histories, depth <= 3
    idx = 0
    for i, rid in enumerate(R):
        rows = OA9 if ck.thorough else [OA9[(i + seed) % 9]]
        for row in rows:
            jobs.append(row_job('H', [rid], row, idx + i, ('bfs', 3)))
            idx += 1
    pairs = list(itertools.combinations(R, 2))
    hp = pairs if ck.thorough else [pairs[k] for k in range(seed % 7, len(pairs), 7)]
    for i, (r1, r2) in enumerate(hp):
        jobs.append(row_job('H2', [r1, r2], OA9[(i * 2 + seed) % 9], i, ('bfs', 3)))
    # family F: --tags x --skip-subprojects on multi-rule projects with a subproject that installs files
    idx = 0
    for pi, (rids, universe) in enumerate(FILTER_PROJECTS):
        confs = list(itertools.product(range(3), range(2))) if ck.thorough else [((pi + seed) % 3, pi % 2), ((pi + seed + 1) % 3, (pi + 1) % 2)]
        for d, p in confs:
            for skip in SKIPS:
                rules = [(rid, M.STYLES[(k + d) % 3], M.MODES[k % 3]) for k, rid in enumerate(rids)]
                runs = [run_spec(t, skip, ('seq', ['I', 'U']), strace=ck.thorough and t is None and skip is None) for t in tag_choices(universe)]
                jobs.append(mkjob('F-%d' % idx, 'F', rules, M.UMASKS[(idx + d) % 3], p, M.DESTDIRS[d], 'flag' if idx % 2 else 'env',
                                  'prepop' if idx % 2 else 'absent', runs, with_sub=True, sub_style=M.STYLES[(d + 2) % 3]))
                idx += 1
    # family A: every aborting situation (see Runner.faults) of each ABORT_PROJECT; quick: one configuration per project,
    # thorough: the 9 OA rows x both initial trees
    idx = 0
    for pi, rids in enumerate(ABORT_PROJECTS):
        if ck.thorough:
            confs = [(row, init) for row in OA9 for init in ('absent', 'prepop')]
        else:
            confs = [(OA9[(pi * 4 + seed) % 9], 'prepop' if (pi + seed) % 2 else 'absent')]
        for (a, b, c, d), init in confs:
            rules = [(rid, M.STYLES[(k + a) % 3], M.MODES[(k + b) % 3]) for k, rid in enumerate(rids)]
            jobs.append(mkjob('A-%d' % idx, 'A', rules, M.UMASKS[c], (idx + pi) % 2, M.DESTDIRS[d], 'flag' if (idx + pi) % 2 else 'env', init,
                              [run_spec(None, None, ('abort', None))], with_sub=(pi == 0), sub_style=M.STYLES[(a + 1) % 3]))
            idx += 1
    # family L: install_subdir() trees that hold a symlink to a DIRECTORY x follow_symlinks {unset, true, false}, linear history
    idx = 0
    for li, rid in enumerate(M.EXTRA_BUILDERS):
        rows = OA9 if ck.thorough else [OA9[(li * 3 + k * 4 + seed) % 9] for k in range(3)]
        for row in rows:
            jobs.append(row_job('L', [rid], row, idx, 'linear'))
            idx += 1
    # family N: the SHAPE of the name given to install_subdir() (one component, several, trailing slash, the last component
    # repeated earlier in the name, space / non-ASCII in a component that is not the last, called from a nested meson.build)
    # x strip_directory {unset, false, true} x {no exclusions, exclude lists with entries relative to the installed directory
    # and decoys relative to anything else}; quick: install_dir kind (relative / absolute) and the OA row rotate so that every
    # shape meets every name style and both kinds; thorough: x both kinds x 3 rows (all name styles)
    idx = cell = 0
    for si, shape in enumerate(M.NAME_SHAPES):
        for ti, strip in enumerate(M.NAME_STRIPS):
            for ei, excl in enumerate(M.NAME_EXCLS):
                kinds = M.NAME_DIRKINDS if ck.thorough else [M.NAME_DIRKINDS[(si + ti + ei) % 2]]
                for dk in kinds:
                    for k in range(3 if ck.thorough else 1):       # (+3 rows = the next name style)
                        jobs.append(row_job('N', [M.name_rule_id(shape, strip, excl, dk)], OA9[(cell * 4 + 3 * k + seed) % 9], idx, 'linear'))
                        idx += 1
                cell += 1
    # family Y: install_data() of a source that is a symlink x follow_symlinks {unset, true, false} x {same name, rename:} x
    # {target kept, target removed after `meson setup` (only with follow_symlinks: false - a link is copied as a link)}
    for i, cell in enumerate(M.LINK_CELLS):
        rows = OA9 if ck.thorough else [OA9[(i * 4 + seed) % 9]]
        for k, row in enumerate(rows):
            jobs.append(row_job('Y', [M.link_rule_id(*cell)], row, i * len(rows) + k, 'linear'))
    # family D: install_dir spelled with '..' x the kinds of rule that take an install_dir; the spellings that climb above the
    # root need a DESTDIR to be re-rooted under
    idx = 0
    for ki, kind in enumerate(M.DOTDOT_KINDS):
        for pi, sp in enumerate(M.DOTDOT_SPELLINGS):
            cand = [row for row in OA9 if row[3] != 2] if sp.endswith('above-root') else OA9
            rows = cand if ck.thorough else [cand[(ki * 4 + pi + seed) % len(cand)]]
            for row in rows:
                jobs.append(row_job('D', [M.dotdot_rule_id(kind, sp)], row, idx, 'linear'))
                idx += 1
    # family M: a directory shared by install_emptydir(P, install_mode: M) and another rule (c11model._r_shared): every cell of
    # {alone, data, headers, man, subdir, symlink, custom_target} x {P is the destination directory, an ancestor of it, the subdir
    # tree's own top} x declaration order, declared mode alternating between the two explicit modes; each from the three pre-states
    # {DESTDIR absent, declared directories exist with default permissions, the tree left by revision 1 without install_mode}
    # (quick: revision history for the first declaration order only); install, [uninstall, install,] install, [uninstall]
    for i, cell in enumerate(M.SHARED_CELLS):
        rows = OA9 if ck.thorough else [OA9[(i * 4 + seed) % 9]]
        for k, (a, b, c, d) in enumerate(rows):
            inits = ['absent', 'declared'] + (['rev1'] if (ck.thorough or cell[2] == 'dir-first') else [])
            # (uninstall straight after the first install from nothing: install + uninstall must give back the empty tree)
            runs = [run_spec(None, None, ('seq', ['I', 'U', 'I', 'I'] if x == 'absent' else ['I', 'I', 'U']), init=x) for x in inits]
            idx = i * len(rows) + k
            jobs.append(mkjob('M-%d' % idx, 'M', [(M.shared_rule_id(*cell), M.STYLES[a], M.MODES[1 + (i + k + b) % 2])], M.UMASKS[c], idx % 2,
                              M.DESTDIRS[d], 'flag' if (idx // 2) % 2 else 'env', 'absent', runs))
    # family G: the --tags clause for items WITHOUT install_tag, whose tag follows from the destination directory.  One project
    # per kind of rule that is tagged this way x directory layout; the project holds one rule per destination directory of
    # c11model.guess_bases x GUESS_MIDS (x file extension); it is installed with no --tags and with every single documented tag.
    idx = 0
    gtags = [None] + [[t] for t in M.DOC_TAGS] + [['nosuch']]
    for kind in M.GUESS_KINDS:
        for di in range(len(M.DIRSETS)):
            rows = [OA9[(idx + seed + 3 * k) % 9] for k in range(3 if ck.thorough else 1)]
            for a, b, c, d in rows:
                runs = [run_spec(t, None, ('seq', ['I', 'U'])) for t in gtags]
                jobs.append(mkjob('G-%d' % idx, 'G', [('guess:' + kind, M.STYLES[a], 'unset')], M.UMASKS[c], idx % 2, M.DESTDIRS[d],
                                  'flag' if (idx // 2) % 2 else 'env', 'prepop' if (idx // 3) % 2 else 'absent', runs,
                                  guess={'dirset': di, 'only': None}))
                idx += 1
    return jobs


def job_cost(j):
    c = 400 if j['family'] == 'G' else 0
    for r in j['runs']:
        c += 50 if r['hist'][0] == 'bfs' else 100 if r['hist'][0] == 'abort' else len(r['hist'][1])
        c += 8 if r.get('strace') else 0
    return c + 3


# ------------------------------------------------------------------------------------------------------------
def replay_job(d):
    job = dict(d['job'])
    hist = d.get('history') or ['I']
    if d.get('strace'):
        hist = []
    job['runs'] = [run_spec(d.get('tags'), d.get('skip'), ('seq', list(hist)), strace=bool(d.get('strace')))]
    if d.get('fault'):
        job['runs'] = [run_spec(d.get('tags'), d.get('skip'), ('abort', [d['fault']]))]
    job['id'] = 'replay-' + str(job['id'])
    return job


def replay(ck):
    d = json.load(open(ck.args.replay))
    job = replay_job(d)
    hist = job['runs'][0]['hist'][1] if not d.get('fault') else d.get('history')
    from verif import mesonproc as mp
    mp.preimport()
    probe_sandbox()
    print('replaying job %s: rules=%s umask=%s prefix=%s destdir=%s/%s init=%s tags=%s skip=%s history=%s' % (
        job['id'], job['rules'], job['umask'], M.PREFIXES[job['prefix']], job['destdir'], job['mech'], job['init'],
        d.get('tags'), d.get('skip'), hist))
    w = World(job, os.path.join(scratch_root(), 'replay'))
    print('--- meson.build ---')
    print(w.proj.files['meson.build'][0])
    res = run_job(job)
    if res['internal']:
        print('INTERNAL:', res['internal'])
        sys.exit(2)
    print('recorded : [%s] %s' % (d.get('key'), d.get('what')))
    same = [v for v in res['viol'] if v[0] == d.get('key')]
    for key, text, _ in res['viol']:
        print('observed : [%s] %s' % (key, text))
    if not res['viol']:
        print('observed : every step matches the reference install model')
    sys.exit(1 if same or res['viol'] else 0)


def full_g(ck):
    return ck.n_viol == 0 and (not ck.args.only or 'G' in ck.args.only.split(','))


def main():
    ck = Check('C11', 'model_checking')
    if ck.args.replay:
        return replay(ck)
    from verif import mesonproc as mp
    mp.preimport()
    if not probe_sandbox():
        ck.assume('NO SANDBOX: a private read-only mount namespace could not be set up; an escaping write would land on the host')
    jobs = jobs_for(ck)
    if ck.args.only:
        jobs = [j for j in jobs if j['family'] in ck.args.only.split(',')]
    order = sorted(range(len(jobs)), key=lambda i: -job_cost(jobs[i]))    # longest first for packing; results keyed by id
    results = {}
    for res in pmap(run_job, [jobs[i] for i in order], chunksize=1):
        results[res['id']] = res
    tot = {k: 0 for k in COUNTERS}
    fam = {}
    internal = []
    keys_seen = set()
    rule_sets = {1: set(), 2: set(), 3: set()}
    for j in jobs:       # report in enumeration order: simplest first
        res = results[j['id']]
        if res['internal']:
            internal.append(res['internal'])
            continue
        for k in COUNTERS:
            tot[k] += res[k]
        f = fam.setdefault(j['family'], {'jobs': 0, 'transitions': 0})
        f['jobs'] += 1
        f['transitions'] += res['transitions']
        nr = len(j['rules'])
        if nr in rule_sets and j['family'] in ('S', 'P', 'T'):
            rule_sets[nr].add(tuple(r[0] for r in j['rules']))
        viol = res['viol']
        if j['family'] == 'G':
            # what `meson install --tags` did (the clause itself) before what the install plan says about the same tags
            viol = [v for v in viol if not v[0].startswith('C11:plan:')] + [v for v in viol if v[0].startswith('C11:plan:')]
        for key, text, rep in viol:
            is_new = key not in keys_seen
            keys_seen.add(key)
            fresh = ck.violation(key, '%s [%s]: %s' % (j['id'], ' + '.join('%s/%s/%s' % tuple(r) for r in j['rules']), text), rep)
            if fresh and is_new:
                # a verdict must be reproducible: re-execute the recorded history from scratch before trusting it
                again = run_job(replay_job(rep))
                if again['internal'] or key not in [v[0] for v in again['viol']]:
                    ck.internal('violation %s of %s did not reproduce when its history was replayed from scratch (%s)'
                                % (key, j['id'], again['internal'] or [v[0] for v in again['viol']]))
        if j['family'] == 'A':
            ck.sample({'job': j['id'], 'rules': j['rules'], 'umask': j['umask'], 'prefix': M.PREFIXES[j['prefix']], 'destdir': j['destdir'],
                       'mechanism': j['mech'], 'initial_tree': j['init'], 'aborting_situations': res['faults'], 'installs_that_stopped': res['aborts'],
                       'stopped_after_creating_directories': res['aborts_after_mkdir'], 'transitions': res['transitions'],
                       'histories': 'obstacle, install (stops), uninstall | obstacle, install (stops), obstacle removed, install'}, cap=9)
        if j['family'] == 'G':
            ck.sample({'job': j['id'], 'rule_kind': j['rules'][0][0], 'name_style': j['rules'][0][1], 'directory_options': M.DIRSETS[j['guess']['dirset']],
                       'prefix': M.PREFIXES[j['prefix']], 'destdir': j['destdir'], 'umask': j['umask'], 'initial_tree': j['init'],
                       'rules_without_install_tag': res['guess_rules'], 'entries': res['guess_entries'], 'tag_selections': [r['tags'] for r in j['runs']],
                       'cells_entry_x_tag': res['guess_cells'], 'cells_must_be_installed': res['guess_cells_must'],
                       'cells_must_be_left_out': res['guess_cells_left_out'], 'cells_tag_not_specified': res['guess_cells_open']}, cap=12)
        if j['family'] in ('H', 'F') and res['transitions'] > 20:
            ck.sample({'job': j['id'], 'rules': j['rules'], 'umask': j['umask'], 'prefix': M.PREFIXES[j['prefix']], 'destdir': j['destdir'],
                       'mechanism': j['mech'], 'initial_tree': j['init'], 'tags': j['runs'][0]['tags'], 'skip_subprojects': j['runs'][0]['skip'],
                       'transitions': res['transitions'], 'tree_states': res['states'], 'product_states': res['product_states'],
                       'last_discovered_state': res['sample_history'] or {'history': j['runs'][0]['hist'][1]}}, cap=6)
    if ck.args.only:
        print('debug: jobs=%d sum(job wall)=%.1fs max=%.1fs elapsed=%.1fs' % (len(jobs), sum(r['wall'] for r in results.values()),
              max(r['wall'] for r in results.values()), time.time() - ck.t0), {k: v for k, v in tot.items() if v})
    if internal:
        ck.internal('%d jobs failed in the harness, first: %s' % (len(internal), internal[0]))
    for name, f in sorted(fam.items()):
        ck.part('family_' + name, **f)

    ck.part('aborted_installs', **{k: tot[k] for k in COUNTERS if k.startswith(('fault', 'abort'))})
    ck.part('implicit_tags', kinds_of_rule=len(M.GUESS_KINDS), directory_layouts=len(M.DIRSETS),
            destination_directories=[len(M.guess_bases(ds, '', '/usr')) * len(M.GUESS_MIDS) for ds in M.DIRSETS],
            tag_selections=len(M.DOC_TAGS) + 2, **{k: tot[k] for k in COUNTERS if k.startswith('guess_') or k == 'plan_guessed_tags'})
    if 'G' in fam:
        ck.require(not full_g(ck) or fam['G']['jobs'] >= len(M.GUESS_KINDS) * len(M.DIRSETS), 'a kind of rule x directory layout of the implicit-tag family is missing')
        ck.require(not full_g(ck) or (tot['guess_cells_must'] > 500 and tot['guess_standard_dir_must'] > 500 and tot['guess_lookalike_left_out'] > 2000
                                      and tot['guess_entries_one_tag'] > 200 and tot['guess_entries_untagged'] > 1000 and tot['plan_guessed_tags'] > 1000),
                   'implicit install tags: standard directories / look-alike directories were not exercised under --tags')
    covered = set(r for rids in ABORT_PROJECTS for r in rids)
    ck.require(covered == set(M.RULE_IDS), 'ABORT_PROJECTS do not hold every rule variant: %s' % sorted(set(M.RULE_IDS) - covered))
    full = not ck.args.only and ck.n_viol == 0      # anti-vacuity applies to clean runs; a verdict is never turned into exit 2
    ck.require(not full or tot['tree_compares'] > 100 and tot['log_checks'] > 100, 'too few install steps compared')
    ck.require(not full or tot['reversal_checks'] > 20 and tot['idempotence_checks'] > 20 and tot['dry_runs'] > 20, 'reversal / idempotence / dry-run never exercised')
    ck.require(not full or tot['only_changed_preserved'] > 5, '--only-changed never preserved a file')
    ck.require(not full or tot['built'] > 5, 'no built targets installed')
    ck.require(not full or (tot['aborts'] > 50 and tot['aborts_after_mkdir'] > 25 and tot['abort_log_checks'] > 50),
               'installs that stop part-way after having created directories were not exercised')
    ck.require(not full or (tot['abort_reversal_checks'] > 50 and tot['abort_reinstall_checks'] > 50), 'stopped install -> uninstall / -> reinstall never compared')
    ck.require(not full or all(tot[k] > 3 for k in ('faults_dst_is_dir', 'faults_dst_is_file', 'faults_parent_is_file', 'faults_src_gone')),
               'a kind of aborting situation is missing')
    ck.require(not full or tot['plan_entries'] > 50, 'install plan never compared')
    ck.part('symlinked_directories', rule_variants=sorted(M.EXTRA_BUILDERS), **fam.get('L', {}))
    ck.require(not full or fam.get('L', {}).get('transitions', 0) >= 2 * len(M.EXTRA_BUILDERS), 'install_subdir trees with a symlink to a directory were not installed')
    ncells, nstyles, nkinds, n_multi_kept, n_compares = set(), set(), set(), 0, 0
    for j in jobs:
        if j['family'] == 'N' and not results[j['id']]['internal']:
            _, shape, strip, excl, dk = j['rules'][0][0].split(':')
            ncells.add((shape, strip, excl))
            nstyles.add((shape, j['rules'][0][1]))
            nkinds.add((shape, dk))
            n_compares += results[j['id']]['tree_compares']
            if shape in M.MULTI_SHAPES and strip != 'strip-true':
                n_multi_kept += 1
    ck.part('subdir_name_shapes', shapes=list(M.NAME_SHAPES), strip_directory=list(M.NAME_STRIPS), exclude_lists=list(M.NAME_EXCLS),
            install_dir_kinds=list(M.NAME_DIRKINDS), cells_shape_x_strip_x_exclude=len(ncells), shape_x_name_style=len(nstyles),
            shape_x_install_dir_kind=len(nkinds), jobs_name_of_several_components_kept_unstripped=n_multi_kept,
            install_steps_compared=n_compares, **fam.get('N', {}))
    full_n = ck.n_viol == 0 and (not ck.args.only or 'N' in ck.args.only.split(','))
    ck.require(not full_n or (len(ncells) == len(M.NAME_SHAPES) * len(M.NAME_STRIPS) * len(M.NAME_EXCLS)
                              and len(nstyles) == len(M.NAME_SHAPES) * len(M.STYLES) and len(nkinds) == len(M.NAME_SHAPES) * len(M.NAME_DIRKINDS)),
               'install_subdir name shapes: a cell of shape x strip_directory x exclude lists, a shape x name style or a shape x install_dir kind is missing')
    ck.require(not full_n or (n_multi_kept >= 2 * len(M.MULTI_SHAPES) and n_compares >= 3 * len(ncells)),
               'install_subdir with a name of several components and strip_directory false was not installed and compared')
    cmp_of = {}
    for j in jobs:
        if not results[j['id']]['internal']:
            c = cmp_of.setdefault(j['family'], {'install_steps_compared': 0, 'rejected_at_setup': 0})
            c['install_steps_compared'] += results[j['id']]['tree_compares']
            c['rejected_at_setup'] += results[j['id']]['rejected_at_setup']
    ck.part('symlink_sources_of_install_data', cells_follow_x_rename_x_target=['/'.join(c) for c in M.LINK_CELLS],
            install_steps_compared=cmp_of.get('Y', {}).get('install_steps_compared', 0), **fam.get('Y', {}))
    ck.part('install_dir_with_dotdot', kinds_of_rule=list(M.DOTDOT_KINDS), spellings=list(M.DOTDOT_SPELLINGS), **cmp_of.get('D', {}), **fam.get('D', {}))
    for f, ncell in (('Y', len(M.LINK_CELLS)), ('D', len(M.DOTDOT_KINDS) * len(M.DOTDOT_SPELLINGS))):
        if not ck.args.only or f in ck.args.only.split(','):
            c = cmp_of.get(f, {'install_steps_compared': 0, 'rejected_at_setup': 0})
            ck.require(fam.get(f, {}).get('jobs', 0) >= ncell and c['install_steps_compared'] + c['rejected_at_setup'] >= ncell,
                       'family %s: a cell is missing or nothing was installed and compared' % f)
    mcells, minits = set(), set()
    for j in jobs:
        if j['family'] == 'M' and not results[j['id']]['internal']:
            mcells.add(j['rules'][0][0])
            minits.update((j['rules'][0][0].split(':')[1], r['init']) for r in j['runs'])
    ck.part('shared_directories', other_rule_kinds=list(M.SHARED_KINDS), cells_kind_x_place_x_declaration_order=len(mcells),
            kind_x_prestate=len(minits), prestates=['absent', 'declared (the rule directories exist, default permissions)',
                                                    'rev1 (tree left by the same project without install_mode)'],
            revision1_installs=tot['rev1_installs'], declared_dir_modes_compared=tot['declared_dir_modes_compared'],
            of_these_directory_existed_before_the_install=tot['declared_dir_preexisting'],
            of_these_another_rule_installs_into_it=tot['declared_dir_shared'],
            two_rules_declare_different_modes_skipped=tot['dir_mode_conflicts'], **cmp_of.get('M', {}), **fam.get('M', {}))
    full_m = ck.n_viol == 0 and (not ck.args.only or 'M' in ck.args.only.split(','))
    ck.require(not full_m or (len(mcells) == len(M.SHARED_CELLS) and len(minits) == 3 * len(M.SHARED_KINDS)),
               'shared directories: a cell of rule kind x place x declaration order, or a rule kind x DESTDIR pre-state, is missing')
    ck.require(not full_m or (tot['declared_dir_shared'] >= 4 * (len(M.SHARED_CELLS) - 1) and tot['declared_dir_preexisting'] >= 4 * len(M.SHARED_CELLS)
                              and tot['rev1_installs'] >= len(M.SHARED_KINDS)),
               'shared directories: the declared mode of a directory that another rule installs into / that existed before the install was not compared')
    if ck.thorough and full:
        ck.require(tot['strace_runs'] > 10 and tot['strace_mutations'] > 100, 'strace slice did not observe mutations')
    ck.assume('the reference install model (lib/verif/c11model.py) is my transcription of Installing.md, the install_* reference pages, '
              'Builtin-options.md (install_umask, directory defaults) and IDE-integration.md (install plan)')
    ck.assume('installed targets are really built (gcc/ar/sh) from the generated build.ninja by the refninja executor; `meson install` is '
              'always run with --no-rebuild because ninja is not installed')
    ck.assume('unspecified (never compared, counted in skipped_unspecified): mode of implied parent directories; mode of directories under '
              'install_umask=preserve; mode of a rule directory WITHOUT a declared install_mode that existed before the install; the mode of a '
              'directory for which two rules declare different modes; tags of shared-library alias symlinks; '
              'content of the log written by --dry-run; whether a symlink copied as a link is re-created by --only-changed; what uninstall '
              'leaves after the log was rewritten by a later install / dry-run (only "removes exactly what the log names" is checked there); '
              'absence of install_emptydir / install_symlink from the install plan; implicit tags: an item in sbindir (the tag list names '
              'bindir only), an install_emptydir directory inside a tagged directory ("this directory has no install tag" vs "files installed '
              'into"), a destination to which two rules of the tag list apply with different tags (bin/installed-tests, lib/systemtap/x.so): '
              'any of the documented candidates is accepted; install_subdir trees hold only files with an extension no tag rule mentions')
    ck.assume('implicit install tags: "installed into <dir>" of Installing.md is read as path containment (the directory or one below it, also '
              'when spelled as an absolute path below the prefix); "installed-tests / systemtap subdir" as a directory component of that name '
              'anywhere above the item')
    ck.assume('install_subdir name shapes: a trailing "/" on the subdir name names the same directory (POSIX pathname resolution), its last '
              'component is the one before the slash; exclude entries that lead nowhere when read relative to the installed directory exclude '
              'nothing ("Names are interpreted as paths relative to the subdir_name location"); a directory whose only file is excluded is '
              'still installed (empty)')
    ck.assume('install_dir with ".." components: the directory meant is the lexical normalisation of the path (share/q/../r = share/r; '
              '/opt/../../x = /x, re-rooted DESTDIR/x); whether the directory named before a ".." is created on the way is not specified '
              '(optional, but if created it must be logged); a build definition refused at setup counts as rejected and is not compared; '
              'what a FOLLOWED symlink source whose target vanished after setup installs is not specified (not generated)')
    ck.assume('a directory for which exactly one rule declares an install_mode (install_emptydir) carries that mode after every install, '
              'also when another rule of the same install, an earlier install or anything else created it first: "with the declared '
              'install_mode" of the property; the install_mode of the other rules is documented as the mode "for the installed files"')
    ck.assume('runs as root: chown to uid/gid 0 is a no-op and setuid bits survive chmod')
    for k in COUNTERS:
        if k not in ('states', 'transitions'):
            ck.cov[k] = tot[k]
    ck.finish(states=tot['states'], transitions=tot['transitions'], traces_validated_against_impl=tot['traces'],
              rule='rule sets: every single rule variant of %d (x %s), every unordered pair (x %s)%s; histories: explicit-state search to '
                   'depth 3 over {install, touch+install --only-changed, install --dry-run, uninstall} from every single rule and %s pairs, '
                   'the linear history dry-run, install, install, [foreign file], uninstall everywhere else; --tags (none, each single tag, '
                   'each pair) x --skip-subprojects (unset, all, sp, other) on %d multi-rule projects with an installing subproject; installs that '
                   'cannot complete: on 3 multi-rule projects that together hold every rule variant, every entry of the model x {a directory '
                   'where the file/link goes, a file where the directory/link goes, a file where the implied parent directory goes, the source '
                   'or build product gone} -> install (must stop; partial tree within the plan; log names all it created) -> uninstall == '
                   'pre-install tree, and -> obstacle removed -> install == undisturbed install; implicit tags: every kind of rule that is tagged '
                   'from its destination (install_data, install_subdir, install_emptydir, install_symlink, configure_file, custom_target with one / a '
                   'list of install_dir) WITHOUT install_tag x 2 directory layouts x every destination directory of {standard directories, look-alike '
                   'siblings, parents, namesakes elsewhere, absolute spellings inside and outside the prefix} x {itself, sub-directory, installed-tests, '
                   'systemtap and look-alikes of these} x file extensions, installed with no --tags and with each single documented tag; install_subdir trees holding a symlink to a directory x '
                   'follow_symlinks {unset, true, false} through the linear history; install_subdir name shapes: %d shapes of the name (one component, '
                   'several, trailing slash, last component repeated, space/non-ASCII in a non-last component, call in a nested meson.build) x '
                   'strip_directory {unset, false, true} x {no exclusions, exclude lists relative to the installed directory with decoys} x install_dir '
                   '{relative, absolute}%s through the linear history; install_data of a symlink x follow_symlinks {unset, true, false} x {same name, '
                   'rename} x {target kept, target removed after setup (follow false)}; install_dir with .. components {inside the tree, climbing '
                   'above the root} x {relative, absolute} x {install_data, install_subdir, install_emptydir, install_symlink}; shared directories: '
                   'install_emptydir(P, install_mode) x {alone, install_data, install_headers, install_man, install_subdir, install_symlink, custom_target} '
                   'installing into P / below P / (subdir) as P x both declaration orders x DESTDIR pre-state {absent, rule directories exist with '
                   'default permissions, tree left by revision 1 without install_mode}, install, install, uninstall. states = '
                   'distinct DESTDIR trees per run, transitions = install/uninstall commands executed, every one compared with the model'
                   % (len(M.RULE_IDS),
                      'style x mode x umask x prefix x DESTDIR kind = 162 configurations' if ck.thorough else 'the 9 rows of a pairwise-covering orthogonal array over name style, install_mode, install_umask, DESTDIR kind; prefix / initial tree / DESTDIR mechanism alternate with the index',
                      '9 rows' if ck.thorough else '1 rotating row',
                      ', every triple (x 1 rotating row)' if ck.thorough else '',
                      'all' if ck.thorough else 'every 7th of the', len(FILTER_PROJECTS), len(M.NAME_SHAPES),
                      ' x 3 name styles' if ck.thorough else ' (kind and OA row rotating: every shape meets every name style and both kinds)'),
              exhaustive=True, rule_sets_size1=len(rule_sets[1]), rule_sets_size2=len(rule_sets[2]), rule_sets_size3=len(rule_sets[3]), jobs=len(jobs),
              distinct_violation_keys=len(keys_seen))


run_main(main)
