# C14 - template substitution replaces exactly the placeholders and nothing else (Tier A: in-process).
# Bounded exhaustive: every template made of <= 3 (quick) / <= 4 (thorough) fragments of a 32-fragment alphabet
# (de-duplicated on the resulting text) x 100 data sets (A, B each bound to one of 10 values) x formats
# {meson, cmake, cmake@}, the real do_conf_str executed on every element.  Four oracles:
#  (1) marker differential (meson format): the output for real values must equal the output obtained with inert
#      private-use marker values after textual replacement of the markers  => values are never scanned again and
#      are rendered independently of their content; error-ness and the missing set are value independent;
#  (2) reference scanner written from Configuration.md / configure_file.yaml, calibrated on the pinned
#      expectations config6.h.in<->prog6.c (meson escapes) and config7/config10 + the pinned do_conf_str unit
#      expectations (cmake): decides the structure line by line; everything undocumented is on UNSPEC and is
#      skipped and counted;
#  (3) metamorphic: templates without @ \ $ # are copied byte for byte (incl. CRLF); the reported missing set is
#      exactly the undefined names in placeholder position;
#  (4) dump_conf_header: exactly the keys, once each, sorted, documented rendering per type.
# Plus a file-level slice (do_conf_file on real files == do_conf_str on the same text, byte for byte).
# Family "names" (cmake formats): ${...} references whose NAME is computed from inner references in both spellings
# (${A_@B@}, ${A_${B}}, ${${B}}, ${@B@}, three deep, inner name undefined), and words in the value of a #cmakedefine; every
# sequence of <= 2 (quick) / <= 3 (thorough) fragments of a 20-fragment alphabet x 693 data sets in which, besides A and B, at
# most one of the names that can be composed is bound (so the composed name exists / does not exist / is not a name at all).
# Nesting is not described in Meson's own documentation; it is the documented behaviour of the format's home (cmake-language(7):
# "Variable references can nest and are evaluated from the inside out", configure_file(): @VAR@ and ${VAR} are both references),
# the reference implements that rule and - where a cmake(1) is installed - is compared with it line by line.
# Family "directive spelling" (cmake formats): every sequence of <= 3 (quick) / <= 4 (thorough) fragments of a 19-fragment alphabet of
# directives ('#cmakedefine A', '# cmakedefine A', '#<tab>cmakedefine01 A', ' #cmakedefine A', ' # cmakedefine A B', '#cmakedefine01 A'),
# longer words that begin with the keyword ('#cmakedefined A', '#cmakedefine01x A': ordinary text),
# blanks and tabs, value words (' @B@', ' ${B}', ' @U@', ' B', ' x'), line endings and filler x the 100 data sets x {cmake, cmake@}.
# Which white space the output keeps is not specified (CMake keeps it in '#  define VAR' and drops it in '/* #undef VAR */'), so lines
# whose directive is not in the documented spelling are compared as (define | undef, NAME, VALUE) + line ending.
# Family "value names" (meson format): values that mention names - bound (B), unbound (U, V), their own key - around '#mesondefine A/B' directives and
# plain uses of the same names in every order: every sequence of <= 4 (quick) / <= 5 (thorough) fragments of an 11-fragment alphabet x 45 data sets.
# The report of undefined names depends on the template's placeholder positions and the keys of the data only (reference + marker differential).
# A word that merely begins with a directive keyword ('#mesondefined A', '#cmakedefined A', '#cmakedefine01x A') is ordinary text (CMake agrees).
# Non-termination is judged by CPU time of the call (ITIMER_VIRTUAL), re-tried with a larger allowance and confirmed alone in the parent process.
import io, itertools, json, os, re, shutil, signal, string, sys, time
from verif.core import Check, pmap, run_main, scratch_root

from mesonbuild import mlog
from mesonbuild.build import ConfigurationData
from mesonbuild.mesonlib import MesonException
from mesonbuild.utils.universal import do_conf_str, do_conf_file, dump_conf_header

if hasattr(mlog, '_logger'):
    mlog._logger.log_disable_stdout = True      # '@VAR@ with a boolean' prints a deprecation per call

FRAGS = ['@A@', '@B@', '@U@', '@', '@@', '\\@', '\\\\', '\\\\\\', '\\@A\\@', '\\@A@', '@A b@', '${A}', '${U}', '${', '}', '$',
         '#mesondefine A', '#mesondefine U', ' # mesondefine A', '#mesondefine A B',
         '#cmakedefine A', '#cmakedefine01 A', '#cmakedefine A @B@', 'x', ' ', '\n', '\r\n',
         # non-ASCII "word" characters are not name characters: these are plain text in every format
         '@\u00e9@', '\\@\u00e9\\@',
         # the ${VAR} spelling in the value of a define: a placeholder in 'cmake', plain text in 'cmake@' (@ONLY)
         '#cmakedefine A ${B}',
         # characters str.splitlines() would break a line at, but which are not line endings of a text file: plain text everywhere,
         # also on the line of a define directive
         '\x0c', '\u2028']
VALUES = ['v', '', '@B@', '\\\\@B@', '${B}', 'x y', 10, 0, True, False]
DATASETS = [(a, b) for a in VALUES for b in VALUES]
FORMATS = ['meson', 'cmake', 'cmake@']
MA, MB = '\ue000', '\ue001'          # inert string markers (private use area)
IMA, IMB = 990001, 990002            # inert integer markers

NAME = frozenset(string.ascii_letters + string.digits + '_')
NAME_MESON = NAME | {'-'}

UNSPEC = {
    'meson:indented-mesondefine': 'whitespace before #mesondefine (is the indentation kept?) is not documented',
    'meson:spaced-mesondefine': '"# mesondefine" with whitespace after # is not documented',
    'meson:define-token': '#mesondefine whose token is not a plain identifier',
    'meson:cmakedefine-not-at-line-start': 'a cmakedefine keyword in a meson-format template other than the pinned "#cmakedefine ..." line (pinned: error)',
    'meson:bool-in-@VAR@': '@VAR@ with a boolean value is deprecated, rendering undocumented',
    'cmake:${-malformed': 'characters inside ${...} other than name characters, nested ${...} and @NAME@ references; a lone @; unterminated ${; empty ${}',
    'cmake:composed-name-invalid': 'a name composed from inner references that comes out empty or with characters that are not name characters '
                                   '(CMake looks any such name up; Meson rejects it with "invalid character")',
    'cmake:value-with-placeholder': 'values containing @ or $ in the cmake formats (the property restricts no-rescan to the meson format)',
    'cmake:cmakedefine-form': '#cmakedefine other than [blanks]#[blanks]cmakedefine[01] VAR and [blanks]#[blanks]cmakedefine VAR <words separated by single '
                              'blanks> (white space other than blanks and tabs around the directive, several blanks between the words, #cmakedefine01 with '
                              'words, a define keyword among the words, text after the name that is not separated from it)',
    'cmake:directive-white-space': 'which of the blanks / tabs before "#", between "#" and cmakedefine, around the name and at the end of the line are kept '
                                   '(CMake keeps them in a define and drops them in an undef comment): such lines are compared as (kind of line, name, value)',
    'cmake:mesondefine-not-at-line-start': 'a mesondefine keyword in a cmake-format template other than the pinned "#mesondefine ..." line (pinned: error)',
    'cmake:false-constant-string': 'strings that CMake treats as false constants (OFF, NO, FALSE, ...)',
    'define:empty-string-trailing-space': '"#define VAR " vs "#define VAR" for an empty string value: both accepted',
    'define:undef-comment-spelling': 'docs say "/* undef VAR */", the pinned unit expectation says "/* #undef VAR */": both accepted',
}
CMAKE_FALSE = {'0', 'OFF', 'NO', 'FALSE', 'N', 'IGNORE', 'NOTFOUND'}

K_RESCAN = 'C14:mesondefine-value-rescanned'
K_EOL_CRLF = 'C14:define-line-eol:crlf-to-lf'
K_EOL_EOF = 'C14:define-line-eol:newline-added-at-eof'
K_SWALLOW = 'C14:cmake:empty-value-swallows-next-placeholder'
K_ARGMISS = 'C14:cmake:cmakedefine-arg-undefined-not-reported'
K_HANG = 'C14:cmake:self-referential-value-never-terminates'
K_BARE = 'C14:cmake:cmakedefine-word-that-is-a-key-replaced'
# '#mesondefined VAR', '#cmakedefine01x VAR': a longer word that merely begins with the keyword is taken for the directive
K_KWPREFIX_MESON = 'C14:meson:mesondefine-keyword-prefix-of-longer-word'
K_KWPREFIX_CMAKE = 'C14:cmake:cmakedefine-keyword-prefix-of-longer-word'
K_KWNAME = 'C14:cmake:indented-hash-space-cmakedefine'     # '# cmakedefine VAR': the keyword is taken for the name of the variable
# Non-termination is judged by the CPU time the call itself burns, not by the wall clock: on a loaded machine a process can be kept off
# the CPU for seconds, which says nothing about the code under test (a real call takes ~10 us of CPU).  A call that exhausts the first
# allowance is only a suspect: the same single input is run again with a larger allowance in the same process, and once more, alone, in
# the parent process before anything is reported.  The wall-clock alarm is a backstop for a call that blocks without using the CPU.
HANG_CPU_S = 5             # CPU seconds (user time of this process) of the first attempt
HANG_CONFIRM_CPU_S = 10    # CPU seconds of a confirmation run of a single suspected input
HANG_WALL_S = 1200         # wall-clock backstop per call
HANG_CLASS_LIVE = False    # decided by probes in the parent: skip the (unspecified) self-referential class if it hangs
HSTATS = {'suspects': 0, 'cleared': 0, 'hangs': 0}     # per process: calls that exhausted the first allowance / that finished on the second attempt


class Hang(BaseException):
    pass


_ARMED = False


def _on_alarm(sig, frm):
    if _ARMED:             # a signal that was already on its way when the watchdog was taken down is not a verdict
        raise Hang()


signal.signal(signal.SIGALRM, _on_alarm)
signal.signal(signal.SIGVTALRM, _on_alarm)


def arm(cpu_s=None):
    global _ARMED
    _ARMED = True
    signal.alarm(HANG_WALL_S)
    signal.setitimer(signal.ITIMER_VIRTUAL, cpu_s or HANG_CPU_S)


def disarm():
    global _ARMED
    _ARMED = False
    signal.setitimer(signal.ITIMER_VIRTUAL, 0)
    signal.alarm(0)


def self_referential(text, fmt, a, b):
    """cmake formats, B's own value mentions @B@ behind its first character and B can be reached from the template."""
    return fmt != 'meson' and isinstance(b, str) and '@B@' in b[1:] and \
        ('B' in text or (isinstance(a, str) and 'B' in a and 'A' in text))


def split_lines(text):
    """Exactly what do_conf_file does: open(newline='').readlines()."""
    return io.StringIO(text, newline='').readlines()


def split_eol(line):
    if line.endswith('\r\n'):
        return line[:-2], '\r\n'
    if line.endswith('\n'):
        return line[:-1], '\n'
    return line, ''


# ---- reference scanners (from the docs + the comments/expectations of config6.h.in, config7.h.in) ------------------
def scan_meson(body):
    """Left-to-right scan of an ordinary meson-format line.
       config6.h.in: '@var@' is replaced; '\\@var\\@' is an escaped whole variable -> '@var@'; pairs of backslashes
       before '@' or '\\@' are replaced by single backslashes; an '@' that has a backslash before it never opens a
       variable ('we don't gobble \\@ prefixing some text'); backslashes elsewhere are ordinary text; scanning resumes
       after the closing '@' of a replaced variable (MESSAGE9: '@var1@var2@' -> 'foovar2@')."""
    segs, lit, tags = [], [], set()
    i, n = 0, len(body)
    while i < n:
        c = body[i]
        if c == '\\':
            j = i
            while j < n and body[j] == '\\':
                j += 1
            run = j - i
            if j < n and body[j] == '@':
                pairs, odd = divmod(run, 2)
                if pairs:
                    tags.add('esc-pairs')
                lit.append('\\' * pairs)
                if odd:
                    k = j + 1
                    while k < n and body[k] in NAME_MESON:
                        k += 1
                    if k > j + 1 and body[k:k + 2] == '\\@':
                        tags.add('esc-var')
                        lit.append('@' + body[j + 1:k] + '@')
                        i = k + 2
                        continue
                    tags.add('esc-at')
                    lit.append('\\@')
                else:
                    tags.add('esc-at')
                    lit.append('@')
                i = j + 1
                continue
            tags.add('bs-text')
            lit.append('\\' * run)
            i = j
            continue
        if c == '@':
            k = i + 1
            while k < n and body[k] in NAME_MESON:
                k += 1
            if k > i + 1 and k < n and body[k] == '@':
                if lit:
                    segs.append(('l', ''.join(lit)))
                    lit = []
                segs.append(('v', body[i + 1:k], body[i:k + 1]))
                tags.add('var')
                i = k + 1
                continue
            tags.add('at-text')
        lit.append(c)
        i += 1
    if lit:
        segs.append(('l', ''.join(lit)))
    return tuple(segs), tags


def parse_brace_ref(body, i, tags):
    """body[i:i+2] == '${'.  -> (name, end) | None.  name is a str (literal name) or a tuple of parts ('l', text) /
       ('v', name, source) when the name is itself built from references.  cmake-language(7), Variable References:
       "Variable references can nest and are evaluated from the inside out, e.g. ${outer_${inner_variable}_variable}";
       configure_file(): "substitutes variable values referenced as @VAR@ or ${VAR}" - both spellings are references, so
       both may stand inside a name (CMake 3.25 resolves ${FLAGS_@ARCH@} to the value of FLAGS_<value of ARCH>).
       Anything else inside the braces (other characters, a lone @, no closing brace, nothing at all) is malformed."""
    n = len(body)
    k = i + 2
    parts, lit = [], []
    while True:
        if k >= n:
            return None
        c = body[k]
        if c == '}':
            break
        if c in NAME:
            lit.append(c)
            k += 1
        elif c == '$' and body[k + 1:k + 2] == '{':
            r = parse_brace_ref(body, k, tags)
            if r is None:
                return None
            if lit:
                parts.append(('l', ''.join(lit)))
                lit = []
            parts.append(('v', r[0], body[k:r[1]]))
            tags.add('nested-dollar-name')
            k = r[1]
        elif c == '@':
            m = k + 1
            while m < n and body[m] in NAME:
                m += 1
            if not (m > k + 1 and m < n and body[m] == '@'):
                return None
            if lit:
                parts.append(('l', ''.join(lit)))
                lit = []
            parts.append(('v', body[k + 1:m], body[k:m + 1]))
            tags.add('nested-at-name')
            k = m + 1
        else:
            return None
    if lit:
        parts.append(('l', ''.join(lit)))
    if not parts:
        return None
    if len(parts) == 1 and parts[0][0] == 'l':
        return parts[0][1], k + 1
    return tuple(parts), k + 1


def scan_cmake(body, at_only):
    """configure_file.yaml: cmake -> ${variable}; cmake@ -> @variable@; config7/config10 pin that the cmake format
       replaces @var@ as well, that backslashes never escape, and that '@var1\\@' is left alone."""
    segs, lit, tags = [], [], set()
    i, n = 0, len(body)
    while i < n:
        c = body[i]
        if c == '@':
            k = i + 1
            while k < n and body[k] in NAME:
                k += 1
            if k > i + 1 and k < n and body[k] == '@':
                if lit:
                    segs.append(('l', ''.join(lit)))
                    lit = []
                segs.append(('v', body[i + 1:k], body[i:k + 1]))
                tags.add('var')
                i = k + 1
                continue
            tags.add('at-text')
        elif c == '$' and not at_only and body[i + 1:i + 2] == '{':
            r = parse_brace_ref(body, i, tags)
            if r is None:
                return None, {'unspec'}
            if lit:
                segs.append(('l', ''.join(lit)))
                lit = []
            segs.append(('v', r[0], body[i:r[1]]))
            tags.add('dollar-var')
            i = r[1]
            continue
        elif c == '\\':
            tags.add('bs-text')
        lit.append(c)
        i += 1
    if lit:
        segs.append(('l', ''.join(lit)))
    return tuple(segs), tags


_IDENT = re.compile(r'[A-Za-z0-9_]+\Z')
_CMAKEDEF = re.compile(r'#cmakedefine(01)? ([A-Za-z0-9_]+)(?: (\S+(?: \S+)*))?\Z')
# cmake-configure_file(): "input lines of the form #cmakedefine VAR ..."; the directive of the format's home is '#', blanks or tabs,
# 'cmakedefine' / 'cmakedefine01', blanks or tabs, the name (cmMakefile::ConfigureString: "#([ \t]*)cmakedefine[ \t]+([A-Za-z_0-9]*)"), and
# Meson announces 'whitespace between `#` and `cmakedefine`' as a feature of 1.9.0.  Groups: indentation, gap, 01, name, words, trailing blanks.
_CMAKEDEF_SPELLED = re.compile(r'([ \t]*)#([ \t]*)cmakedefine(01)?[ \t]+([A-Za-z0-9_]+)(?:[ \t]+(\S+(?: \S+)*))?([ \t]*)\Z')
_TRIPLE_DEFINE = re.compile(r'[ \t]*#[ \t]*define[ \t]+([A-Za-z0-9_]+)(?:[ \t]+(.*?))?[ \t]*\Z', re.S)
_TRIPLE_UNDEF = re.compile(r'[ \t]*/\*[ \t]*#?[ \t]*undef[ \t]+([A-Za-z0-9_]+)[ \t]*\*/[ \t]*\Z')


def define_triple(body):
    """What a rendered define line says, whatever its white space: ('define', NAME, VALUE) | ('undef', NAME, None) | ('other', body, None)."""
    m = _TRIPLE_DEFINE.match(body)
    if m:
        return ('define', m.group(1), m.group(2) or '')
    m = _TRIPLE_UNDEF.match(body)
    if m:
        return ('undef', m.group(1), None)
    return ('other', body, None)


def norm_line(line, spelled):
    """The comparable form of an output line: the line itself where the spelling is documented, (triple, line ending) where it is not."""
    if not spelled:
        return line
    body, eol = split_eol(line)
    return (define_triple(body), eol)

# The documented placeholders are the lines '#mesondefine TOKEN' (Configuration.md) / '#cmakedefine VAR ...', '#cmakedefine01 VAR' (CMake's
# configure_file(): '#', blanks, the keyword, blanks, the name).  A word that merely begins with the keyword ('#mesondefined', '#cmakedefine01x',
# '#cmakedefines') is another word: such a line is ordinary text (its @VAR@ / ${VAR} are still placeholders).
_LONGER_MESON = re.compile(r'#mesondefine[A-Za-z0-9_]')
_LONGER_CMAKE = re.compile(r'[ \t]*#[ \t]*cmakedefine(?!01(?:[ \t]|\Z))[A-Za-z0-9_]')
_DIRECTIVE_OUTPUT = re.compile(r'[ \t]*(#[ \t]*define[ \t\r\n]|#[ \t]*undef[ \t]|/\*[ \t]*#?[ \t]*undef[ \t])')
_SPEC_CACHE = {}


def analyse(line, fmt):
    """-> ('plain', segs, eol, tags) | ('define', variant, name, arg segs, eol, tags, arg text, spelled) | ('error', tags) | ('unspec', reason)
       spelled: the directive is not written in the documented spelling (white space): its output is compared as a triple."""
    key = (line, fmt)
    r = _SPEC_CACHE.get(key)
    if r is None:
        if len(_SPEC_CACHE) > 300000:
            _SPEC_CACHE.clear()
        r = _SPEC_CACHE[key] = _analyse(line, fmt)
    return r


def _eoltags(eol):
    return {'crlf'} if eol == '\r\n' else ({'noeol'} if eol == '' else set())


def _analyse(line, fmt):
    body, eol = split_eol(line)
    if fmt == 'meson':
        longer = _LONGER_MESON.match(body) is not None
        if body.startswith('#mesondefine') and not longer:
            toks = body.split()
            if toks[0] != '#mesondefine':
                return ('unspec', 'meson:define-token')
            if len(toks) != 2:
                return ('error', frozenset({'error-mesondefine-tokens'}))     # pinned: '#mesondefine VAR xxx' raises
            if not _IDENT.match(toks[1]):
                return ('unspec', 'meson:define-token')
            return ('define', 'meson', toks[1], None, eol, frozenset({'define'} | _eoltags(eol)), None, False)
        if 'cmakedefine' in body:
            if body.lstrip().startswith('#cmakedefine'):
                return ('error', frozenset({'error-wrong-format'}))           # pinned: '#cmakedefine VAR' in meson raises
            return ('unspec', 'meson:cmakedefine-not-at-line-start')
        if 'mesondefine' in body and not longer:
            if body.lstrip().startswith('#mesondefine'):
                return ('unspec', 'meson:indented-mesondefine')
            if re.match(r'\s*#\s+mesondefine', body):
                return ('unspec', 'meson:spaced-mesondefine')
            # anything else before the keyword: not "a line like #mesondefine TOKEN" -> ordinary text
        segs, tags = scan_meson(body)
        if longer:
            tags.add('keyword-in-longer-word')
        return ('plain', segs, eol, frozenset(tags | _eoltags(eol)))
    at_only = fmt == 'cmake@'
    longer = 'cmakedefine' in body and _LONGER_CMAKE.match(body) is not None
    ms = _CMAKEDEF_SPELLED.match(body) if 'cmakedefine' in body and not longer else None
    if ms or (body.startswith('#cmakedefine') and not longer):
        m = _CMAKEDEF.match(body)
        stags = set()
        if m:
            is01, name, rest = m.group(1), m.group(2), m.group(3)
        elif ms:
            is01, name, rest = ms.group(3), ms.group(4), ms.group(5)
            stags = {t for t, g in (('define-indented', ms.group(1)), ('define-hash-gap', ms.group(2))) if g} or {'define-blanks'}
        if not (m or ms) or (is01 and rest):
            return ('unspec', 'cmake:cmakedefine-form')
        arg, atags = None, set()
        if rest:
            if 'cmakedefine' in rest or 'mesondefine' in rest:
                return ('unspec', 'cmake:cmakedefine-form')
            # @ONLY: "restrict variable replacement to references of the form @VAR@"
            arg, atags = scan_cmake(rest, at_only)
            if arg is None:
                return ('unspec', 'cmake:${-malformed')
            atags = {'define-arg'} | {'define-arg-' + t for t in atags if t.startswith('nested')}
            if len(arg) > 1 or arg[0][0] == 'l':
                atags.add('define-arg-words')
        variant = 'cmake01' if is01 else 'cmake'
        return ('define', variant, name, arg, eol, frozenset({variant + '-define'} | atags | stags | _eoltags(eol)), rest, bool(stags))
    if 'mesondefine' in body:
        if body.lstrip().startswith('#mesondefine'):
            return ('error', frozenset({'error-wrong-format'}))               # pinned: '#mesondefine VAR' in cmake raises
        return ('unspec', 'cmake:mesondefine-not-at-line-start')
    if 'cmakedefine' in body and not longer:
        s = body.lstrip()
        if s.startswith('#') and s[1:].lstrip().startswith('cmakedefine'):
            return ('unspec', 'cmake:cmakedefine-form')
        # mid-line keyword: ordinary text
    segs, tags = scan_cmake(body, at_only)
    if segs is None:
        return ('unspec', 'cmake:${-malformed')
    if longer:
        tags.add('keyword-in-longer-word')
    return ('plain', segs, eol, frozenset(tags | _eoltags(eol)))


def render_value(v, fmt):
    """Documented rendering of a value in placeholder position; (None, reason) if unspecified."""
    if isinstance(v, bool):
        if fmt == 'meson':
            return None, 'meson:bool-in-@VAR@'
        return ('1' if v else '0'), None       # pinned: '#cmakedefine VAR ${VAR}' with True -> '#define VAR 1'
    if isinstance(v, int):
        return str(v), None
    if fmt != 'meson' and ('@' in v or '$' in v):
        return None, 'cmake:value-with-placeholder'
    return v, None


NSTAT = {}          # per-process counters of the reference about composed names (flushed into the shard accumulator)


def _nstat(k):
    NSTAT[k] = NSTAT.get(k, 0) + 1


def resolve_name(name, fmt, data, missing):
    """A composed name is evaluated from the inside out: every inner reference is replaced by its (documented) rendering,
       an undefined inner name by nothing (and is reported).  -> (name | None, unspec_reason)"""
    if isinstance(name, str):
        return name, None
    out = []
    for p in name:
        if p[0] == 'l':
            out.append(p[1])
        else:
            r, why = lookup(p[1], fmt, data, missing)
            if r is None:
                return None, why
            out.append(r)
    s = ''.join(out)
    if not s or any(c not in NAME for c in s):
        _nstat('composed_name_invalid')
        return None, 'cmake:composed-name-invalid'
    _nstat('composed_name_defined' if s in data else 'composed_name_undefined')
    return s, None


def lookup(name, fmt, data, missing):
    """-> (rendering of the value the name denotes | None, unspec_reason); undefined: '' and the name is added to missing."""
    n, why = resolve_name(name, fmt, data, missing)
    if n is None:
        return None, why
    if n in data:
        return render_value(data[n], fmt)
    missing.add(n)
    return '', None


def render_plain(segs, fmt, data):
    """-> (text | None, missing, unspec_reason)"""
    out, missing = [], set()
    for s in segs:
        if s[0] == 'l':
            out.append(s[1])
            continue
        r, why = lookup(s[1], fmt, data, missing)
        if r is None:
            return None, missing, why
        out.append(r)
    return ''.join(out), missing, None


def render_define(spec, fmt, data):
    """-> (list of acceptable bodies | None, names expected in the missing set, unspec_reason)"""
    _, variant, name, arg, eol = spec[:5]
    if variant == 'meson':
        if name not in data:
            return ['/* #undef %s */' % name, '/* undef %s */' % name], set(), None
        v = data[name]
        if v is True:
            return ['#define %s' % name], set(), None
        if v is False:
            return ['#undef %s' % name], set(), None
        if isinstance(v, int):
            return ['#define %s %d' % (name, v)], set(), None
        if v == '':
            return ['#define %s' % name, '#define %s ' % name], set(), None
        return ['#define %s %s' % (name, v)], set(), None
    v = data.get(name)
    if isinstance(v, str) and (v.upper() in CMAKE_FALSE or v.upper().endswith('-NOTFOUND')):
        return None, set(), 'cmake:false-constant-string'
    truthy = bool(v)
    if variant == 'cmake01':
        return ['#define %s %d' % (name, 1 if truthy else 0)], set(), None
    if not truthy:
        return ['/* #undef %s */' % name, '/* undef %s */' % name], set(), None
    if arg is None:
        return ['#define %s' % name], set(), None
    # configure_file(): 'The "..." content on the line after the variable name, if any, is processed as above'
    r, miss, why = render_plain(arg, fmt, data)
    if r is None:
        return None, set(), why
    if r == '':
        return ['#define %s' % name, '#define %s ' % name], miss, None
    return ['#define %s %s' % (name, r)], miss, None


def render_loose(segs, data):
    """Classifier only: cmake rendering of every value whatever it looks like."""
    out = []
    for s in segs:
        if s[0] == 'l':
            out.append(s[1])
        else:
            n, _ = resolve_name(s[1], 'cmake', data, set()) if not isinstance(s[1], str) else (s[1], None)
            v = data.get(n, '') if n is not None else ''
            out.append(str(int(v)) if isinstance(v, bool) else str(v))
    return ''.join(out)


def bare_token_prediction(name, rest, at_only, data):
    """Classifier only: what the define line looks like if the words of its value that are keys of the data are replaced by
       str(value) before the placeholders are (None: no word is a key)."""
    toks = rest.split(' ')
    if not any(t in data for t in toks):
        return None
    line = ('#define %s %s' % (name, ' '.join(str(data[t]) if t in data else t for t in toks))).strip()
    segs, _ = scan_cmake(line, at_only)
    return None if segs is None else render_loose(segs, data)


def rescan_prediction(body, data):
    """What the line would look like if it were scanned once more as an ordinary meson line (classifier only)."""
    segs, _ = scan_meson(body)
    return ''.join(s[1] if s[0] == 'l' else (str(data[s[1]]) if s[1] in data else '') for s in segs)


def strip_ws_before_eol(line):
    body, eol = split_eol(line)
    return body.rstrip(' ') + eol


# ---- real code ------------------------------------------------------------------------------------------------------
_CD_CACHE = {}


def cd_for(a, b):
    k = (type(a), a, type(b), b)
    r = _CD_CACHE.get(k)
    if r is None:
        r = _CD_CACHE[k] = ConfigurationData({'A': a, 'B': b})
    return r


def cd_for_data(data):
    k = tuple((n, type(v), v) for n, v in data.items())
    r = _CD_CACHE.get(k)
    if r is None:
        r = _CD_CACHE[k] = ConfigurationData(dict(data))
    return r


def run_real_once(lines, cd, fmt, cpu_s):
    try:
        arm(cpu_s)
        res, missing, _ = do_conf_str('t.in', list(lines), cd, fmt)
    except MesonException as e:
        return ('err', str(e)[:120])
    except Exception as e:
        return ('crash', '%s: %s' % (type(e).__name__, str(e)[:120]))
    except Hang:
        return ('hang', 'no result after %d s of CPU time' % cpu_s)
    finally:
        disarm()
    if not isinstance(res, list) or len(res) != len(lines) or not all(isinstance(x, str) for x in res):
        return ('crash', 'result is not a list of %d strings: %r' % (len(lines), res))
    return ('ok', res, set(missing))


def run_real(lines, cd, fmt):
    r = run_real_once(lines, cd, fmt, HANG_CPU_S)
    if r[0] == 'hang':
        # suspected only: the single input again, with a larger allowance
        HSTATS['suspects'] += 1
        r = run_real_once(lines, cd, fmt, HANG_CONFIRM_CPU_S)
        if r[0] != 'hang':
            HSTATS['cleared'] += 1
        else:
            HSTATS['hangs'] += 1
    return r


_CONFIRMED_KEYS = set()


def is_hang_key(key):
    return key == K_HANG or key.endswith(':hang')


def confirmed(key, rep):
    """A hang reported by a worker is confirmed by running the single input alone in this process; every other finding is taken as it is."""
    if not is_hang_key(key) or 'template' not in rep or rep.get('part') != 'template' or key in _CONFIRMED_KEYS:
        return True
    data = rep['data']
    r = run_real_once(split_lines(rep['template']), cd_for_data(data), rep['format'], HANG_CONFIRM_CPU_S)
    HSTATS['confirmation_runs'] = HSTATS.get('confirmation_runs', 0) + 1
    if r[0] != 'hang':
        HSTATS['not_confirmed'] = HSTATS.get('not_confirmed', 0) + 1
    else:
        _CONFIRMED_KEYS.add(key)       # further witnesses of the class have been through the two attempts in their worker
    return r[0] == 'hang'


def kind(v):
    return v if isinstance(v, bool) else ('i' if isinstance(v, int) else 's')


def marker_for(k, which):
    if k == 's':
        return MA if which == 0 else MB
    if k == 'i':
        return IMA if which == 0 else IMB
    return k


class Acc:
    """Per-shard accumulator (plain picklable data)."""
    def __init__(self):
        self.n = {}
        self.viol = []
        self.vcount = {}
        self.classes = set()
        self.unspec = {}
        self.hangs = 0

    def add(self, k, v=1):
        self.n[k] = self.n.get(k, 0) + v

    def skip(self, reason, v=1):
        self.unspec[reason] = self.unspec.get(reason, 0) + v

    def violation(self, key, what, replay):
        c = self.vcount[key] = self.vcount.get(key, 0) + 1
        if c <= 2:
            self.viol.append((key, what, replay))

    def dump(self):
        return {'n': self.n, 'viol': self.viol, 'vcount': self.vcount, 'classes': sorted(self.classes),
                'unspec': self.unspec}


def check_template(acc, text, frags, fmts, datasets, verbose=False):
    lines = split_lines(text)
    placeholder_free = not any(c in text for c in '@\\$#')
    for fmt in fmts:
        specs = [analyse(l, fmt) for l in lines]
        unspec_lines = [s[1] for s in specs if s[0] == 'unspec']
        exp_err = any(s[0] == 'error' for s in specs)
        tags = set()
        for s in specs:
            if s[0] in ('plain', 'define'):
                tags |= s[5] if s[0] == 'define' else s[3]
            elif s[0] == 'error':
                tags |= s[1]
            else:
                tags.add('unspec:' + s[1])
        tags.discard('noeol')
        if tags:
            acc.classes.add(fmt + '|' + ','.join(sorted(tags)))
        acc.add('templates_x_formats')
        if unspec_lines:
            acc.add('templates_with_unspecified_line')
        structs = {}
        for ds in datasets:
            if isinstance(ds, dict):        # family "names": more keys than A and B
                data, pair = ds, False
                a, b = data.get('A'), data.get('B')
                cd = cd_for_data(data)
            else:
                a, b = ds
                data, pair = {'A': a, 'B': b}, True
                cd = cd_for(a, b)
            rep = {'part': 'template', 'frags': frags, 'template': text, 'format': fmt, 'data': data}
            if HANG_CLASS_LIVE and self_referential(text, fmt, a, b):
                acc.add('skipped_self_referential_cmake_value')
                continue
            if acc.hangs >= 2 or HSTATS['hangs'] >= 2:
                # (a real non-termination costs HANG_CPU_S + HANG_CONFIRM_CPU_S of CPU time per case: at most two witnesses per worker process)
                acc.add('not_run_after_hangs')
                continue
            r = run_real(lines, cd, fmt)
            acc.add('evaluations')
            if verbose:
                print('observed  :', r)
            if r[0] == 'hang':
                acc.hangs += 1
                acc.violation(K_HANG if self_referential(text, fmt, a, b) else 'C14:%s:hang' % fmt,
                              'do_conf_str does not terminate on %r (%s) with %r' % (text, fmt, data), dict(rep, expected='a result', observed=r[1]))
                continue
            if r[0] == 'crash':
                acc.violation('C14:%s:crash:%s' % (fmt, r[1].split(':')[0]), 'unhandled exception %s' % r[1], rep)
                continue
            # -- (3a) placeholder-free templates are copied byte for byte
            if placeholder_free:
                acc.add('copy_cases')
                if r[0] != 'ok' or ''.join(r[1]) != text or r[2]:
                    acc.violation('C14:%s:copy' % fmt, 'placeholder-free template %r not copied verbatim: %r' % (text, r[1:]),
                                  dict(rep, expected=text, observed=repr(r[1:])))
            # -- (1) marker differential, meson format only
            if fmt == 'meson' and pair:
                ka, kb = kind(a), kind(b)
                if ka in ('s', 'i') or kb in ('s', 'i'):
                    S = structs.get((ka, kb))
                    if S is None:
                        S = structs[(ka, kb)] = run_real(lines, cd_for(marker_for(ka, 0), marker_for(kb, 1)), fmt)
                        acc.add('evaluations')
                        acc.add('structure_runs')
                    oracle1(acc, lines, S, r, a, b, ka, kb, rep, verbose)
            # -- (2) reference scanner, (3b) missing set
            oracle2(acc, lines, specs, unspec_lines, exp_err, r, fmt, data, rep, verbose)


def oracle1(acc, lines, S, r, a, b, ka, kb, rep, verbose):
    acc.add('o1_cases')
    if S[0] != r[0]:
        acc.violation('C14:meson:value-dependent-error', 'with marker values: %s, with %r: %s' % (S[0], rep['data'], r[0]),
                      dict(rep, expected=repr(S), observed=repr(r)))
        return
    if S[0] != 'ok':
        return
    reps = []
    for k, m, v in ((ka, marker_for(ka, 0), a), (kb, marker_for(kb, 1), b)):
        if k in ('s', 'i'):
            reps.append((str(m), str(v)))
    for i, sl in enumerate(S[1]):
        exp = sl
        for m, v in reps:
            if m in exp:
                exp = exp.replace(m, v)
        act = r[1][i]
        if exp is not sl and ('@' in exp or '\\' in exp):
            acc.add('o1_placeholder_like_value_substituted')
        if verbose:
            print('o1 line %d: structure %r -> expected %r observed %r' % (i, sl, exp, act))
        if act == exp:
            continue
        if sl.startswith('#define ') and ('' in (a, b)) and act == strip_ws_before_eol(exp):
            acc.skip('define:empty-string-trailing-space')
            continue
        key = 'C14:meson:value-dependent-output'
        src = lines[i]
        if src.lstrip().startswith('#mesondefine') and sl.startswith('#define ') and isinstance(rep['data'].get(sl.split()[1]), str):
            body, eol = split_eol(exp)
            if act == rescan_prediction(body, rep['data']) + eol:
                key = K_RESCAN
        acc.violation(key, 'line %r with %r: no-rescan expectation %r, observed %r' % (src, rep['data'], exp, act),
                      dict(rep, oracle='marker-differential', line=i, expected=exp, observed=act))
    if S[2] != r[2]:
        acc.violation('C14:meson:value-dependent-missing', 'missing set %r with markers, %r with %r' % (sorted(S[2]), sorted(r[2]), rep['data']),
                      dict(rep, oracle='marker-differential', expected=sorted(S[2]), observed=sorted(r[2])))


def swallow_prefix(segs, fmt, data):
    """If an empty-valued placeholder is directly followed by another placeholder: the text up to and including the
       opening and the name of the second one (what the output starts with if the second is not recognised), else None."""
    out = []
    for j, s in enumerate(segs):
        if s[0] == 'l':
            out.append(s[1])
            continue
        val = lookup(s[1], fmt, data, set())[0]
        if val is None:
            return None
        out.append(val)
        if val == '' and j + 1 < len(segs) and segs[j + 1][0] == 'v':
            src = segs[j + 1][2]       # the swallowed character is the opening one; a closing '@' may pair up again later
            return ''.join(out) + (src[:-1] if src[0] == '@' else src)
    return None


def data_dependent_unspec(specs, fmt, data):
    """The reason, if the documented rendering of some line is unspecified for this data."""
    for spec in specs:
        if spec[0] == 'plain':
            why = render_plain(spec[1], fmt, data)[2]
        elif spec[0] == 'define':
            why = render_define(spec, fmt, data)[2]
        else:
            why = None
        if why:
            return why
    return None


def oracle2(acc, lines, specs, unspec_lines, exp_err, r, fmt, data, rep, verbose):
    if exp_err:
        acc.add('o2_error_expected')
    if r[0] == 'err':
        if exp_err:
            acc.add('o2_error_expected_and_raised')
        elif unspec_lines:
            for u in set(unspec_lines):
                acc.skip(u)
        elif fmt != 'meson' and any(isinstance(v, str) and ('@' in v or '$' in v) for v in data.values()):
            acc.skip('cmake:value-with-placeholder')
        else:
            why = data_dependent_unspec(specs, fmt, data)
            if why:
                acc.skip(why)       # e.g. a composed name that is not a name: Meson rejects it, CMake looks it up
                return
            nest = sorted({t for s_ in specs if s_[0] in ('plain', 'define') for t in (s_[5] if s_[0] == 'define' else s_[3]) if 'nested' in t})
            if any(s_[0] == 'plain' and 'keyword-in-longer-word' in s_[3] for s_ in specs) and 'define' in r[1]:
                # the line of the longer word was taken for a directive and rejected as a malformed one
                acc.violation(K_KWPREFIX_MESON if fmt == 'meson' else K_KWPREFIX_CMAKE, 'template %r raised %s' % (rep['template'], r[1]),
                              dict(rep, oracle='reference', expected='no error', observed=r[1]))
                return
            acc.violation('C14:%s:unexpected-error' % fmt + (':' + '+'.join(nest) if nest else ''), 'template %r raised %s' % (rep['template'], r[1]),
                          dict(rep, oracle='reference', expected='no error', observed=r[1]))
        return
    if exp_err:
        acc.violation('C14:%s:missing-error' % fmt, 'template %r must be rejected (pinned) but produced %r' % (rep['template'], r[1]),
                      dict(rep, oracle='reference', expected='MesonException', observed=repr(r[1])))
        return
    exp_missing, argmiss, complete, swallow, kwprefix = set(), set(), True, False, False
    for i, spec in enumerate(specs):
        act = r[1][i]
        if spec[0] == 'unspec':
            acc.skip(spec[1])
            complete = False
            continue
        if spec[0] == 'plain':
            segs, eol = spec[1], spec[2]
            exp, miss, why = render_plain(segs, fmt, data)
            if exp is None:
                acc.skip(why)
                complete = False
                continue
            exp_missing |= miss
            exp += eol
            acc.add('o2_lines_compared')
            if verbose:
                print('o2 line %d (%s): expected %r observed %r' % (i, fmt, exp, act))
            if act == exp:
                continue
            key = 'C14:%s:plain-line:%s' % (fmt, '+'.join(sorted(spec[3])) or 'text')
            if fmt != 'meson':
                p = swallow_prefix(segs, fmt, data)
                if p is not None and act.startswith(p):
                    key, swallow = K_SWALLOW, True
            if 'keyword-in-longer-word' in spec[3] and _DIRECTIVE_OUTPUT.match(act):
                # the output is a define / undef line: the longer word was taken for the directive
                key, kwprefix = (K_KWPREFIX_MESON if fmt == 'meson' else K_KWPREFIX_CMAKE), True
            acc.violation(key, 'line %r (%s) with %r: expected %r, observed %r' % (lines[i], fmt, data, exp, act),
                          dict(rep, oracle='reference', line=i, expected=exp, observed=act))
            continue
        # define line
        eol = spec[4]
        bodies, am, why = render_define(spec, fmt, data)
        if bodies is None:
            acc.skip(why)
            complete = False
            continue
        argmiss |= am
        acc.add('o2_lines_compared')
        acc.add('o2_define_lines')
        spelled = spec[7]
        if spelled:
            # the white space of the directive is not the documented one: what the output keeps of it is unspecified, the line must
            # still define / undefine the variable that is named, with the value of the data
            acc.add('o2_define_lines_compared_as_triple')
            for t in spec[5]:
                if t in ('define-indented', 'define-hash-gap', 'define-blanks'):
                    acc.add('o2_triple_' + t + ('+01' if spec[1] == 'cmake01' else ''))
        if verbose:
            print('o2 line %d (%s): expected one of %r + %r observed %r' % (i, fmt, bodies, eol, act))
            if spelled:
                print('   compared as (kind, name, value): expected %r observed %r' % (define_triple(bodies[0]), define_triple(split_eol(act)[0])))
        if norm_line(act, spelled) == norm_line(bodies[0] + eol, spelled):
            continue
        if any(norm_line(act, spelled) == norm_line(x + eol, spelled) for x in bodies):
            acc.skip('define:undef-comment-spelling' if bodies[0].startswith('/*') else 'define:empty-string-trailing-space')
            continue
        keys = []
        cand = act
        if eol != '\n' and act.endswith('\n') and not act.endswith('\r\n'):
            keys.append(K_EOL_CRLF if eol == '\r\n' else K_EOL_EOF)
            cand = act[:-1] + eol
        ncand = norm_line(cand, spelled)
        if not any(ncand == norm_line(x + eol, spelled) for x in bodies):
            v = data.get(spec[2])
            ot = define_triple(split_eol(cand)[0])
            if spec[1] == 'meson' and isinstance(v, str) and cand == rescan_prediction(bodies[0], data) + eol:
                keys.append(K_RESCAN)
            elif 'define-hash-gap' in spec[5] and ot[0] != 'other' and ot[1] in ('cmakedefine', 'cmakedefine01') and ot[1] != spec[2]:
                keys = [K_KWNAME]
            elif spec[1] == 'cmake' and spec[6] and ncand == norm_line((bare_token_prediction(spec[2], spec[6], fmt == 'cmake@', data) or '') + eol, spelled):
                keys.append(K_BARE)
            else:
                keys = ['C14:%s:define-line:%s' % (fmt, '+'.join(sorted(spec[5])))]
        for key in keys:
            if spelled:
                acc.violation(key, 'line %r (%s) with %r: expected (whatever the white space) %r, observed %r which is %r' % (
                    lines[i], fmt, data, define_triple(bodies[0]), act, define_triple(split_eol(act)[0])),
                    dict(rep, oracle='reference', line=i, expected=repr((define_triple(bodies[0]), eol)), observed=act))
                continue
            acc.violation(key, 'line %r (%s) with %r: expected %r, observed %r' % (lines[i], fmt, data, bodies[0] + eol, act),
                          dict(rep, oracle='reference', line=i, expected=bodies[0] + eol, observed=act))
    if complete:
        acc.add('o3_missing_sets_compared')
        full = exp_missing | argmiss
        if full:
            acc.add('o3_missing_nonempty')
        if verbose:
            print('missing: expected %r observed %r' % (sorted(full), sorted(r[2])))
        if r[2] != full:
            if argmiss and r[2] == full - (argmiss - exp_missing):
                key = K_ARGMISS
            elif swallow:
                key = K_SWALLOW
            elif kwprefix:
                key = K_KWPREFIX_MESON if fmt == 'meson' else K_KWPREFIX_CMAKE
            else:
                key = 'C14:%s:missing-set' % fmt
            acc.violation(key, 'template %r (%s) with %r: undefined names in placeholder position %r, reported %r' % (
                rep['template'], fmt, data, sorted(full), sorted(r[2])),
                dict(rep, oracle='missing-set', expected=sorted(full), observed=sorted(r[2])))


# ---- enumeration -----------------------------------------------------------------------------------------------------
TEMPLATES = []      # (text, frag index tuple), simplest first, de-duplicated on text


def build_templates(maxlen):
    seen = set()
    out = []
    total = 0
    for n in range(1, maxlen + 1):
        for tup in itertools.product(range(len(FRAGS)), repeat=n):
            total += 1
            text = ''.join(FRAGS[i] for i in tup)
            if text in seen:
                continue
            seen.add(text)
            out.append((text, tup))
    return out, total


def shard(rng):
    lo, hi = rng
    acc = Acc()
    NSTAT.clear()
    for text, tup in TEMPLATES[lo:hi]:
        check_template(acc, text, [FRAGS[i] for i in tup], FORMATS, DATASETS)
    nstat_flush(acc)
    return acc.dump()


# ---- family "names": cmake-format names that are computed, data sets in which the computed name exists / does not exist -------
# The fragment alphabet holds ${...} references whose NAME is built from inner references in both spellings (and three deep),
# inner references that are undefined, and a #cmakedefine whose value is a word that happens to be a key of the data; the data
# sets bind, besides A and B, at most one further key out of the names those references can compose.
NFRAGS = ['${A_@B@}', '${A_${B}}', '${${B}}', '${@B@}', '${A_@U@}', '${A_${U}}', '${${${B}}}',
          '@A@', '${A}', '@B@', 'x', ' ', '\n', '\r\n', '}', '${', '@', '\\', '#cmakedefine A ', '#cmakedefine A B']
N_NESTED = 7        # the first N_NESTED fragments are the composed-name references
N_AV = ['v', '', 3]
N_BV = ['v', 'A', '', 10, True, 'x y', '@A@']        # value of the inner reference: a name, a key of the data, nothing, not a name
N_EXTRA_KEYS = ['A_v', 'A_A', 'A_', 'A_10', 'A_1', 'v', '10', '1']       # every name the fragments compose from A_/nothing + rendering of B (or of A)
N_EXTRA_VALUES = ['r', '', 7, True]
N_TEMPLATES = []
N_DATASETS = []


def build_names_family(maxlen):
    seen, out, total = set(), [], 0
    for n in range(1, maxlen + 1):
        for tup in itertools.product(range(len(NFRAGS)), repeat=n):
            total += 1
            text = ''.join(NFRAGS[i] for i in tup)
            if text in seen:
                continue
            seen.add(text)
            out.append((text, tup))
    extras = [{}] + [{k: v} for k in N_EXTRA_KEYS for v in N_EXTRA_VALUES]
    data = [dict({'A': a, 'B': b}, **e) for e in extras for a in N_AV for b in N_BV]      # simplest (no further key) first
    return out, total, data


NOT_CONFIRMED = []


def report(ck, key, what, rep):
    """A finding of a worker process is reported as it is, except a non-termination: that one only after the single input has not
       terminated in this process either."""
    if confirmed(key, rep):
        ck.violation(key, what, rep)
    else:
        NOT_CONFIRMED.append({'key': key, 'template': rep.get('template'), 'format': rep.get('format'), 'data': repr(rep.get('data'))})


def nstat_flush(acc):
    for k, v in NSTAT.items():
        acc.add('ref_' + k, v)
    NSTAT.clear()
    for k in ('suspects', 'cleared'):       # (absent from the counts unless a call ever exhausted its first CPU allowance)
        if HSTATS[k]:
            acc.add('hang_' + k + '_after_%ds_cpu' % HANG_CPU_S, HSTATS[k])
            HSTATS[k] = 0


def names_shard(rng):
    lo, hi = rng
    acc = Acc()
    NSTAT.clear()
    for text, tup in N_TEMPLATES[lo:hi]:
        check_template(acc, text, [NFRAGS[i] for i in tup], FORMATS, N_DATASETS)
    nstat_flush(acc)
    return acc.dump()


def names_family(ck, maxlen):
    global N_TEMPLATES, N_DATASETS
    N_TEMPLATES, nseq, N_DATASETS = build_names_family(maxlen)
    nt = len(N_TEMPLATES)
    step = max(4, nt // 160)
    ranges = [(lo, min(nt, lo + step)) for lo in range(0, nt, step)]
    tot, unspec, vcount, classes, seen = {}, {}, {}, set(), set()
    for res in pmap(names_shard, ranges):
        for k, v in res['n'].items():
            tot[k] = tot.get(k, 0) + v
        for k, v in res['unspec'].items():
            unspec[k] = unspec.get(k, 0) + v
        for k, v in res['vcount'].items():
            vcount[k] = vcount.get(k, 0) + v
        classes.update(res['classes'])
        for key, what, rep in res['viol']:
            first = key not in seen
            seen.add(key)
            report(ck, key, what, rep)
            if first and any(k['key'] == key and k.get('status') == 'known' for k in ck.known):
                ck.part('known_finding_witnesses', **{key: {'template': rep['template'], 'format': rep['format'], 'data': rep['data'],
                                                            'expected': rep.get('expected'), 'observed': rep.get('observed')}})
    ck.part('names_family', fragments=NFRAGS, fragment_sequences=nseq, distinct_texts=nt, max_fragments=maxlen, formats=FORMATS,
            data_sets=len(N_DATASETS), values_of_A=[repr(v) for v in N_AV], values_of_B=[repr(v) for v in N_BV],
            one_further_key_of=N_EXTRA_KEYS, bound_to=[repr(v) for v in N_EXTRA_VALUES], shards=len(ranges),
            finding_class_case_counts=vcount, skipped_unspecified_by_reason=unspec, **tot)
    ck.require(tot.get('ref_composed_name_defined', 0) > 1000 and tot.get('ref_composed_name_undefined', 0) > 1000,
               'names family: the composed name was hardly ever defined / undefined')
    ck.require(tot.get('ref_composed_name_invalid', 0) > 100, 'names family: no composed name that is not a name')
    ck.require(any('nested-at-name' in c and c.startswith('cmake|') for c in classes) and any('nested-dollar-name' in c and c.startswith('cmake|') for c in classes)
               and any('define-arg-nested' in c for c in classes) and any('define-arg-words' in c for c in classes),
               'names family: composed names (both spellings, also in the value of a #cmakedefine) / words in a #cmakedefine value not exercised')
    ck.require(tot.get('o2_lines_compared', 0) > 10000 and tot.get('o3_missing_nonempty', 0) > 1000, 'names family compared too little')
    return tot, unspec, classes


# ---- family "directive spelling": #cmakedefine lines whose white space is not the documented one ----------------------------------
# (cmake formats)  CMake's configure_file() takes '#', blanks or tabs, 'cmakedefine' / 'cmakedefine01', blanks or tabs, NAME for the
# directive wherever it stands after the indentation, and Meson announces "whitespace between `#` and `cmakedefine`" as a feature
# (1.9.0).  What is kept of the white space is unspecified; the variable that is defined / undefined and its value are not.
SFRAGS = ['#cmakedefine A', '# cmakedefine A', '#\tcmakedefine01 A', ' #cmakedefine A', ' # cmakedefine A B', '#cmakedefine01 A',
          ' ', '\t', ' @B@', ' ${B}', ' @U@', ' B', ' x', '\n', '\r\n', 'x', '\x0c',
          # longer words that begin with the keyword are not the directive (CMake leaves such lines alone): ordinary text
          '#cmakedefined A', '#cmakedefine01x A']
S_FORMATS = ['cmake', 'cmake@']
S_TEMPLATES = []


def spelling_shard(rng):
    lo, hi = rng
    acc = Acc()
    NSTAT.clear()
    for text, tup in S_TEMPLATES[lo:hi]:
        check_template(acc, text, [SFRAGS[i] for i in tup], S_FORMATS, DATASETS)
    nstat_flush(acc)
    return acc.dump()


def spelling_family(ck, maxlen):
    global S_TEMPLATES
    seen_t, nseq = set(), 0
    S_TEMPLATES = []
    for n in range(1, maxlen + 1):
        for tup in itertools.product(range(len(SFRAGS)), repeat=n):
            nseq += 1
            text = ''.join(SFRAGS[i] for i in tup)
            if text not in seen_t:
                seen_t.add(text)
                S_TEMPLATES.append((text, tup))
    nt = len(S_TEMPLATES)
    step = max(8, nt // 240)
    ranges = [(lo, min(nt, lo + step)) for lo in range(0, nt, step)]
    tot, unspec, vcount, classes, seen = {}, {}, {}, set(), set()
    for res in pmap(spelling_shard, ranges):
        for k, v in res['n'].items():
            tot[k] = tot.get(k, 0) + v
        for k, v in res['unspec'].items():
            unspec[k] = unspec.get(k, 0) + v
        for k, v in res['vcount'].items():
            vcount[k] = vcount.get(k, 0) + v
        classes.update(res['classes'])
        for key, what, rep in res['viol']:
            seen.add(key)
            report(ck, key, what, rep)
    ck.part('directive_spelling_family', fragments=SFRAGS, fragment_sequences=nseq, distinct_texts=nt, max_fragments=maxlen, formats=S_FORMATS,
            data_sets=len(DATASETS), shards=len(ranges),
            compared='(define | undef, NAME, VALUE) of the output line + its line ending where the directive is not in the documented spelling',
            finding_class_case_counts=vcount, skipped_unspecified_by_reason=unspec, **tot)
    ck.require(tot.get('o2_define_lines_compared_as_triple', 0) > 10000, 'directive spelling family: hardly any line compared as a triple')
    ck.require(all(tot.get('o2_triple_' + t, 0) > 1000 for t in ('define-hash-gap', 'define-hash-gap+01', 'define-indented', 'define-blanks')),
               'directive spelling family: "# cmakedefine", "# cmakedefine01", indented or blank-padded directives not exercised')
    ck.require(any('define-hash-gap' in c and 'define-arg-words' in c and c.startswith('cmake|') for c in classes)
               and any('define-hash-gap' in c and 'define-arg' in c and c.startswith('cmake@|') for c in classes)
               and any('define-hash-gap' in c and 'crlf' in c for c in classes),
               'directive spelling family: "# cmakedefine VAR words" / the cmake@ format / CRLF not exercised')
    ck.require(tot.get('o3_missing_nonempty', 0) > 1000, 'directive spelling family: no undefined name in the value of a directive')
    return tot, unspec, classes


# ---- family "value names" (meson format): values that mention names, around #mesondefine directives and plain uses of the same names ---
# The property quantifies over "all configuration dictionaries (including values that themselves look like placeholders)".  The name such a
# value mentions may be bound (B), unbound (U, V) or the value's own key, and the same name may stand in placeholder position elsewhere in
# the template - on an earlier line, on a later line, on the line itself, or nowhere.  Whatever a value mentions, the report of undefined
# names is a function of the template's placeholder positions and the KEYS of the data alone: (3b) compares it with the reference, (1)
# with the run on inert marker values.  Every sequence of <= 4 (quick) / <= 5 (thorough) fragments x every (A, B) of V_AV x V_BV.
VFRAGS = ['#mesondefine A', '#mesondefine B', '@A@', '@B@', '@U@', '@V@', 'x', ' ', '\n', '\r\n',
          # a longer word that begins with the keyword is not the directive: ordinary text
          '#mesondefined A']
V_AV = ['v', '@U@', 'p@U@q', '@V@', '@U@@V@', '@B@', '@A@', 7, True]
V_BV = ['w', '@U@', '@A@', '', 0]
V_FORMATS = ['meson']
V_TEMPLATES = []
V_DATASETS = [(a, b) for a in V_AV for b in V_BV]
_VNAME = re.compile(r'@([A-Za-z0-9_]+)@')


def value_names_stats(acc, text, lines):
    """Anti-vacuity counters of the family (from the template text and the values, not from any output)."""
    placed = set(_VNAME.findall(re.sub(r'(?m)^#mesondefine [AB]', '', text)))
    for a, b in V_DATASETS:
        for key, v in (('A', a), ('B', b)):
            if not isinstance(v, str):
                continue
            mentioned = {n for n in _VNAME.findall(v) if n not in ('A', 'B')}
            if not mentioned:
                continue
            dl = [i for i, l in enumerate(lines) if l.startswith('#mesondefine ' + key)]
            if not dl:
                continue
            acc.add('define_of_value_mentioning_undefined_name')
            for n in mentioned & placed:
                use = [i for i, l in enumerate(lines) if '@%s@' % n in l and not l.startswith('#mesondefine')]
                if use and min(use) > dl[0]:
                    acc.add('same_undefined_name_in_placeholder_position_only_after_the_define')
                if use and max(use) < dl[0]:
                    acc.add('same_undefined_name_in_placeholder_position_only_before_the_define')
            if not (mentioned & placed):
                acc.add('undefined_name_mentioned_by_value_only')


def values_shard(rng):
    lo, hi = rng
    acc = Acc()
    NSTAT.clear()
    for text, tup in V_TEMPLATES[lo:hi]:
        check_template(acc, text, [VFRAGS[i] for i in tup], V_FORMATS, V_DATASETS)
        if '#mesondefine' in text:
            value_names_stats(acc, text, split_lines(text))
    nstat_flush(acc)
    return acc.dump()


def values_family(ck, maxlen):
    global V_TEMPLATES
    seen_t, nseq = set(), 0
    V_TEMPLATES = []
    for n in range(1, maxlen + 1):
        for tup in itertools.product(range(len(VFRAGS)), repeat=n):
            nseq += 1
            text = ''.join(VFRAGS[i] for i in tup)
            if text not in seen_t:
                seen_t.add(text)
                V_TEMPLATES.append((text, tup))
    nt = len(V_TEMPLATES)
    step = max(8, nt // 160)
    ranges = [(lo, min(nt, lo + step)) for lo in range(0, nt, step)]
    tot, unspec, vcount, classes, seen = {}, {}, {}, set(), set()
    for res in pmap(values_shard, ranges):
        for k, v in res['n'].items():
            tot[k] = tot.get(k, 0) + v
        for k, v in res['unspec'].items():
            unspec[k] = unspec.get(k, 0) + v
        for k, v in res['vcount'].items():
            vcount[k] = vcount.get(k, 0) + v
        classes.update(res['classes'])
        for key, what, rep in res['viol']:
            seen.add(key)
            report(ck, key, what, rep)
    ck.part('value_names_family', fragments=VFRAGS, fragment_sequences=nseq, distinct_texts=nt, max_fragments=maxlen, formats=V_FORMATS,
            data_sets=len(V_DATASETS), values_of_A=[repr(v) for v in V_AV], values_of_B=[repr(v) for v in V_BV], shards=len(ranges),
            finding_class_case_counts=vcount, skipped_unspecified_by_reason=unspec, **tot)
    ck.require(tot.get('o3_missing_sets_compared', 0) > 10000 and tot.get('o3_missing_nonempty', 0) > 1000 and tot.get('o1_cases', 0) > 10000,
               'value names family: the report of undefined names was hardly ever compared')
    ck.require(all(tot.get(k, 0) > 100 for k in ('same_undefined_name_in_placeholder_position_only_after_the_define',
                                                 'same_undefined_name_in_placeholder_position_only_before_the_define',
                                                 'undefined_name_mentioned_by_value_only')),
               'value names family: a #mesondefine of a value that mentions an undefined name, with the same name in placeholder position '
               'before / after it / nowhere, is not exercised')
    return tot, unspec, classes


def cmake_calibration(ck):
    """The 'cmake' formats are CMake's configure_file() format: where a cmake(1) is installed, the reference (not Meson) must
       agree with it on every specified line of the names family for every all-string data set (CMake has no other types).
       Decides nothing about Meson; it shows that the nesting rules of the reference are CMake's."""
    exe = shutil.which('cmake')
    if not exe:
        ck.part('cmake_calibration', cmake_available=False)
        return 0
    import subprocess
    bodies = []
    for text, _ in N_TEMPLATES:
        for l in split_lines(text):
            b = split_eol(l)[0]
            # (CMake's documentation speaks of "input lines of the form #cmakedefine VAR ..."; its implementation finds the keyword
            # anywhere in a line.  The reference follows the documentation, so lines with the keyword further right are left out.)
            if b and b not in bodies and '\r' not in b and ('cmakedefine' not in b or b.startswith('#cmakedefine')):
                bodies.append(b)
    # family "directive spelling": every line of that family and of the main enumeration (<= 3 fragments) the reference takes for a directive
    # in another than the documented spelling; CMake must define / undefine the same name with the same value (its white space is not compared either)
    seen = set(bodies)
    for text, tup in S_TEMPLATES + TEMPLATES:
        if len(tup) > 3:
            continue
        if 'cmakedefine' not in text:
            continue
        for l in split_lines(text):
            b = split_eol(l)[0]
            if b not in seen and '\r' not in b:
                seen.add(b)
                spec = analyse(b + '\n', 'cmake')
                if (spec[0] == 'define' and spec[7]) or (spec[0] == 'plain' and 'keyword-in-longer-word' in spec[3] and b.count('cmakedefine') == 1):
                    bodies.append(b)        # (only one keyword in the line: CMake also finds a directive further right, see above)
    datas = [d for d in N_DATASETS if all(isinstance(v, str) and '@' not in v and '$' not in v for v in d.values())]
    root = os.path.join(scratch_root(), 'cmakecal')
    shutil.rmtree(root, ignore_errors=True)
    os.makedirs(root)
    with open(os.path.join(root, 't.in'), 'w', encoding='utf-8', newline='') as f:
        f.write(''.join(b + '\n' for b in bodies))
    keys = sorted({k for d in datas for k in d} | {'U', 'x'})
    L = []
    for i, d in enumerate(datas):
        L += ['unset(%s)' % k for k in keys]
        L += ['set(%s [==[%s]==])' % (k, v) for k, v in d.items()]
        L += ['configure_file(t.in o%d.cmake.out)' % i, 'configure_file(t.in o%d.cmake@.out @ONLY)' % i]
    with open(os.path.join(root, 's.cmake'), 'w') as f:
        f.write('\n'.join(L) + '\n')
    p = subprocess.run([exe, '-Wno-dev', '-P', 's.cmake'], cwd=root, stdout=subprocess.PIPE, stderr=subprocess.STDOUT, text=True, timeout=300)
    if p.returncode != 0:
        ck.part('cmake_calibration', cmake_available=True, cmake_failed=p.stdout[-300:])
        return 0
    n = nested = skipped = spelled_n = longer_n = 0
    kept_ws = set()
    bad = []
    for i, d in enumerate(datas):
        for fmt in ('cmake', 'cmake@'):
            with open(os.path.join(root, 'o%d.%s.out' % (i, fmt)), encoding='utf-8', newline='') as f:
                got = f.read().split('\n')
            if len(got) != len(bodies) + 1:
                bad.append('cmake output has %d lines for %d' % (len(got), len(bodies)))
                continue
            for b, g in zip(bodies, got):
                spec = analyse(b + '\n', fmt)
                if spec[0] == 'plain':
                    exp, _, why = render_plain(spec[1], fmt, d)
                    exp = [exp] if exp is not None else None
                elif spec[0] == 'define':
                    exp, _, why = render_define(spec, fmt, d)
                else:
                    exp = None
                if exp is None:
                    skipped += 1
                    continue
                n += 1
                nested += any('nested' in t for t in (spec[5] if spec[0] == 'define' else spec[3]))
                longer_n += spec[0] == 'plain' and 'keyword-in-longer-word' in spec[3]
                if spec[0] == 'define' and spec[7]:
                    spelled_n += 1
                    if g not in exp:
                        kept_ws.add(define_triple(g)[0])
                    if define_triple(g) not in [define_triple(x) for x in exp]:
                        bad.append('line %r (%s) with %r: reference %r, cmake %r which is %r' % (b, fmt, d, define_triple(exp[0]), g, define_triple(g)))
                    continue
                if g not in exp:
                    bad.append('line %r (%s) with %r: reference %r, cmake %r' % (b, fmt, d, exp, g))
    shutil.rmtree(root, ignore_errors=True)
    NSTAT.clear()
    # a disagreement is about the reference and the installed cmake, not about Meson: it is recorded and shown, the verdict does not depend on it
    ck.part('cmake_calibration', cmake_available=True, lines=len(bodies), all_string_data_sets=len(datas), lines_compared=n,
            lines_with_composed_names_compared=nested, lines_with_a_longer_word_beginning_with_the_keyword_compared=longer_n, directive_lines_in_other_spelling_compared_as_triple=spelled_n,
            cmake_keeps_white_space_in=sorted(kept_ws), unspecified_skipped=skipped, disagreements=len(bad), first_disagreements=bad[:3])
    if bad:
        print('note: the reference disagrees with %s on %d lines, first: %s' % (exe, len(bad), bad[0]), file=sys.stderr, flush=True)
    return n


# ---- tier B: the same templates end-to-end through configure_file() of a real `meson setup` ------------------------------
# The data values are written as Meson literals into a generated meson.build (configuration_data().set), every
# template is an input file, and the file configure_file() writes must equal, byte for byte, what do_conf_str gave
# in-process for the same template/data/format (tier A has compared that with the reference); templates for which
# do_conf_str raises must make `meson setup` fail with an error (not crash).
TB_VALUES = ['v', '', '@B@', 'x y', 10, 0, True, False]


def _mlit(v):
    if isinstance(v, bool):
        return 'true' if v else 'false'
    if isinstance(v, int):
        return str(v)
    return "'" + v.replace('\\', '\\\\').replace("'", "\\'") + "'"


def tierb_batch(job):
    from verif import mesonproc as mp
    bi, cases = job        # cases: list of (template text, a, b, fmt)
    root = os.path.join(scratch_root(), 'tb%d.%d' % (os.getpid(), bi))
    shutil.rmtree(root, ignore_errors=True)
    os.makedirs(root)
    L = ["project('c14b')"]
    tmpl_ids = {}
    cds = {}
    expect = []
    for ci, (text, a, b, fmt) in enumerate(cases):
        if text not in tmpl_ids:
            tmpl_ids[text] = len(tmpl_ids)
            with open(os.path.join(root, 't%d.in' % tmpl_ids[text]), 'w', encoding='utf-8', newline='') as f:
                f.write(text)
        if (a, b, type(a), type(b)) not in cds:
            k = len(cds)
            cds[(a, b, type(a), type(b))] = k
            L.append('cd%d = configuration_data()' % k)
            L.append("cd%d.set('A', %s)" % (k, _mlit(a)))
            L.append("cd%d.set('B', %s)" % (k, _mlit(b)))
        out = 'o%d.out' % ci
        L.append("configure_file(input: 't%d.in', output: '%s', configuration: cd%d, format: '%s')" % (tmpl_ids[text], out, cds[(a, b, type(a), type(b))], fmt))
        r = run_real(split_lines(text), cd_for(a, b), fmt)
        expect.append((out, r))
    with open(os.path.join(root, 'meson.build'), 'w', encoding='utf-8') as f:
        f.write('\n'.join(L) + '\n')
    res = mp.run_meson(['setup', 'b', '--backend=none'], root, timeout=600)
    outv = []
    if res.rc != 0 or res.unhandled:
        outv.append(('C14:tierB:setup-fails', 'meson setup fails on templates that do_conf_str accepts: ' + res.out[-300:], {'cases': [list(map(repr, c)) for c in cases[:3]]}))
    else:
        for (out, r), (text, a, b, fmt) in zip(expect, cases):
            try:
                with open(os.path.join(root, 'b', out), 'r', encoding='utf-8', newline='') as f:
                    got = f.read()
            except OSError:
                got = None
            exp = ''.join(r[1])
            if got != exp:
                outv.append(('C14:tierB:file-differs:%s' % fmt, 'configure_file(format: %r) on template %r with A=%r B=%r wrote %r, do_conf_str gives %r' % (fmt, text, a, b, got, exp),
                             {'template': text, 'format': fmt, 'data': {'A': a, 'B': b}}))
    shutil.rmtree(root, ignore_errors=True)
    return len(cases), outv


def tierb_error_case(job):
    from verif import mesonproc as mp
    bi, (text, a, b, fmt) = job
    root = os.path.join(scratch_root(), 'tbe%d.%d' % (os.getpid(), bi))
    shutil.rmtree(root, ignore_errors=True)
    os.makedirs(root)
    with open(os.path.join(root, 't.in'), 'w', encoding='utf-8', newline='') as f:
        f.write(text)
    with open(os.path.join(root, 'meson.build'), 'w', encoding='utf-8') as f:
        f.write("project('c14e')\ncd = configuration_data()\ncd.set('A', %s)\ncd.set('B', %s)\nconfigure_file(input: 't.in', output: 'o.out', configuration: cd, format: '%s')\n" % (_mlit(a), _mlit(b), fmt))
    res = mp.run_meson(['setup', 'b', '--backend=none'], root, timeout=120)
    shutil.rmtree(root, ignore_errors=True)
    if res.unhandled or res.rc not in (0, 1):
        return [('C14:tierB:crash', 'meson setup crashes on template %r (%s): %s' % (text, fmt, res.out[-300:]), {'template': text, 'format': fmt, 'data': {'A': a, 'B': b}})]
    if res.rc == 0:
        return [('C14:tierB:error-not-raised', 'do_conf_str rejects template %r (%s) but configure_file() accepted it' % (text, fmt), {'template': text, 'format': fmt, 'data': {'A': a, 'B': b}})]
    return []


def tier_b(ck):
    from verif import mesonproc as mp
    mp.preimport()
    texts = [t for t, tup in TEMPLATES if len(tup) <= (2 if not ck.thorough else 2)]
    if ck.thorough:
        texts += [t for t, tup in TEMPLATES if len(tup) == 3][ck.seed % 7::7]
    datasets = [(a, b) for a in TB_VALUES for b in (TB_VALUES if ck.thorough else TB_VALUES[:4])]
    ok_cases, err_cases = [], []
    skipped = 0
    # the directive spelling family (cmake formats) end to end: with a real (sub)project the 'whitespace between # and cmakedefine' feature check runs
    main_texts = set(texts)
    stexts = [t for t, tup in S_TEMPLATES if len(tup) <= 2 and t not in main_texts]
    for text in texts + stexts:
        for fmt in (FORMATS if text in main_texts else S_FORMATS):
            for a, b in datasets:
                if HANG_CLASS_LIVE and self_referential(text, fmt, a, b):
                    skipped += 1
                    continue
                r = run_real(split_lines(text), cd_for(a, b), fmt)
                if r[0] == 'ok':
                    ok_cases.append((text, a, b, fmt))
                elif r[0] == 'err':
                    if len(err_cases) < (60 if not ck.thorough else 400) and (a, b) == datasets[0]:
                        err_cases.append((text, a, b, fmt))
                else:
                    skipped += 1
    B = 600
    jobs = [(i, ok_cases[i * B:(i + 1) * B]) for i in range((len(ok_cases) + B - 1) // B)]
    n = 0
    for cnt, viol in pmap(tierb_batch, jobs, chunksize=1):
        n += cnt
        for key, what, rep in viol:
            ck.violation(key, what, rep)
    ne = 0
    for viol in pmap(tierb_error_case, list(enumerate(err_cases)), chunksize=4):
        ne += 1
        for key, what, rep in viol:
            ck.violation(key, what, rep)
    ck.part('tierB', configure_file_calls=n, setups=len(jobs), error_templates=ne, skipped=skipped, templates=len(texts),
            templates_of_directive_spelling_family=len(stexts), datasets=len(datasets))
    ck.require(n > 5000 and ne > 10, 'tier B compared too little')
    return n + ne


# ---- file-level slice ------------------------------------------------------------------------------------------------
def file_slice(ck, maxlen, seed):
    root = os.path.join(scratch_root(), 'files')
    os.makedirs(root, exist_ok=True)
    src, dst = os.path.join(root, 't.in'), os.path.join(root, 't.out')
    # The output file is unlinked only when the template or the format changes: from the second data set on, the file is
    # rendered over the output of the previous data set (a reconfigure with other values), and ('v','v') / ('w','w') / ('v','w')
    # render to the same number of bytes, so nothing but the content tells the old output from the new one.
    picks = [DATASETS[(seed * 7 + k * 13) % len(DATASETS)] for k in range(4)] + [('v', 'v'), ('w', 'w'), ('v', 'w'), ('@B@', 'v')]
    n = crlf = over = 0
    for text, tup in TEMPLATES:
        if len(tup) > maxlen:
            break
        with open(src, 'wb') as f:
            f.write(text.encode('utf-8'))
        lines = split_lines(text)
        for fmt in FORMATS:
            if os.path.exists(dst):
                os.unlink(dst)
            earlier = []
            for (a, b) in picks:
                if self_referential(text, fmt, a, b) and HANG_CLASS_LIVE:
                    continue
                n += 1
                rep = {'part': 'file', 'template': text, 'format': fmt, 'data': {'A': a, 'B': b}, 'earlier_data': list(earlier)}
                exp = run_real(lines, cd_for(a, b), fmt)
                if exp[0] == 'hang':
                    continue        # reported by the enumeration
                if exp[0] != 'ok' and os.path.exists(dst):
                    os.unlink(dst)  # a refused rendering is not required to leave the previous output alone
                earlier.append([a, b])
                over += os.path.exists(dst)
                arm()
                try:
                    missing, _ = do_conf_file(src, dst, cd_for(a, b), fmt)
                    with open(dst, 'rb') as f:
                        got = ('ok', f.read(), set(missing))
                except MesonException as e:
                    got = ('err', str(e)[:120])
                except Exception as e:
                    got = ('crash', '%s: %s' % (type(e).__name__, e))
                except Hang:
                    got = ('hang',)
                finally:
                    disarm()
                if exp[0] == 'ok':
                    want = ('ok', ''.join(exp[1]).encode('utf-8'), exp[2])
                    if b'\r\n' in want[1]:
                        crlf += 1
                else:
                    want = (exp[0],)
                if got[:len(want)] != want if want[0] == 'ok' else got[0] != want[0]:
                    ck.violation('C14:file:%s' % fmt, 'do_conf_file differs from do_conf_str on %r: %r vs %r' % (text, got, want),
                                 dict(rep, expected=repr(want), observed=repr(got)))
    # encoding: (the template is read and the output written in the encoding the user names): one fresh rendering per template,
    # format and encoding, for every template the encoding can express
    enc_n = enc_nonascii = 0
    b = 'w'
    for enc, a in (('iso-8859-1', 'vé'), ('utf-16-le', 'vé'), ('koi8-r', 'vж')):
        for text, tup in TEMPLATES:
            if len(tup) > maxlen:
                break
            try:
                raw = text.encode(enc)
                a.encode(enc)
            except UnicodeEncodeError:
                continue
            with open(src, 'wb') as f:
                f.write(raw)
            lines = split_lines(text)
            for fmt in FORMATS:
                if self_referential(text, fmt, a, b) and HANG_CLASS_LIVE:
                    continue
                exp = run_real(lines, cd_for(a, b), fmt)
                if exp[0] != 'ok':
                    continue
                if os.path.exists(dst):
                    os.unlink(dst)
                enc_n += 1
                rep = {'part': 'file', 'template': text, 'format': fmt, 'data': {'A': a, 'B': b}, 'encoding': enc}
                arm()
                try:
                    do_conf_file(src, dst, cd_for(a, b), fmt, encoding=enc)
                    with open(dst, 'rb') as f:
                        got = f.read()
                except Hang:
                    got = 'hang'
                except Exception as e:
                    got = '%s: %s' % (type(e).__name__, e)
                finally:
                    disarm()
                want = ''.join(exp[1]).encode(enc)
                enc_nonascii += want != ''.join(exp[1]).encode('utf-8')
                if got != want:
                    ck.violation('C14:file:encoding:%s' % enc, 'do_conf_file(encoding=%r) on %r: output %r, expected the rendering in that encoding %r'
                                 % (enc, text, got, want), dict(rep, expected=repr(want), observed=repr(got)))
    ck.require(enc_nonascii > 50 or ck.n_viol > 0, 'file slice: encodings hardly ever mattered')
    ck.require(over > 0, 'file slice never rendered over an existing output')
    ck.part('file_slice', cases=n, other_encodings=enc_n, rendered_over_previous_output=over, max_fragments=maxlen, outputs_with_crlf=crlf, data_sets=[list(map(repr, p)) for p in picks])
    ck.require(crlf > 0 or ck.n_viol > 0, 'file slice never produced a CRLF output')
    return n


# ---- (4) header without a template -------------------------------------------------------------------------------------
HKEYS = ['B', 'a', 'A', 'b10', 'b9', '_x']
HVALS = ['v', '"q s"', '', 10, 0, True, False]


HSTAT = {}


def header_expected_directive(prefix, k, v):
    if v is True:
        return '%sdefine %s' % (prefix, k)
    if v is False:
        return '%sundef %s' % (prefix, k)
    return ('%sdefine %s %s' % (prefix, k, v)).rstrip(' ')


def header_case(ck, path, items, ofmt, macro, verbose=False):
    """items: list of (key, value, desc) in insertion order. Returns an outcome class tag."""
    cd = ConfigurationData({k: (v, d) for k, v, d in items})
    rep = {'part': 'header', 'items': [list(i) for i in items], 'output_format': ofmt, 'macro_name': macro}
    if os.path.exists(path):
        os.unlink(path)
    try:
        dump_conf_header(path, cd, ofmt, macro)
        with open(path, encoding='utf-8', newline='') as f:
            text = f.read()
    except Exception as e:
        ck.violation('C14:header:crash', 'dump_conf_header raised %s: %s' % (type(e).__name__, e), rep)
        return 'crash'
    if verbose:
        print('observed:\n' + text)
    want_keys = sorted(k for k, _, _ in items)
    vals = {k: (v, d) for k, v, d in items}
    if ofmt == 'json':
        try:
            pairs = json.loads(text, object_pairs_hook=lambda p: p)
        except ValueError as e:
            ck.violation('C14:header:json', 'not JSON: %s' % e, dict(rep, observed=text))
            return 'json-bad'
        got = [(k, type(v).__name__, v) for k, v in pairs]
        exp = [(k, type(vals[k][0]).__name__, vals[k][0]) for k in want_keys]
        if verbose:
            print('expected pairs', exp, 'observed', got)
        if got != exp:
            ck.violation('C14:header:json', 'json header has %r, expected %r' % (got, exp), dict(rep, expected=repr(exp), observed=text))
        return 'json'
    prefix = '#' if ofmt == 'c' else '%'
    lines = text.split('\n')
    if '\r' in text:
        ck.violation('C14:header:cr', 'carriage return in generated header', dict(rep, observed=text))
    found = []
    guard_idx = set()
    if ofmt == 'c' and macro:
        for i, l in enumerate(lines[:-1]):
            if l == '#ifndef ' + macro and lines[i + 1] == '#define ' + macro:
                guard_idx = {i + 1}
                break
        last = [l for l in lines if l]
        if not guard_idx or not last or last[-1] != '#endif' or '#pragma once' in text:
            ck.violation('C14:header:guard', 'macro_name=%r: no #ifndef/#define/#endif guard' % macro, dict(rep, observed=text))
    elif ofmt == 'c' and '#pragma once' not in lines:
        ck.violation('C14:header:guard', 'no "#pragma once" without macro_name', dict(rep, observed=text))
    dre = re.compile(r'\s*' + re.escape(prefix) + r'\s*(define|undef)\b')
    for i, l in enumerate(lines):
        if i not in guard_idx and dre.match(l):
            # Configuration.md: "The replacements are the same as when generating #mesondefine entries", and its pattern is
            # "#define TOKEN 4 // If TOKEN is set to an integer or string value": nothing says what the pattern means for an empty string
            # ('#define TOKEN ' literally, '#define TOKEN' as #mesondefine writes it), so a trailing blank is not compared, only counted
            if l != l.rstrip(' '):
                HSTAT['entries_with_trailing_blank_for_empty_string'] = HSTAT.get('entries_with_trailing_blank_for_empty_string', 0) + 1
            found.append((i, l.rstrip(' ')))
    exp = [header_expected_directive(prefix, k, vals[k][0]) for k in want_keys]
    if verbose:
        print('expected directives', exp, 'observed', [l for _, l in found])
    if [l for _, l in found] != exp:
        got = [l for _, l in found]
        if sorted(got) == sorted(exp):
            key = 'C14:header:order'
        else:
            key = 'C14:header:entries'
        ck.violation(key, '%s header has directives %r, expected %r' % (ofmt, got, exp), dict(rep, expected=exp, observed=got))
        return 'bad'
    for (i, l), k in zip(found, want_keys):
        d = vals[k][1]
        if d:
            if ofmt == 'c':
                ok = '\n'.join(lines[:i]).endswith('/* %s */' % d)
            else:
                dl = d.splitlines()
                ok = i >= len(dl) and all(lines[i - len(dl) + j].startswith(';') and lines[i - len(dl) + j][1:].strip() == x.strip()
                                          for j, x in enumerate(dl))
            if not ok:
                ck.violation('C14:header:description', 'description %r of %s is not the comment before its entry' % (d, k),
                             dict(rep, observed=text))
    return ofmt + ('+guard' if macro else '')


def header_cases(thorough):
    """Simplest first: rendering (all ordered key tuples <= 2 x all values x description) then ordering (all
       permutations of 3..n keys with values cycling through HVALS)."""
    for n in range(0, 3):
        for ks in itertools.permutations(HKEYS, n):
            for vs in itertools.product(HVALS, repeat=n):
                for d0 in ((None, 'first key is "described"', 'two\nlines') if n else (None,)):
                    yield [(k, v, d0 if j == 0 else None) for j, (k, v) in enumerate(zip(ks, vs))]
    for n in ((3, 4, 5, 6) if thorough else (3, 4)):
        for ks in itertools.permutations(HKEYS, n):
            for rot in ((0, 3) if n <= 4 else (0,)):
                yield [(k, HVALS[(j + rot) % len(HVALS)], 'd' if j == 1 else None) for j, k in enumerate(ks)]


def header_part(ck):
    path = os.path.join(scratch_root(), 'conf.h')
    n = unsorted = 0
    classes = set()
    for items in header_cases(ck.thorough):
        ks = [k for k, _, _ in items]
        if ks != sorted(ks):
            unsorted += 1
        for ofmt in ('c', 'nasm', 'json'):
            for macro in ((None, 'GUARD_H') if ofmt == 'c' else (None,)):
                n += 1
                cls = header_case(ck, path, items, ofmt, macro)
                classes.add((cls, tuple(sorted({kind(v) if not isinstance(v, bool) else str(v) for _, v, _ in items}))))
    ck.part('header', cases=n, cases_inserted_out_of_order=unsorted, keys=HKEYS, values=[repr(v) for v in HVALS], **HSTAT)
    ck.require(unsorted > 100, 'header oracle never saw keys inserted out of order')
    ck.sample({'header_items': [['b9', 10, None], ['B', True, 'd'], ['a', '', None]], 'formats': ['c', 'nasm', 'json']})
    return n, len(classes)


# ---- reference self-calibration on the pinned expectations --------------------------------------------------------------
def c_string_literals(path, macro_prefix='MESSAGE'):
    out = {}
    for l in open(path, encoding='utf-8'):
        m = re.match(r'#define (%s\d+) "(.*)"\s*$' % macro_prefix, l)
        if m:
            out[m.group(1)] = m.group(2)
    return out


def c_decode(lit):
    """Value of a C string literal body (same function on both sides; '\\@' -> '@' as compilers do)."""
    return re.sub(r'\\(.)', lambda m: m.group(1), lit)


def calibrate(ck):
    """The reference (not the implementation) must reproduce config6/config7/config10 -> prog6/prog7/prog10."""
    from verif.core import REPO
    d = os.path.join(REPO, 'test cases', 'common', '14 configure file')
    n = 0
    for cfg, prog, fmt, data in (('config6.h.in', 'prog6.c', 'meson', {'var1': 'foo', 'var2': 'bar', 'var3': 'baz', 'var4': 'qux'}),
                                 ('config7.h.in', 'prog7.c', 'cmake', {'var1': 'foo', 'var2': 'bar'}),
                                 ('config10.h.in', 'prog10.c', 'cmake', {'var': 'foo'})):
        tmpl = c_string_literals(os.path.join(d, cfg))
        want = dict(re.findall(r'strcmp\((MESSAGE\d+), "(.*?)"\)', open(os.path.join(d, prog), encoding='utf-8').read()))
        ck.require(len(tmpl) >= 2 and set(tmpl) == set(want), 'cannot parse pinned expectations of ' + cfg)
        for name, t in tmpl.items():
            spec = analyse('#define %s "%s"\n' % (name, t), fmt)
            ck.require(spec[0] == 'plain', 'reference classifies pinned line %s of %s as %s' % (name, cfg, spec[0]))
            exp, _, why = render_plain(spec[1], fmt, data)
            m = re.match(r'#define %s "(.*)"$' % name, exp or '')
            ck.require(m is not None and c_decode(m.group(1)) == c_decode(want[name]),
                       'reference scanner disagrees with pinned expectation %s/%s: %r vs %r' % (cfg, name, exp, want[name]))
            n += 1
    # pinned do_conf_str unit expectations (unittests/allplatformstests.py test_do_conf_file_by_format)
    pinned = [('#mesondefine VAR', 'meson', {}, '/* #undef VAR */'), ('#mesondefine VAR', 'meson', {'VAR': False}, '#undef VAR'),
              ('#mesondefine VAR', 'meson', {'VAR': True}, '#define VAR'), ('#mesondefine VAR', 'meson', {'VAR': 'value'}, '#define VAR value'),
              ('#mesondefine VAR', 'meson', {'VAR': 10}, '#define VAR 10'),
              ('#cmakedefine VAR ${VAR}', 'cmake', {}, '/* #undef VAR */'), ('#cmakedefine VAR @VAR@', 'cmake@', {'VAR': False}, '/* #undef VAR */'),
              ('#cmakedefine VAR', 'cmake', {'VAR': True}, '#define VAR'), ('#cmakedefine VAR ${VAR}', 'cmake', {'VAR': True}, '#define VAR 1'),
              ('#cmakedefine VAR @VAR@', 'cmake@', {'VAR': 'value'}, '#define VAR value'), ('#cmakedefine VAR ${VAR}', 'cmake', {'VAR': 10}, '#define VAR 10'),
              ('#cmakedefine01 VAR', 'cmake', {'VAR': True}, '#define VAR 1'), ('#cmakedefine01 VAR', 'cmake', {'VAR': 0}, '#define VAR 0'),
              ('#cmakedefine01 VAR', 'cmake', {'VAR': False}, '#define VAR 0'), ('#cmakedefine01 VAR', 'cmake', {}, '#define VAR 0'),
              ('#cmakedefine VAR', 'cmake', {'VAR': 5}, '#define VAR'),
              ('#cmakedefine VAR xxx @VAR@ yyy @VAR@', 'cmake@', {'VAR': 'value'}, '#define VAR xxx value yyy value'),
              ('#cmakedefine VAR xxx ${VAR} yyy ${VAR}', 'cmake', {'VAR': 'value'}, '#define VAR xxx value yyy value')]
    for line, fmt, data, want in pinned:
        spec = analyse(line + '\n', fmt)
        ck.require(spec[0] == 'define', 'reference does not see a define line in %r' % line)
        bodies, _, _ = render_define(spec, fmt, data)
        ck.require(bodies and bodies[0] == want, 'reference define rendering of %r with %r: %r, pinned %r' % (line, data, bodies, want))
        n += 1
    for line, fmt in (('#mesondefine VAR xxx', 'meson'), ('#cmakedefine VAR', 'meson'), ('#mesondefine VAR', 'cmake'), ('#mesondefine VAR', 'cmake@')):
        ck.require(analyse(line, fmt)[0] == 'error', 'reference does not reject pinned-invalid %r (%s)' % (line, fmt))
        n += 1
    return n


# ---- main --------------------------------------------------------------------------------------------------------------
def main():
    global TEMPLATES
    ck = Check('C14', 'exploration')
    if ck.args.replay:
        return replay(ck)
    maxlen = ck.q(3, 4)
    ck.require(len(FRAGS) == 32 and len(set(FRAGS)) == 32, 'alphabet is not 32 distinct fragments')
    ck.require(not any('\r' in f.replace('\r\n', '') for f in FRAGS), 'lone CR in the alphabet')
    ncal = calibrate(ck)
    ck.part('calibration', pinned_expectations_reproduced_by_reference=ncal)
    TEMPLATES, nseq = build_templates(maxlen)
    global HANG_CLASS_LIVE
    pacc = Acc()
    for t in ('@B@', '#cmakedefine A @B@\n'):
        check_template(pacc, t, [t], ['cmake', 'cmake@'], [('v', '\\\\@B@')])
    HANG_CLASS_LIVE = pacc.hangs > 0
    for key, what, rep in pacc.viol:
        if key == K_HANG:
            ck.part('known_finding_witnesses', **{key: {'template': rep['template'], 'format': rep['format'], 'data': rep['data']}})
        ck.violation(key, what, rep)
    ck.part('hang_probe', probes=4, hangs=pacc.hangs, class_skipped_in_enumeration=HANG_CLASS_LIVE)
    if ck.args.only == 'names':          # debugging: only the names family (no evidence is written with --only)
        ntot, nunspec, nclasses = names_family(ck, ck.q(2, 3))
        stot, sunspec, sclasses = spelling_family(ck, ck.q(3, 4))
        nclasses |= sclasses
        ntot['evaluations'] += stot.get('evaluations', 0)
        cmake_calibration(ck)
        print(json.dumps(ck.parts, indent=1, sort_keys=True, default=repr))
        ck.finish(evaluations=ntot.get('evaluations', 0), distinct_nontrivial=len(nclasses), rule='names family only', exhaustive=True)
    if ck.args.only == 'values':         # debugging: only the value names family
        vtot, vunspec, vclasses = values_family(ck, ck.q(4, 5))
        print(json.dumps(ck.parts, indent=1, sort_keys=True, default=repr))
        ck.finish(evaluations=vtot.get('evaluations', 0), distinct_nontrivial=len(vclasses), rule='value names family only', exhaustive=True)
    nt = len(TEMPLATES)
    # contiguous shards, simplest first; smaller shards first so early (short) counterexamples surface in order
    step = max(50, nt // 320)
    ranges = [(lo, min(nt, lo + step)) for lo in range(0, nt, step)]
    t_build = time.time()
    tot, unspec, vcount, classes, seen = {}, {}, {}, set(), set()
    for res in pmap(shard, ranges):
        for k, v in res['n'].items():
            tot[k] = tot.get(k, 0) + v
        for k, v in res['unspec'].items():
            unspec[k] = unspec.get(k, 0) + v
        for k, v in res['vcount'].items():
            vcount[k] = vcount.get(k, 0) + v
        classes.update(res['classes'])
        for key, what, rep in res['viol']:
            first = key not in seen
            seen.add(key)
            report(ck, key, what, rep)
            if first and any(k['key'] == key and k.get('status') == 'known' for k in ck.known):
                ck.part('known_finding_witnesses', **{key: {'template': rep['template'], 'format': rep['format'], 'data': rep['data'],
                                                            'expected': rep.get('expected'), 'observed': rep.get('observed')}})
    ck.part('templates', fragment_sequences=nseq, distinct_texts=nt, max_fragments=maxlen, formats=FORMATS,
            data_sets=len(DATASETS), shards=len(ranges), **tot)
    ck.part('finding_class_case_counts', **vcount)
    ck.part('skipped_unspecified_by_reason', **unspec)
    ck.cov['skipped_unspecified'] = sum(unspec.values())
    for u in sorted(UNSPEC):
        ck.assume('unspecified corner %s: %s' % (u, UNSPEC[u]))
    ck.assume('name characters: only ASCII letters/digits occur in the alphabet, so the exact placeholder-name character set is not probed')
    ck.assume('"sorted order" of the template-less header = Python str order (code points)')
    ck.assume('templates are split into lines exactly as do_conf_file does (open(newline="").readlines()); the file slice ties do_conf_file to do_conf_str')
    # anti-vacuity
    ck.require(tot.get('o1_cases', 0) > 1000, 'marker differential never ran')
    ck.require(tot.get('o1_placeholder_like_value_substituted', 0) > 100 or ck.n_viol > 0, 'no case substituted a value that looks like a placeholder')
    ck.require(tot.get('o2_lines_compared', 0) > 1000 and tot.get('o2_define_lines', 0) > 100, 'reference oracle compared nothing')
    ck.require(tot.get('o2_error_expected', 0) > 10, 'no pinned-error template seen')
    ck.require(tot.get('o3_missing_nonempty', 0) > 100 and tot.get('copy_cases', 0) > 100, 'metamorphic oracles vacuous')
    ck.require(any('esc-var' in c for c in classes) and any('esc-pairs' in c for c in classes) and any('crlf' in c for c in classes),
               'escape / CRLF classes not exercised')
    t_enum = time.time()
    ntot, nunspec, nclasses = names_family(ck, ck.q(2, 3))
    stot, sunspec, sclasses = spelling_family(ck, ck.q(3, 4))
    vtot, vunspec, vclasses = values_family(ck, ck.q(4, 5))
    cmake_calibration(ck)
    ck.cov['skipped_unspecified'] += sum(nunspec.values()) + sum(sunspec.values()) + sum(vunspec.values())
    classes |= nclasses | sclasses | vclasses
    ck.part('hang_watchdog', cpu_seconds_first_attempt=HANG_CPU_S, cpu_seconds_confirmation=HANG_CONFIRM_CPU_S, wall_backstop_seconds=HANG_WALL_S,
            confirmation_runs_in_parent=HSTATS.get('confirmation_runs', 0), reports_not_confirmed=NOT_CONFIRMED[:5])
    t_names = time.time()
    nfile = file_slice(ck, 2, ck.seed)
    t_file = time.time()
    nhead, hclasses = header_part(ck)
    ntb = tier_b(ck) if ck.want('tierb') else 0
    print('phases: probes+build %.1fs enumeration %.1fs names+spelling families %.1fs file slice %.1fs header+tierB %.1fs' % (
        t_build - ck.t0, t_enum - t_build, t_names - t_enum, t_file - t_names, time.time() - t_file), flush=True)
    esc = next((t for t in TEMPLATES if '\\@A\\@' in t[0] and t[0].endswith('\r\n') and '@B@' in t[0]), TEMPLATES[0])
    ck.sample({'template': esc[0], 'fragments': [FRAGS[i] for i in esc[1]], 'format': 'meson', 'data': {'A': '@B@', 'B': 'x y'},
               'observed': ''.join(run_real(split_lines(esc[0]), cd_for('@B@', 'x y'), 'meson')[1])})
    ck.sample({'template': TEMPLATES[nt // 2][0], 'fragments': [FRAGS[i] for i in TEMPLATES[nt // 2][1]], 'formats': FORMATS})
    ck.sample({'template': TEMPLATES[nt - 7][0], 'fragments': [FRAGS[i] for i in TEMPLATES[nt - 7][1]], 'formats': FORMATS})
    ck.sample({'template': '${A_@B@}x${${B}}\n', 'fragments': ['${A_@B@}', 'x', '${${B}}', '\n'], 'format': 'cmake', 'data': {'A': 'v', 'B': 'v', 'A_v': 7},
               'observed': repr(run_real(['${A_@B@}x${${B}}\n'], cd_for_data({'A': 'v', 'B': 'v', 'A_v': 7}), 'cmake')[1:])})
    ck.finish(evaluations=tot.get('evaluations', 0) + ntot.get('evaluations', 0) + stot.get('evaluations', 0) + vtot.get('evaluations', 0) + nfile + nhead + ntb,
              distinct_nontrivial=len(classes) + hclasses,
              rule='every sequence of <= %d fragments from the 32-fragment alphabet (%d sequences, %d distinct texts) x 100 data sets '
                   '(A,B in %r) x formats %s through the real do_conf_str (+ marker-structure runs for the meson format); names family: every sequence of '
                   '<= %d fragments from a 20-fragment alphabet of references with computed names x %d data sets (A, B and at most one further key out of the '
                   'names that can be composed) x formats; directive spelling family: every sequence of <= %d fragments from a 19-fragment alphabet of '
                   '#cmakedefine directives with white space before / after the # and around the name, value words and line endings x 100 data sets x {cmake, cmake@}; value names family (meson): '
                   'every sequence of <= %d fragments from an 11-fragment alphabet of #mesondefine A/B, @A@ @B@ @U@ @V@, a longer word beginning with the keyword, filler and line endings x %d data sets whose values mention bound, '
                   'unbound and their own names; do_conf_file on all '
                   'texts <= 2 fragments; dump_conf_header on all ordered key tuples <= 2 x values x description and all permutations of '
                   '3..%d keys x {c,nasm,json} x macro guard; tier B: all texts <= 2 fragments x data x formats through configure_file() of a real meson setup. distinct_nontrivial = number of distinct (format, set of reference line '
                   'features: var/escape kinds/define kinds/error/CRLF/unspecified reason) classes among templates having at least one '
                   'feature + distinct (header format, value-kind set) classes' % (maxlen, nseq, nt, VALUES, FORMATS, ck.q(2, 3), len(N_DATASETS), ck.q(3, 4), ck.q(4, 5), len(V_DATASETS), 6 if ck.thorough else 4),
              exhaustive=tot.get('not_run_after_hangs', 0) == 0 and not NOT_CONFIRMED)


def replay(ck):
    d = json.load(open(ck.args.replay))
    print('replay %s: %s' % (d.get('key'), d.get('what', '')[:300]))
    if d.get('part') == 'header':
        items = [tuple(i) for i in d['items']]
        header_case(ck, os.path.join(scratch_root(), 'conf.h'), items, d['output_format'], d['macro_name'], verbose=True)
    elif d.get('part') == 'file':
        TEMPLATES.append((d['template'], (0,)))
        root = scratch_root()
        text, fmt, a, b = d['template'], d['format'], d['data']['A'], d['data']['B']
        src, dst = os.path.join(root, 't.in'), os.path.join(root, 't.out')
        enc = d.get('encoding', 'utf-8')
        open(src, 'wb').write(text.encode(enc))
        exp = run_real(split_lines(text), cd_for(a, b), fmt)
        for (a0, b0) in d.get('earlier_data', []):
            try:
                do_conf_file(src, dst, cd_for(a0, b0), fmt)
            except MesonException:
                if os.path.exists(dst):
                    os.unlink(dst)
        try:
            do_conf_file(src, dst, cd_for(a, b), fmt, encoding=enc)
            got = open(dst, 'rb').read()
        except MesonException as e:
            got = 'error: %s' % e
        want = ''.join(exp[1]).encode(enc) if exp[0] == 'ok' else 'error: ' + exp[1]
        print('expected (do_conf_str):', repr(want))
        print('observed (do_conf_file):', repr(got))
        if (exp[0] == 'ok') != isinstance(got, bytes) or (exp[0] == 'ok' and got != want):
            ck.violation(d['key'], d['what'], {k: v for k, v in d.items() if k not in ('property', 'key', 'what')})
    else:
        text, fmt = d['template'], d['format']
        print('template  :', repr(text), 'format', fmt, 'data', d['data'])
        acc = Acc()
        check_template(acc, text, d.get('frags', []), [fmt], [(d['data']['A'], d['data']['B']) if set(d['data']) == {'A', 'B'} else d['data']], verbose=True)
        for key, what, rep in acc.viol:
            ck.violation(key, what, rep)
        if not acc.viol:
            print('no disagreement any more')
    ck.finish(evaluations=1, distinct_nontrivial=0, rule='replay of one recorded case', exhaustive=False)


run_main(main)
