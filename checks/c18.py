# C18 - TAP streams are interpreted per the TAP specification.
#
# Explicit-state BFS over the product  (real TAPParser fields) x (reference TAP 12/13 consumer state)  over a 27-form
# line alphabet.  Every transition is executed on the real parser: the representative prefix of the source state plus
# the new line is REPLAYED on a fresh TAPParser through the public generator `TAPParser().parse(it)`; `it` is a line
# iterator owned by the check which marks the line boundaries (so the events of every line and of end-of-stream are
# known separately) and snapshots the parser fields when the parser asks for the line after the last one.  The
# events of the new line and of end-of-stream are compared with the reference consumer.  Product states are merged
# on the key (real fields, reference state) only, so merged states have the same futures on both sides.
# Further parts: flat (unmerged) enumeration of all sequences <= N incl. the whole-test verdict through the real
# TestRunTAP x exit status {0,1}; all strings of <= 2 printable characters as one-line streams; every Unicode code point in
# the number / directive-word positions of 16 line templates; the pinned streams.
import io, json, re, sys, types
from collections import namedtuple
from verif.core import Check, pmap, run_main

from mesonbuild import mtest
from mesonbuild.mtest import TAPParser

ALPHA = ['ok', 'not ok', 'ok 1', 'ok 2', 'ok 3', 'not ok 2', 'ok # SKIP r', 'not ok # SKIP', 'ok # TODO',
         'not ok # TODO', 'ok # FOO', 'ok 1 - name',
         '1..0', '1..1', '1..2', '1..3', '1..0 # SKIP r', '1..2 # TODO',
         'Bail out! m', 'TAP version 13', 'TAP version 12', '# diag', '', '  ---', '  k: v', '  ...', 'junk']
LINES = [a + '\n' for a in ALPHA]       # the harness feeds lines with their newline (read_decode)
NA = len(ALPHA)

# ======================================================================================================
# Reference consumer, written from the TAP 12/13 specification and the property text.
#   state  R(first, v13, mode, indent, plan, plan_late, late_seen, bailed, count, prev, seen, dup)
#   step(R, line)  -> R', events, must, may, prune
#   end(R)         -> must, may
# events are the non-error events; `must` = error classes that require an error event at this step, `may` = classes
# for which an error event at this step is allowed but not required (deferred to end of stream, or an unspecified
# corner).  `prune` = the meaning of the rest of the stream is not specified; the state is not extended.
# ======================================================================================================
R = namedtuple('R', 'first v13 mode indent plan plan_late late_seen bailed count prev seen dup dup_paid')
R0 = R(True, False, 'M', '', None, False, False, False, 0, 0, (), False, False)


def pay(r, may, sk):
    """The implementation chose to report a duplicate on the spot (allowed): the numbering error at end of stream that
    the duplicate entails is then no longer required.  (Never happens on the pinned tree, which reports at the end.)"""
    if sk == 2 and 'duplicate' in may and not r.dup_paid:
        return r._replace(dup_paid=True)
    return r

_T_VERSION = re.compile(r'TAP version ([0-9]+)$')
_T_PLAN = re.compile(r'1\.\.([0-9]+)\s*(?:#\s*(.*))?$')
_T_NUM = re.compile(r'([0-9]+)(?=\s|\#|$)')


def _directive(text):
    """SKIP.../TODO (any case) as the first word after '#'; anything else is a plain comment (unspecified corner)."""
    w = text.split()
    if not w:
        return None
    u = ''.join(ch.upper() if ch.isascii() else ch for ch in w[0])     # the directive words are ASCII letters
    if u.startswith('SKIP'):
        return 'SKIP'
    if u == 'TODO':
        return 'TODO'
    return None


def tokenize(line):
    s = line.rstrip()
    if not s:
        return ('blank',)
    if s[0] == '#':
        return ('diag',)
    if s[0].isspace():
        body = s.lstrip()
        return ('indented', s[:len(s) - len(body)], body)
    m = _T_VERSION.match(s)
    if m:
        return ('version', int(m.group(1)))
    m = _T_PLAN.match(s)
    if m:
        d = m.group(2)
        return ('plan', int(m.group(1)), None if d is None else (_directive(d) or 'OTHER'))
    if s.startswith('Bail out!'):
        return ('bail',)
    for word, ok in (('not ok', False), ('ok', True)):
        if s.startswith(word):
            rest = s[len(word):]
            if rest and not rest[0].isspace():
                return ('unspec',)            # 'okay', 'ok1', 'ok#x': the specification does not say
            rest = rest.strip()
            num = None
            if rest and rest[0] in '0123456789':      # a TAP number is a run of the ASCII digits 0-9, nothing else
                m = _T_NUM.match(rest)
                if not m:
                    return ('unspec',)        # 'ok 1abc'
                num = int(m.group(1))
                rest = rest[m.end():]
            h = rest.find('#')
            if h < 0:
                name, d = rest.strip(), None
            else:
                name, d = rest[:h].strip(), _directive(rest[h + 1:])
            if d == 'SKIP':
                res = 'SKIP' if ok else 'FAIL'
            elif d == 'TODO':
                res = 'UNEXPECTEDPASS' if ok else 'EXPECTEDFAIL'
            else:
                res = 'OK' if ok else 'FAIL'
            return ('test', num, name, res)
    return ('unknown',)


def ref_step(r, line, lineno):
    tok = tokenize(line)
    kind = tok[0]
    must, may, ev = set(), set(), []
    mode = r.mode
    first = r.first
    r = r._replace(first=False)
    # ---- YAML blocks: only in a TAP >= 13 stream and only on the line right after a test line
    if mode == 'T':
        if r.v13 and kind == 'indented' and tok[2].startswith('---'):
            return r._replace(mode='Y', indent=tok[1]), ev, must, may, False
        mode = 'M'
    elif mode == 'Y':
        if kind == 'indented' and tok[2] == '...':
            return r._replace(mode='M', indent=''), ev, must, may, False
        if line.startswith(r.indent):
            return r, ev, must, may, False
        if kind == 'blank':
            # unspecified corner: an empty line inside a YAML block (part of the block, or its unterminated end?)
            may.add('yaml-blank')
            return r._replace(mode='M', indent=''), ev, must, may, True
        must.add('yaml-unterminated')
        mode = 'M'
    r = r._replace(mode=mode, indent='')
    if kind in ('blank', 'diag'):
        return r, ev, must, may, False
    if kind == 'unspec':
        return r, None, must, may, True      # not even the events are specified
    if kind in ('unknown', 'indented'):
        ev.append(('unknown', lineno))
        return r, ev, must, may, False
    if kind == 'version':
        if not first:
            must.add('version-misplaced')
        elif tok[1] < 13:
            must.add('version-below-13')
        else:
            ev.append(('version', tok[1]))
            r = r._replace(v13=True)
        return r, ev, must, may, False
    if kind == 'bail':
        ev.append(('bailout',))
        return r._replace(bailed=True), ev, must, may, False
    if kind == 'plan':
        n, d = tok[1], tok[2]
        if r.plan is not None:
            must.add('second-plan')
            return r, ev, must, may, False
        skipped = (n == 0)
        if d == 'SKIP' and n > 0:
            may.add('plan-skip-with-tests')      # unspecified corner (not in the property's list)
            skipped = None
        elif d is not None and d != 'SKIP':
            may.add('plan-directive')            # unspecified corner
        if r.count > n:
            may.add('count-mismatch')            # reportable now, required at end of stream
        if r.seen and max(r.seen) > n:
            may.add('beyond-plan')
        ev.append(('plan', n, r.count > 0, skipped))
        return r._replace(plan=n, plan_late=r.count > 0), ev, must, may, False
    assert kind == 'test'
    if r.plan is not None and r.plan_late:
        if r.late_seen:
            may.add('test-after-late-plan')      # repeated occurrence: one error event is enough
        else:
            must.add('test-after-late-plan')
            r = r._replace(late_seen=True)
    num = tok[1] if tok[1] is not None else r.prev + 1
    count = r.count + 1
    if r.plan is not None:
        if num > r.plan:
            must.add('beyond-plan')
        if count > r.plan:
            may.add('count-mismatch')
    dup = r.dup
    if num in r.seen:
        dup = True
        may.add('duplicate')                     # reportable now, required (as a missing number) at end of stream
    seen = tuple(sorted(set(r.seen) | {num}))
    ev.append(('test', num, tok[2], tok[3]))
    return r._replace(mode='T', count=count, prev=num, seen=seen, dup=dup), ev, must, may, False


def ref_end(r):
    must, may = set(), set()
    if r.mode == 'Y':
        must.add('yaml-unterminated')
    num = set()
    if r.plan is not None and r.count != r.plan:
        num.add('count-mismatch')
    if set(r.seen) != set(range(1, r.count + 1)):
        num.add('missing-number')
        if r.dup:
            num.add('duplicate')
    # after Bail out! the run was aborted: counts are not expected to add up (not compared: unspecified corner,
    # pinned by test_too_few_bailout as "no error")
    waived = r.bailed or (r.dup_paid and num <= {'duplicate', 'missing-number'})
    (may if waived else must).update(num)
    return must, may


# ======================================================================================================
# Real side
# ======================================================================================================
FIELDS = ('state', 'plan', 'num_tests', 'last_test', 'highest_test', 'found_late_test', 'bailed_out', 'version',
          'yaml_indent')


def _canon(v):
    if isinstance(v, (set, frozenset)):
        return ('set',) + tuple(sorted(map(_canon, v), key=repr))
    if isinstance(v, dict):
        return ('dict',) + tuple(sorted(((_canon(k), _canon(x)) for k, x in v.items()), key=repr))
    if isinstance(v, (list, tuple)):
        return tuple(_canon(x) for x in v)
    if isinstance(v, (int, str, bool, type(None))):
        return v
    return repr(v)


def snapshot(p):
    t = []
    for f in FIELDS:
        v = getattr(p, f, None)
        if f == 'plan' and v is not None:
            v = (v.num_tests, v.late)       # skipped/explanation are never read back by the parser
        t.append(_canon(v))
    t.append(getattr(p, 'lineno', 0) == 0)  # only "next line is the first line" influences the parser
    # any further instance attribute (a later version of the parser may keep more state, e.g. the set of numbers seen)
    for k in sorted(vars(p)):
        if k not in FIELDS and k not in ('lineno', 'yaml_lineno'):
            t.append((k, _canon(vars(p)[k])))
    return tuple(t)


def norm(e):
    if isinstance(e, TAPParser.Error):
        return ('error',)
    if isinstance(e, TAPParser.Test):
        return ('test', e.number, e.name, getattr(e.result, 'name', repr(e.result)))
    if isinstance(e, TAPParser.Plan):
        return ('plan', e.num_tests, e.late, e.skipped)
    if isinstance(e, TAPParser.Bailout):
        return ('bailout',)
    if isinstance(e, TAPParser.Version):
        return ('version', e.version)
    if isinstance(e, TAPParser.UnknownLine):
        return ('unknown', e.lineno)
    return ('?', type(e).__name__)


def real_trace(lines):
    """Replay `lines` on a fresh parser through TAPParser.parse(); returns (segments, snapshot) where segments[i] is
    the list of events emitted for lines[i] and segments[-1] those of end-of-stream, or ('raise', text)."""
    p = TAPParser()
    segs = []
    box = [None, None]

    def feed():
        for l in lines:
            box[0] = []
            segs.append(box[0])
            yield l
        box[1] = snapshot(p)
        box[0] = []
        segs.append(box[0])
    try:
        for e in p.parse(feed()):
            box[0].append(norm(e))
    except Exception as x:      # property: no input makes the parser raise
        return ('raise', '%s: %s' % (type(x).__name__, x)), None
    return segs, box[1]


def cmp_events(exp, got):
    if len(exp) != len(got):
        return False
    for a, b in zip(exp, got):
        if a[0] == 'plan' and b[0] == 'plan' and a[3] is None:
            a, b = a[:3], b[:3]
        if a != b:
            return False
    return True


def compare(where, seg, ev, must, may, r2):
    """-> (violation or None, skipped_unspecified).  violation = (key, text)."""
    got = [e for e in seg if e[0] != 'error']
    nerr = len(seg) - len(got)
    if not cmp_events(ev, got):
        kinds = '+'.join(sorted({e[0] for e in ev} | {e[0] for e in got})) or 'none'
        return ('C18:%s:events:%s' % (where, kinds), 'events differ: expected %r, parser gave %r' % (ev, got)), 0
    if must and not nerr:
        key = 'C18:%s:missing-error:%s' % (where, '+'.join(sorted(must)))
        if where == 'end' and must == {'duplicate', 'missing-number'} and max(r2.seen) == r2.count:
            # narrow class of DESIGN 7.11: some number occurs twice, some number of 1..count is absent, the highest
            # number equals the number of tests, the count agrees with the plan (or there is none), no other error due
            key = 'C18:dup-with-gap'
        if where == 'end' and must == {'missing-number'} and 0 in r2.seen and max(r2.seen) == r2.count:
            # a test numbered 0 (TAP numbers start at 1) stands in for the absent number: the highest number equals the number
            # of tests, nothing is repeated, the count agrees with the plan (or there is none) - and some number of 1..count is absent
            key = 'C18:number-zero-with-gap'
        return (key, 'an error event is required (%s) but the parser emitted none' % ', '.join(sorted(must))), 0
    if nerr and not must and not may:
        return ('C18:%s:spurious-error' % where, 'parser emitted %d error event(s), the reference has no reason for one' % nerr), 0
    return None, ((2 if nerr else 1) if (may and not must) else 0)    # 1/2: error presence not compared (2: one was emitted)


def check_stream(lines):
    """Whole-trace comparison of one stream (used by flat/pinned/replay).  Returns dict."""
    tr, _ = real_trace(lines)
    out = {'viol': None, 'viols': [], 'skipped': 0, 'optional_emitted': 0, 'pruned': False, 'steps': [], 'real': tr, 'ref_error': False, 'ref_may': False,
           'ref_bail': False, 'ref_badtest': False}
    if tr[0] == 'raise':
        out['viol'] = ('C18:raise', 'parser raised ' + tr[1], 0)
        out['viols'].append(out['viol'])
        return out
    r = R0
    for i, l in enumerate(lines):
        r, ev, must, may, prune = ref_step(r, l, i + 1)
        out['steps'].append((l, ev, sorted(must), sorted(may), tr[i]))
        if prune:
            out['pruned'] = True
            v = None if ev is None else compare('line', tr[i], ev, set(), may | {'unspecified'}, r)[0]
            out['skipped'] += 1
            if v:
                out['viols'].append(v + (i,))
                out['viol'] = out['viol'] or v + (i,)
            return out
        v, sk = compare('line', tr[i], ev, must, may, r)
        r = pay(r, may, sk)
        out['skipped'] += sk > 0
        out['optional_emitted'] += sk == 2
        out['ref_error'] |= bool(must)
        out['ref_may'] |= bool(may)
        out['ref_bail'] |= any(e[0] == 'bailout' for e in ev)
        out['ref_badtest'] |= any(e[0] == 'test' and e[3] in ('FAIL', 'UNEXPECTEDPASS') for e in ev)
        if v:
            out['viols'].append(v + (i,))
            out['viol'] = out['viol'] or v + (i,)
    must, may = ref_end(r)
    out['steps'].append((None, [], sorted(must), sorted(may), tr[len(lines)]))
    v, sk = compare('end', tr[len(lines)], [], must, may, r)
    out['skipped'] += sk > 0
    out['optional_emitted'] += sk == 2
    out['ref_error'] |= bool(must)
    out['ref_may'] |= bool(may)
    out['final'] = r
    if v:
        out['viols'].append(v + (len(lines),))
        out['viol'] = out['viol'] or v + (len(lines),)
    return out


# ======================================================================================================
# Whole-test verdict through the real TestRunTAP
# ======================================================================================================
class StubHarness:
    def __init__(self):
        self.logged = []

    def log_subtest(self, test, s, res, explanation=None):
        self.logged.append((s, getattr(res, 'name', repr(res))))


_STUB_TEST = types.SimpleNamespace(protocol=mtest.TestProtocol.TAP, expected_fail=False, expected_exitcode=0,
                                   project_name='p', name='t', workdir=None, should_fail=False)
BAD_NAMES = {'FAIL', 'ERROR', 'UNEXPECTEDPASS', 'TIMEOUT', 'INTERRUPT'}


async def _alines(lines):
    for l in lines:
        yield l


def real_verdict(lines, rc):
    """Drive TestRunTAP the way SingleTestRunner._run_cmd does: start, parse(harness, lines), returncode, complete."""
    run = mtest.TestRun(_STUB_TEST, {}, 't', None, False, False, False)
    h = StubHarness()
    run.start(['t'])
    co = run.parse(h, _alines(lines))
    try:
        co.send(None)
    except StopIteration:
        pass
    else:
        co.close()
        raise RuntimeError('TestRunTAP.parse suspended on something other than the line source')
    run.returncode = rc
    run.complete()
    return run.res, h.logged, [(t.number, t.result.name) for t in run.results]


def check_verdict(lines, rc, segs):
    evs = [e for s in segs for e in s]
    tests = [e for e in evs if e[0] == 'test']
    exp_bad = (any(e[3] in ('FAIL', 'UNEXPECTEDPASS') for e in tests) or any(e[0] == 'error' for e in evs)
               or any(e[0] == 'bailout' for e in evs) or rc != 0)
    try:
        res, logged, results = real_verdict(lines, rc)
    except Exception as x:
        return ('C18:verdict:raise', 'TestRunTAP raised %s: %s' % (type(x).__name__, x)), None
    bad = res.name in BAD_NAMES
    if bad != exp_bad or bool(res.is_bad()) != exp_bad:
        why = []
        if any(e[3] == 'FAIL' for e in tests):
            why.append('fail')
        if any(e[3] == 'UNEXPECTEDPASS' for e in tests):
            why.append('unexpectedpass')
        if any(e[0] == 'error' for e in evs):
            why.append('error')
        if any(e[0] == 'bailout' for e in evs):
            why.append('bailout')
        if rc:
            why.append('exit')
        return ('C18:verdict:%s:%s' % ('not-bad' if exp_bad else 'bad', '+'.join(why) or 'clean'),
                'TAP test reported %s (is_bad=%r) with exit status %d; expected %s' % (
                    res.name, res.is_bad(), rc, 'bad' if exp_bad else 'not bad')), bad
    if [(t[1], t[3]) for t in tests] != results:
        return ('C18:verdict:results', 'TestRun.results %r differ from the Test events %r' % (results, tests)), bad
    nb = sum(1 for e in evs if e[0] == 'bailout')
    if sum(1 for l in logged if l[1] == 'ERROR') != nb or [l[1] for l in logged if l[1] != 'ERROR'] != [t[3] for t in tests]:
        return ('C18:verdict:subtests', 'log_subtest calls %r do not match the Test events %r' % (logged, tests)), bad
    return None, bad


# ======================================================================================================
# workers
# ======================================================================================================
def bfs_work(chunk):
    """-> (transitions [(letter, snapshot, refstate, pruned)] in frontier x alphabet order, violations
    [(index, where, key, text)], skipped_unspecified, per-class hit counts)"""
    out, viols, skipped, emitted = [], [], 0, 0
    hits = [0] * len(CLASSES)
    for prefix, r in chunk:
        plines = [LINES[i] for i in prefix]
        n = len(prefix) + 1
        for a in range(NA):
            lines = plines + [LINES[a]]
            tr, snap = real_trace(lines)
            r2, ev, must, may, prune = ref_step(r, LINES[a], n)
            idx = len(out)
            if tr[0] == 'raise':
                viols.append((idx, 'line', 'C18:raise', 'parser raised ' + tr[1]))
                out.append((a, None, r2, True))
                continue
            if len(tr) != n + 1:
                viols.append((idx, 'line', 'C18:harness', 'line segmentation broke'))
                out.append((a, None, r2, True))
                continue
            if prune:
                v1 = None if ev is None else compare('line', tr[n - 1], ev, set(), may | {'unspecified'}, r2)[0]
                if v1:
                    viols.append((idx, 'line') + v1)
                skipped += 1
                for c in may:
                    hits[CLASSES.index(c)] += 1
                out.append((a, snap, r2, True))
                continue
            v1, sk1 = compare('line', tr[n - 1], ev, must, may, r2)
            r2 = pay(r2, may, sk1)
            emust, emay = ref_end(r2)
            v2, sk2 = compare('end', tr[n], [], emust, emay, r2)
            if v1:
                viols.append((idx, 'line') + v1)
            if v2:
                viols.append((idx, 'end') + v2)
            skipped += (sk1 > 0) + (sk2 > 0)
            emitted += (sk1 == 2) + (sk2 == 2)
            for c in must | may | emust | emay:
                hits[CLASSES.index(c)] += 1
            out.append((a, snap, r2, False))
    return out, viols, (skipped, emitted), hits


CLASSES = ['yaml-unterminated', 'yaml-blank', 'version-misplaced', 'version-below-13', 'second-plan',
           'plan-skip-with-tests', 'plan-directive', 'count-mismatch', 'beyond-plan', 'test-after-late-plan',
           'duplicate', 'missing-number', 'unspecified']

FLAT_N = 0


def flat_work(item):
    """item = (prefix, recurse): the sequence `prefix` and, if recurse, all its extensions up to length FLAT_N
    (depth-first, shorter first on each branch): whole-trace comparison + verdict x exit status {0,1}."""
    start, recurse = item
    viols = []
    cnt = {'seqs': 0, 'disagreements': 0, 'skipped': 0, 'optional_emitted': 0, 'pruned': 0, 'verdicts': 0, 'bad': 0, 'notbad': 0, 'known_verdict_effect': 0,
           'ref_error_streams': 0, 'indeterminate_ref_verdict': 0}
    classes = set()

    def rec(seq):
        lines = [LINES[i] for i in seq]
        o = check_stream(lines)
        cnt['seqs'] += 1
        cnt['skipped'] += o['skipped']
        cnt['optional_emitted'] += o['optional_emitted']
        for vv in o['viols']:
            if vv[2] < len(seq) - 1:
                continue          # an earlier line: already reported for the shorter sequence
            cnt['disagreements'] += 1
            if len(viols) < 40 or vv[0] not in {v[0] for v in viols}:
                viols.append((vv[0], vv[1], list(seq), vv[2], None))
            classes.add(vv[0])
        if o['real'][0] != 'raise':
            for rc in (0, 1):
                v, bad = check_verdict(lines, rc, o['real'])
                cnt['verdicts'] += 1
                if bad is True:
                    cnt['bad'] += 1
                elif bad is False:
                    cnt['notbad'] += 1
                if v:
                    if len(viols) < 40 or v[0] not in {x[0] for x in viols}:
                        viols.append((v[0], v[1], list(seq), None, rc))
                elif rc == 0 and not o['pruned']:
                    # end-to-end effect (informative): reference says the stream is in error, test reported not bad
                    refbad = o['ref_error'] or o['ref_bail'] or o['ref_badtest']
                    if refbad and bad is False:
                        cnt['known_verdict_effect'] += 1
                    if o['ref_error']:
                        cnt['ref_error_streams'] += 1
                    elif o['ref_may']:
                        cnt['indeterminate_ref_verdict'] += 1
        if o['pruned']:
            cnt['pruned'] += 1
            return
        if recurse and len(seq) < FLAT_N:
            for a in range(NA):
                rec(seq + (a,))
    rec(tuple(start))
    return viols, cnt, sorted(classes)


def chars_work(c0):
    """every string c0+c (c0 == '': the empty and all 1-char strings) as a one-line stream, with and without newline"""
    out = []
    n = 0
    outcomes = set()
    for s in ([''] + PRINTABLE if c0 == '' else [c0 + c for c in PRINTABLE]):
        for line in (s, s + '\n'):
            n += 1
            o = check_stream([line])
            if o['viol']:
                out.append((o['viol'][0], o['viol'][1], line))
            if o['real'][0] != 'raise':
                outcomes.add(tuple(e[0] for seg in o['real'] for e in seg))
                v, bad = check_verdict([line], 0, o['real'])
                if v:
                    out.append((v[0], v[1], line))
    return out, n, sorted(outcomes)



# ---- part 3c: every Unicode code point in the positions of the grammar that are defined by a character class -------------
# A TAP number (test number, plan count, version) is a run of the ASCII digits 0-9 and the directive words are ASCII letters;
# any other character in those positions is ordinary text: after `ok` it starts the description (the test is unnumbered),
# `1..<c>` / `TAP version <c>` are not a plan / a version line.  Hole `{c}` of every template x every code point of the domain.
UNI_TEMPLATES = ['ok {c}', 'not ok {c}', 'ok {c} d', 'ok {c}1', 'ok {c}{c}', 'ok 1 {c}',
                 '1..{c}', '1..{c}1', '1..{c} # SKIP', 'TAP version {c}', 'TAP version {c}3',
                 '1..2\nok 1 a\nok {c} b', 'ok 1\nok {c}\nok 3\n1..3',
                 'ok # {c}KIP', 'ok # s{c}ip', 'not ok # TO{c}O']
ASCII_BLANK = ' \t'


def uni_related(c):
    """c is related to an ASCII digit, blank or letter by one of the character predicates / mappings of the str type (what a
    character class, int() or a case conversion consults)"""
    if c.isdecimal() or c.isdigit() or c.isnumeric() or c.isspace():
        return True
    return not c.isascii() and ((c.upper() != c and c.upper().isascii()) or (c.lower() != c and c.lower().isascii()))


def uni_class(c):
    if c.isascii():
        return 'ascii'
    if c.isdecimal():
        return 'non-ascii-decimal-digit'
    if c.isdigit() or c.isnumeric():
        return 'non-ascii-numeric'
    if c.upper().isascii() or c.lower().isascii():
        return 'non-ascii-letter-with-ascii-case-mapping'
    return 'non-ascii-other'


def uni_work(cps):
    viols, shapes = [], set()
    cnt = {'streams': 0, 'skipped_unspecified_whitespace': 0, 'skipped_unspecified': 0, 'ascii_digit_read_as_number': 0,
           'digitlike_non_ascii_in_number_position': 0, 'disagreements': 0}
    seen = set()
    for cp in cps:
        c = chr(cp)
        if c.isspace() and c not in ASCII_BLANK:
            # unspecified corner: TAP separates tokens with blanks; whether another white-space character does is not said
            cnt['skipped_unspecified_whitespace'] += len(UNI_TEMPLATES)
            continue
        cls = uni_class(c)
        for ti, t in enumerate(UNI_TEMPLATES):
            lines = list(io.StringIO(t.replace('{c}', c) + '\n'))
            o = check_stream(lines)
            cnt['streams'] += 1
            cnt['skipped_unspecified'] += o['skipped']
            if ti < 11:
                if c in '0123456789':
                    cnt['ascii_digit_read_as_number'] += 1
                elif cls in ('non-ascii-decimal-digit', 'non-ascii-numeric'):
                    cnt['digitlike_non_ascii_in_number_position'] += 1
            found = []
            if o['viol']:
                found.append((o['viol'][0], o['viol'][1], None))
            if o['real'][0] != 'raise':
                shapes.add(tuple(e[0] for seg in o['real'] for e in seg))
                v, bad = check_verdict(lines, 0, o['real'])
                if v:
                    found.append((v[0], v[1], 0))
            for key, what, rc in found:
                cnt['disagreements'] += 1
                if cls != 'ascii':                 # an ASCII character in the hole gives an ordinary stream: ordinary key
                    key = '%s:unicode:%s' % (key, cls)
                if (key, ti) not in seen:          # first (lowest) code point per class and template; the others are counted
                    seen.add((key, ti))
                    viols.append((key, what, lines, rc, ti, cp))
    return viols, cnt, sorted(shapes)


PRINTABLE = [chr(c) for c in range(0x20, 0x7f)] + ['\t']

# the streams of unittests/taptests.py (pinned expectations): the reference consumer must agree with the real parser
# on all of them (the real parser satisfies the pinned assertions, so agreement = the reference satisfies them too)
PINNED = ['', '1..0', '1..0 # skipped for some reason', '1..1 # skipped for some reason\nok 1',
          '1..1 # todo not supported here\nok 1', 'ok', 'ok 1', 'ok 1 abc', 'not ok', 'not ok 1 abc # TODO',
          'ok 1 abc # TODO', 'ok 1 abc # SKIP', 'not ok 1 abc # SKIP', '1..4\nok 1\nnot ok 2\nok 3\nnot ok 4',
          'ok 1\nnot ok 2\nok 3\nnot ok 4\n1..4', 'ok 1 abc # skip', 'ok 1 abc # ToDo', 'ok 1 abc # skip why',
          'ok 1 abc # ToDo Because', '1..1\nok', 'ok\n1..1', '1..2\nok 1\nok 1', 'ok 1\nok 1\n1..2',
          '1..2\nok 2\nok 3', 'ok 2\nok 3\n1..2', '1..2\nok 2\nok 1', 'ok 2', '1..3\nok 2\nok\nok 1',
          'ok 1\n1..2\nok 2', '1..1\n1..2\nok 1', 'ok 1\nnot ok 2\n1..1', '1..1\nok 1\nnot ok 2',
          'ok 1\nnot ok 2\n1..3', '1..3\nok 1\nnot ok 2', '1..3\nok 1\nnot ok 2\nBail out! no third test',
          '1..1\n# ignored\nok 1', '# ignored\n1..1\nok 1\n# ignored too', '# ignored\nok 1\n1..1\n# ignored too',
          '1..1\n\nok 1', '1..1\ninvalid\nok 1', 'TAP version 13\n', 'TAP version 12\n', '1..0\nTAP version 13\n',
          'TAP version 13\nok\n ---\n foo: abc\n  bar: def\n ...\nok 2', 'TAP version 13\nok\n ---\n foo: abc\n  bar: def',
          'TAP version 13\nok 1\n ---\n foo: abc\n  bar: def\nnot ok 2',
          'TAP version 13\nok 1\n ---\n foo: abc\n \n bar: def\nnot ok 2']


def show(lines):
    return [l.rstrip('\n') for l in lines]


def main():
    global FLAT_N
    ck = Check('C18', 'model_checking')
    if ck.args.replay:
        return replay(ck)
    depth = ck.q(8, 16)
    FLAT_N = ck.q(3, 4)
    known_hits = [0]
    nondet = []

    def report(key, what, lines, extra):
        # re-execute before printing: a verdict must not depend on the worker that produced it
        o = check_stream(lines)
        rep = {'lines': show(lines), 'newline': True}
        rep.update(extra)
        if 'rc' not in extra:
            if (key, extra['step']) not in [(v[0], v[2]) for v in o['viols']]:
                # never exit from inside a pmap loop (Pool.terminate() can dead-lock): checked after the loop
                nondet.append('nondeterminism: %s not reproduced on %r' % (key, show(lines)))
                return
            rep['trace'] = [{'line': (s[0] or '').rstrip('\n') if s[0] is not None else '<end of stream>',
                             'expected_events': s[1], 'error_required': s[2], 'error_allowed': s[3], 'observed': s[4]}
                            for s in o['steps']]
        if key == 'C18:dup-with-gap':
            known_hits[0] += 1
        ck.violation(key, '%s | stream=%r' % (what, show(lines)), rep)

    # ---------------- part 1: product BFS -------------------------------------------------------------
    states = transitions = traces = 0
    if ck.want('bfs'):
        tr0, snap0 = real_trace([])
        ck.require(tr0[0] != 'raise' and len(tr0) == 1, 'empty stream')
        v0, _ = compare('end', tr0[0], [], *ref_end(R0), R0)
        transitions += 1
        if v0:
            report(v0[0], v0[1], [], {'part': 'bfs', 'step': 0})
        seen = {(snap0, R0)}
        frontier = [((), R0)]
        skipped = pruned = opt_emitted = 0
        class_hits = [0] * len(CLASSES)
        per_depth = []
        real_states, ref_states = {snap0}, {R0}
        for d in range(1, depth + 1):
            csize = max(1, min(64, len(frontier) // 64 + 1))
            chunks = [frontier[i:i + csize] for i in range(0, len(frontier), csize)]
            nxt = []
            base = 0
            for out, viols, sk, hits in pmap(bfs_work, chunks):
                skipped += sk[0]
                opt_emitted += sk[1]
                for b, h in enumerate(hits):
                    class_hits[b] += h
                for idx, wh, key, what in viols:
                    seq = frontier[base + idx // NA][0] + (out[idx][0],)
                    report(key, what, [LINES[i] for i in seq], {'part': 'bfs', 'step': len(seq) - (wh == 'line')})
                for idx, (a, snap, r2, prune) in enumerate(out):
                    traces += 1
                    if prune:
                        transitions += 1
                        pruned += 1
                        continue
                    transitions += 2                      # the line, and end-of-stream after it
                    key = (snap, r2)
                    if key not in seen:
                        seen.add(key)
                        real_states.add(snap)
                        ref_states.add(r2)
                        nxt.append((frontier[base + idx // NA][0] + (a,), r2))
                base += len(out) // NA
            if nondet:
                ck.internal(nondet[0])
            per_depth.append(len(nxt))
            frontier = nxt
        states = len(seen)
        hits = dict(zip(CLASSES, class_hits))
        ck.part('bfs', depth=depth, alphabet=NA, product_states=states, real_parser_states=len(real_states),
                reference_states=len(ref_states), new_states_per_depth=per_depth, replays=traces,
                transitions=transitions, skipped_unspecified=skipped, skipped_where_parser_emitted_an_error=opt_emitted,
                pruned_unspecified=pruned,
                sequences_represented=sum(NA ** i for i in range(depth + 1)), error_class_transitions=hits,
                driver='prefix replayed on a fresh TAPParser through parse() with a boundary-marking line iterator')
        for c in ('yaml-unterminated', 'version-misplaced', 'version-below-13', 'second-plan', 'count-mismatch',
                  'beyond-plan', 'test-after-late-plan', 'duplicate', 'missing-number'):
            ck.require(hits[c] > 0, 'error class %s never reached' % c)
        ck.require(any(s[0] == TAPParser._YAML for s in real_states if s) and any(r.mode == 'Y' for r in ref_states),
                   'YAML state never reached')
        ck.require(states > 500 and per_depth[-1] > 0, 'state space suspiciously small')
        ck.sample({'bfs_state_representative': show([LINES[i] for i in frontier[len(frontier) // 2][0]])} if frontier else 'none')

    # ---------------- part 2: flat sequences + verdict --------------------------------------------------
    flat_seqs = 0
    if ck.want('flat'):
        tot = {}
        o = check_stream([])
        flat_seqs += 1
        for rc in (0, 1):
            v, bad = check_verdict([], rc, o['real'])
            if v:
                report(v[0], v[1], [], {'part': 'verdict', 'rc': rc})
        fclasses = set()
        items = [((a,), FLAT_N < 2) for a in range(NA)]
        if FLAT_N >= 2:
            items += [((a, b), True) for a in range(NA) for b in range(NA)]
        for viols, cnt, classes in pmap(flat_work, items, chunksize=4):
            for k, v in cnt.items():
                tot[k] = tot.get(k, 0) + v
            fclasses.update(classes)
            for key, what, seq, step, rc in viols:
                lines = [LINES[i] for i in seq]
                if rc is None:
                    report(key, what, lines, {'part': 'flat', 'step': step})
                else:
                    report(key, what, lines, {'part': 'verdict', 'rc': rc})
        if nondet:
            ck.internal(nondet[0])
        flat_seqs += tot['seqs']
        ck.part('flat', maxlen=FLAT_N, sequences=flat_seqs, skipped_unspecified=tot['skipped'],
                skipped_where_parser_emitted_an_error=tot['optional_emitted'], pruned_unspecified=tot['pruned'],
                verdict_runs=tot['verdicts'] + 2, verdict_bad=tot['bad'], verdict_not_bad=tot['notbad'],
                streams_with_required_error=tot['ref_error_streams'],
                streams_reported_not_bad_although_reference_bad=tot['known_verdict_effect'],
                disagreements=tot['disagreements'], disagreement_classes=sorted(fclasses))
        ck.require(tot['bad'] > 100 and tot['notbad'] > 100, 'verdict outcomes not both exercised')
        ck.sample({'verdict': ['ok # TODO'], 'rc': 0, 'res': real_verdict(['ok # TODO\n'], 0)[0].name})

    # ---------------- part 3: every string of <= 2 printable characters ---------------------------------
    if ck.want('chars'):
        n = 0
        outcomes = set()
        for out, k, oc in pmap(chars_work, [''] + PRINTABLE, chunksize=4):
            n += k
            outcomes.update(tuple(x) for x in oc)
            for key, what, line in out:
                ck.violation(key, '%s | line=%r' % (what, line), {'part': 'chars', 'raw_lines': [line]})
        # chars_work('') covers '' and all 1-char strings; chars_work(c) covers all c+x
        ck.part('chars', alphabet=len(PRINTABLE), lines_fed=n, distinct_event_shapes=len(outcomes))
        ck.require(len(outcomes) >= 3, 'printable strings did not reach test/unknown/ignored outcomes')

    # ---------------- part 3c: every code point in the number / directive-word positions ---------------------
    uni_streams = 0
    if ck.want('unicode'):
        full = ck.q(False, True)
        dom = [cp for cp in range(0x110000) if full or cp < 0x800 or uni_related(chr(cp))]
        tot, shapes, seenk, ncls = {}, set(), set(), {}
        for cp in dom:
            k = uni_class(chr(cp))
            ncls[k] = ncls.get(k, 0) + 1
        chunks = [dom[i:i + 256] for i in range(0, len(dom), 256)]
        for viols, cnt, sh in pmap(uni_work, chunks):
            for k, v in cnt.items():
                tot[k] = tot.get(k, 0) + v
            shapes.update(tuple(x) for x in sh)
            for key, what, lines, rc, ti, cp in viols:
                if (key, ti) in seenk:
                    continue
                seenk.add((key, ti))
                rep = {'part': 'unicode', 'raw_lines': lines, 'template': UNI_TEMPLATES[ti], 'codepoint': 'U+%04X' % cp}
                if rc is not None:
                    rep['rc'] = rc
                ck.violation(key, '%s | template=%r with U+%04X | stream=%r' % (what, UNI_TEMPLATES[ti], cp, show(lines)), rep)
        uni_streams = tot['streams']
        ck.part('unicode', templates=len(UNI_TEMPLATES), codepoints=len(dom), codepoints_by_class=ncls,
                domain='all of Unicode' if full else 'U+0000-U+07FF plus every code point that isdecimal/isdigit/isnumeric/isspace '
                       'or a case mapping relates to an ASCII character',
                distinct_event_shapes=len(shapes), **tot)
        ck.require(tot['ascii_digit_read_as_number'] == 110, 'the ten ASCII digits were not all tried in the 11 number positions')
        ck.require(ncls.get('non-ascii-decimal-digit', 0) >= 600 and tot['digitlike_non_ascii_in_number_position'] >= 11 * 1500,
                   'non-ASCII digit characters never reached the number positions')
        ck.require(ncls.get('non-ascii-letter-with-ascii-case-mapping', 0) >= 2, 'no non-ASCII letter with an ASCII case mapping')
        ck.require(len(shapes) >= 6, 'unicode part did not reach test/plan/version/unknown/error outcomes')
        ck.sample({'unicode': 'ok \u0663', 'events': real_trace(['ok \u0663\n'])[0]})

    # ---------------- part 3b: numbers of every size -------------------------------------------------------
    # "No input makes the parser raise": every place where the parser converts digits, with digit runs up to and beyond the
    # length at which int() refuses to convert.  Only the no-raise clause is decided here (the reference consumer is not asked).
    if ck.want('digits'):
        forms = ['ok %s', 'not ok %s', 'ok %s - d', 'ok %s # SKIP', '1..%s', '1..%s # SKIP', 'TAP version %s', 'ok 1\n1..%s', '1..2\nok %s', 'ok\nok %s']
        nd = 0
        for ln in (1, 5, 20, 100, 1000, 4300, 4301, 10000):
            for dg in '19':
                for f in forms:
                    text = f % (dg * ln)
                    lines = list(io.StringIO(text + '\n'))
                    nd += 1
                    tr, _ = real_trace(lines)
                    if tr[0] == 'raise':
                        ck.violation('C18:raise:number-of-%s-digits' % ('more-than-4300' if ln > 4300 else 'up-to-4300'),
                                     'parser raised %s on the form %r with a %d-digit number' % (tr[1][:120], f, ln), {'part': 'digits', 'raw_lines': lines})
                    else:
                        # whatever its size, the number means what it says: a test number other than the next one leaves a gap or exceeds
                        # the plan, a plan count other than the number of tests is a mismatch - each of them an error event
                        n_is_one = ln == 1 and dg == '1'
                        must_err = (not f.startswith('TAP version')) and not (n_is_one and f in ('ok %s', 'not ok %s', 'ok %s - d', 'ok %s # SKIP', 'ok 1\n1..%s'))
                        if f == '1..2\nok %s':
                            must_err = True        # two tests planned, at most one seen
                        if must_err and not any(e[0] == 'error' for seg in tr for e in seg):
                            ck.violation('C18:digits:no-error-event', 'form %r with the %d-digit number %s...: no error event although the number leaves a gap / exceeds the plan / contradicts the count'
                                         % (f, ln, (dg * ln)[:12]), {'part': 'digits', 'raw_lines': lines})
                        for rc in (0, 1):
                            v, bad = check_verdict(lines, rc, tr)
                            if v and v[0] == 'C18:verdict:raise':
                                ck.violation('C18:verdict:raise:number-of-%d-digits' % ln, v[1][:200], {'part': 'digits', 'raw_lines': lines})
        ck.part('digits', forms=len(forms), lengths=[1, 5, 20, 100, 1000, 4300, 4301, 10000], streams=nd)

    # ---------------- part 4: pinned streams --------------------------------------------------------------
    if ck.want('pinned'):
        for s in PINNED:
            lines = list(io.StringIO(s))
            o = check_stream(lines)
            if o['viol']:
                ck.violation(o['viol'][0] + ':pinned', '%s | stream=%r' % (o['viol'][1], s), {'part': 'pinned', 'raw_lines': lines})
        ck.part('pinned', streams=len(PINNED))

    ck.assume('TAP 12/13 reference consumer is my transcription of the specification and the property text; '
              'a `#` not followed by SKIP.../TODO on a test line is a comment; the description keeps a leading "- "; numbers are runs '
              'of the ASCII digits 0-9 and directive words ASCII letters (any case), every other character is text; white space other '
              'than blank/tab as a token separator is unspecified (skipped, counted)')
    ck.assume('unspecified, hence error presence not compared (counted as skipped_unspecified): repeated tests after a late '
              'plan (one error suffices), directives on a plan line with tests, count/numbering errors at end of stream after '
              'Bail out!, errors reported early for duplicates/count overflow (a duplicate reported on the spot waives the numbering '
              'error it entails at end of stream); an empty line inside a YAML block prunes the branch; a stream without any plan '
              'is not an error (not in the property\'s list)')
    ck.assume('product states merged on (parser fields %s + first-line flag, reference state); lineno beyond the first-line '
              'test and yaml_lineno only feed message text / UnknownLine.lineno, which is compared against the replayed '
              'position' % (', '.join(FIELDS)))
    ck.finish(states=states, transitions=transitions, traces_validated_against_impl=traces + flat_seqs + uni_streams,
              known_class_hits=known_hits[0],
              rule='BFS to depth %d over %d line forms on the product (real TAPParser fields x reference TAP consumer), merged on the '
                   'canonical product key; each transition replays representative prefix + line on a fresh real parser and compares '
                   'the events of that line and of end-of-stream (kinds, numbers, names, results, plan, presence of an error) with the '
                   'reference; plus all %d unmerged sequences <= %d with the TestRunTAP verdict x exit {0,1}; plus all strings <= 2 '
                   'printable chars; plus every code point of the stated domain in the number / directive-word holes of %d line templates'
                   % (depth, NA, flat_seqs, FLAT_N, len(UNI_TEMPLATES)),
              exhaustive=True)


def replay(ck):
    d = json.load(open(ck.args.replay))
    lines = d['raw_lines'] if 'raw_lines' in d else [l + '\n' for l in d['lines']]
    print('replay stream:', show(lines), 'key:', d.get('key'))
    o = check_stream(lines)
    bad = False
    for s in o['steps']:
        print('  %-22r expected events=%r error required=%r allowed=%r | observed=%r' % (
            '<end>' if s[0] is None else s[0].rstrip('\n'), s[1], s[2], s[3], s[4]))
    if o['viol']:
        print('  DISAGREEMENT %s: %s' % (o['viol'][0], o['viol'][1]))
        bad = True
    if o['real'][0] != 'raise':
        for rc in ([d['rc']] if 'rc' in d else [0, 1]):
            v, b = check_verdict(lines, rc, o['real'])
            print('  exit status %d: TestRunTAP reported %s' % (rc, 'bad' if b else 'not bad'))
            if v:
                print('  DISAGREEMENT %s: %s' % v)
                bad = True
    sys.exit(1 if bad else 0)


run_main(main)
