# Helper of check C17, layer D ("placement"): projects whose pieces live in several build files.
#
# A target call, the lists its sources / extra_files are built from and the source files themselves need not sit in one
# directory: a list can be a variable assigned in the parent's build file or in a sibling directory that was entered
# earlier, and a list element names a file relative to the directory in which it is RESOLVED:
#   * a string that reaches a target (directly, or through an array variable) is resolved by the target, i.e. relative
#     to the directory of the build file that holds the target call (Reference manual, executable(): "relative to the
#     current source directory");
#   * a files(...) object is resolved where files() is called (Reference manual, files()), whatever uses it later.
# This module generates such projects from a (target directory, definition place, way of writing) triple, and holds the
# reference evaluation of a multi-file project: verif.reflang with subdir() followed into the named directory and
# files() objects tagged with the directory of the call.  Nothing here imports mesonbuild.
from __future__ import annotations
import os
import typing as T

from . import reflang
from . import c17lib as L
from .reflang import Fail, Unspecified, SyntaxFail, Opaque

TARGET_FUNCS = ('executable', 'library', 'static_library', 'shared_library', 'shared_module', 'both_libraries', 'jar')
BUILD = 'meson.build'


def norm(p: str) -> str:
    return os.path.normpath(p)


def under(d: str, name: str) -> str:
    """Source-root relative path of `name` written relative to directory d ('' = source root)."""
    return norm(os.path.join(d, name))


# =========================================================================================================
# Reference evaluation of a project
class Target(T.NamedTuple):
    name: str
    func: str
    dir: str                         # directory of the build file that holds the call
    sources: T.Tuple[str, ...]       # source-root relative, sorted (multiset)
    extra_files: T.Tuple[str, ...]
    other: tuple                     # canonical values of every other argument, in source order


class ProjEval(reflang.Evaluator):
    def __init__(self, texts: T.Dict[str, str]):
        super().__init__(opaque_calls=True)
        self.texts = texts
        self.dir = ''
        self.found: T.List[T.Tuple[str, Opaque]] = []

    def call(self, name, arg_es, kw_es):
        if name == 'subdir':
            args = [self.ev(a) for a in arg_es]
            if kw_es or len(args) != 1 or not isinstance(args[0], str):
                raise Unspecified('subdir() with keywords / a non-string')
            d = under(self.dir, args[0])
            text = self.texts.get(os.path.join(d, BUILD))
            if text is None:
                raise Fail('subdir(%r): no build file' % d)
            tree = reflang.Parser(text).parse()
            saved, self.dir = self.dir, d
            try:
                self.exec_block(tree)
            finally:
                self.dir = saved
            return None
        o = super().call(name, arg_es, kw_es)
        if isinstance(o, Opaque):
            if name == 'files':
                if o.kwargs:
                    raise Fail('files() takes no keyword arguments')
                o = Opaque('files', o.args, (('@dir', self.dir),))
            elif name in TARGET_FUNCS:
                self.found.append((self.dir, o))
        return o


def _resolve(v, d: str, out: T.List[str]) -> None:
    """Flattens one value of a source list into source-root relative paths; d = directory of the consuming target."""
    if isinstance(v, str):
        out.append(under(d, v))
    elif isinstance(v, list):
        for x in v:
            _resolve(x, d, out)
    elif isinstance(v, Opaque) and v.fname == 'files':
        fd = dict(v.kwargs)['@dir']
        for x in v.args:
            _resolve(x, fd, out)
    else:
        raise Unspecified('a source that is neither a string nor a files() object')


def evaluate(texts: T.Dict[str, str]) -> T.List[Target]:
    """Targets of the project in evaluation order.  Raises SyntaxFail / Fail / Unspecified."""
    ev = ProjEval(texts)
    ev.exec_block(reflang.Parser(texts[BUILD]).parse())
    out = []
    for d, o in ev.found:
        if not o.args or not isinstance(o.args[0], str):
            raise Unspecified('target without a literal name')
        src: T.List[str] = []
        xf: T.List[str] = []
        for a in o.args[1:]:
            _resolve(a, d, src)
        other = []
        for k, v in o.kwargs:
            if k == 'sources':
                _resolve(v, d, src)
            elif k == 'extra_files':
                _resolve(v, d, xf)
            else:
                other.append((k, reflang.canon(v)))
        out.append(Target(o.args[0], o.fname, d, tuple(sorted(src)), tuple(sorted(xf)), tuple(other)))
    return out


# =========================================================================================================
# Statement extents over all build files (for "every other statement is textually unchanged")
def calls_in(e) -> T.List[tuple]:
    """Every call node of an expression, outermost first."""
    out = []

    def go(x):
        if x[0] == 'call':
            out.append(x)
        for _, ch in L.children(x):
            go(ch)
    go(e)
    return out


unparen = L.unparen
stmt_rhs = L.stmt_rhs
ids_in = L.free_ids


def leaves_of(texts: T.Dict[str, str]) -> T.Dict[str, T.List[T.Tuple[int, int, tuple]]]:
    out = {}
    for path, text in texts.items():
        p = reflang.Parser(text)
        p.parse()
        out[path] = p.leaves
    return out


def target_call(leaves, name: str) -> T.Optional[T.Tuple[str, int, tuple]]:
    """(build file, leaf index, call node) of the target call with that literal name, wherever it is nested."""
    hits = []
    for path in sorted(leaves):
        for i, (_, _, st) in enumerate(leaves[path]):
            rhs = stmt_rhs(st)
            if rhs is None:
                continue
            for c in calls_in(rhs):
                if c[1] in TARGET_FUNCS and c[2] and unparen(c[2][0])[0] == 'str' and unparen(c[2][0])[1] == name:
                    hits.append((path, i, c))
    return hits[0] if len(hits) == 1 else None


def editable(leaves, name: str, which: str) -> T.Set[T.Tuple[str, int]]:
    """(file, leaf) pairs a list operation on target `name` may re-print: the statement that holds the call and the
    assignments of the identifiers its addressed list (which = 'sources' | 'extra_files' | 'call') is built from."""
    hit = target_call(leaves, name)
    if hit is None:
        return set()
    path, i, call = hit
    out = {(path, i)}
    if which == 'call':
        return out
    if which == 'sources':
        exprs = list(call[2][1:]) + [v for k, v in call[3] if k == 'sources']
    else:
        exprs = [v for k, v in call[3] if k == 'extra_files']
    todo = [n for e in exprs for n in ids_in(e)]
    seen: T.Set[str] = set()
    while todo:
        n = todo.pop()
        if n in seen:
            continue
        seen.add(n)
        for p in leaves:
            for j, (_, _, st) in enumerate(leaves[p]):
                if st[0] in ('assign', 'plusassign') and st[1] == n:
                    out.add((p, j))
                    todo += ids_in(st[2])
    return out


# =========================================================================================================
# Generated projects
#
# place = (tdir, where, way)
#   tdir   'root' | 'sub'                 directory of the build file with the target call
#   where  'same' | 'parent' | 'early'    build file that assigns the lists: the target's own file, the parent's file
#                                         (before the subdir() call), the file of a sibling directory entered earlier
#   way    'str'          strings written in the call itself (only where = same)
#          'inline-files' files(...) written in the call itself (only where = same)
#          'arr'          a variable holding an array of strings (resolved by the target)
#          'files'        a variable holding files('a', 'b', ...)   (resolved where files() is called)
#          'files-arr'    a variable holding files(['a', 'b', ...])
TDIRS = {'root': '', 'sub': 'sub'}
WAYS_INLINE = ('str', 'inline-files')
WAYS_VAR = ('arr', 'files', 'files-arr')


def all_places() -> T.List[T.Tuple[str, str, str]]:
    out = []
    for tdir in ('root', 'sub'):
        for where in ('same', 'parent', 'early'):
            if where == 'parent' and tdir == 'root':
                continue
            for way in (WAYS_INLINE + WAYS_VAR if where == 'same' else WAYS_VAR):
                out.append((tdir, where, way))
    return out


def place_dirs(place) -> T.Tuple[str, str, str]:
    """(directory of the target, directory of the definitions, directory in which the list strings are resolved)"""
    tdir, where, way = place
    td = TDIRS[tdir]
    dd = {'same': td, 'parent': '', 'early': 'early'}[where]
    rd = dd if way in ('files', 'files-arr', 'inline-files') else td
    return td, dd, rd


def _q(names) -> str:
    return ', '.join("'%s'" % n for n in names)


def list_names(rd: str, kind: str) -> T.List[str]:
    """The strings of a list, as written (relative to the resolving directory rd): one file in rd, one below it, one in
    a directory that is neither (lib/, a directory without build file)."""
    up = '../' if rd else ''
    if kind == 'src':
        return ['a.c', 'deep/d.c', up + 'lib/l.c']
    return ['README', 'deep/NOTES', up + 'lib/L.txt']


def generate(place) -> T.Dict[str, T.Any]:
    """{'build': {path: text}, 'disk': [source files to create], 'sources': [...], 'extra_files': [...]} (the two lists
    as the generator means them, source-root relative; the check re-derives them with evaluate())."""
    tdir, where, way = place
    td, dd, rd = place_dirs(place)
    src, xf = list_names(rd, 'src'), list_names(rd, 'xf')
    defs = ''
    if way == 'arr':
        defs = 'prog_srcs = [%s]\nprog_docs = [%s]\n' % (_q(src), _q(xf))
    elif way == 'files':
        defs = 'prog_srcs = files(%s)\nprog_docs = files(%s)\n' % (_q(src), _q(xf))
    elif way == 'files-arr':
        defs = 'prog_srcs = files([%s])\nprog_docs = files([%s])\n' % (_q(src), _q(xf))
    if way == 'str':
        s_arg, x_arg = _q(src), '[%s]' % _q(xf)
    elif way == 'inline-files':
        s_arg, x_arg = 'files(%s)' % _q(src), 'files(%s)' % _q(xf)
    else:
        s_arg, x_arg = 'prog_srcs', 'prog_docs'
    tgt = ("prog = executable('prog', 'main.c', %s,\n  c_args : ['-DNAME=\"a b\"', '-DX=' + (1 + 2).to_string()],\n"
           "  extra_files : %s,\n  install : false)\n" % (s_arg, x_arg))
    early = ("early_marker = 'early'   # kept comment\n" + (defs if dd == 'early' else '')
             + "other = static_library('other', 'a.c', 'o.c', extra_files : ['README'])\nearly_tail = [1, 2]\n")
    root = ("project('placement', 'c')\nroot_marker = 'before'   # kept comment\n" + (defs if dd == '' else '')
            + "subdir('early')\n" + (tgt if td == '' else "subdir('sub')\n") + "root_tail = 'after'\n")
    build = {BUILD: root, os.path.join('early', BUILD): early}
    if td == 'sub':
        build[os.path.join('sub', BUILD)] = "sub_marker = 'sub'\n" + (defs if dd == 'sub' else '') + tgt + "sub_tail = 'after'\n"
    sources = sorted([under(td, 'main.c')] + [under(rd, n) for n in src])
    extra = sorted(under(rd, n) for n in xf)
    disk = set(sources) | set(extra) | {'early/a.c', 'early/o.c', 'early/README'}
    return {'build': build, 'disk': sorted(disk), 'sources': sources, 'extra_files': extra}


# files a command may name that no list mentions (created on disk before the command runs): one per directory class
NEW_SRC = {'root': 'n_root.c', 'sub': 'sub/n_sub.c', 'early': 'early/n_early.c', 'lib': 'lib/n_lib.c', 'below': 'sub/deep/n_below.c'}
NEW_XF = {'root': 'N_ROOT.txt', 'sub': 'sub/N_SUB.txt', 'early': 'early/N_EARLY.txt', 'lib': 'lib/N_LIB.txt'}
# a file that exists and that only the OTHER target lists
FOREIGN_SRC = 'early/o.c'
