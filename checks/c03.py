# C03 - commands receive exactly the arguments the build definition specifies.
# All argument strings of <= N atoms over a 26-atom alphabet (+ specials) are placed in every command position and
# wrapping mode of a generated project; real `meson setup` writes build.ninja; the reference Ninja evaluator expands
# each command / response file; the real /bin/sh runs it; a C dumper records argc/argv/env; tests go through the
# real `meson test`.  Observed argv must equal the given list after the documented rewrites only.
import itertools, json, os, re, shutil, subprocess, sys
from verif.core import Check, pmap, run_main, scratch_root, VERIF, NCPU
from verif import refninja as rn

DUMP = os.path.join(VERIF, 'tools', 'bin', 'argv_dump')
ATOMS = [' ', '\t', '\n', "'", '"', '$', '$$', '`', '\\', '#', ';', '&', '|', '*', '?', '~', '!', '(', '{', '}', '=', ':', '%', '@', 'é', 'a']
SPECIALS = ['', '-', '--', '-h', '--capture', '--feed', '--unpickle', '@file', '$out', '${in}', '$in', '%s', '\\n', '\\\\', 'a' * 300, '&&x', 'x&&', ' && ',
            "it's", '"q"', '$(echo hi)', '`echo hi`', '~root', '*.c', '$HOME', '@@', '@0@x']


def all_strings(n):
    out = []
    seen = set()
    for s in SPECIALS:
        if s not in seen:
            seen.add(s)
            out.append(s)
    for k in range(1, n + 1):
        for tup in itertools.product(ATOMS, repeat=k):
            s = ''.join(tup)
            if s not in seen:
                seen.add(s)
                out.append(s)
    return out


def lit(s):
    return "'" + s.replace('\\', '\\\\').replace("'", "\\'").replace('\n', '\\n').replace('\t', '\\t') + "'"


TEMPLATE_RE = re.compile(r'@[A-Za-z_0-9]+@|@(INPUT|OUTPUT|PLAINNAME|BASENAME|OUTDIR|DEPFILE|PRIVATE_DIR|SOURCE_ROOT|BUILD_ROOT|CURRENT_SOURCE_DIR|EXTRA_ARGS|BUILD_DIR|SOURCE_DIR)')


def has_template(s):
    return TEMPLATE_RE.search(s) is not None


def parse_dump(path):
    with open(path, 'rb') as f:
        data = f.read()
    pos = 0

    def line():
        nonlocal pos
        e = data.index(b'\n', pos)
        l = data[pos:e]
        pos = e + 1
        return l
    hdr = line().split()
    assert hdr[0] == b'A', data[:40]
    args = []
    for _ in range(int(hdr[1])):
        n = int(line())
        args.append(data[pos:pos + n])
        pos += n + 1
    env = {}
    while pos < len(data):
        h = line().split(b' ')
        n = int(h[2])
        if n < 0:
            env[h[1].decode()] = None
            pos += 1
        else:
            env[h[1].decode()] = data[pos:pos + n]
            pos += n + 1
    return args, env


def b(s):
    return s.encode('utf-8', 'surrogateescape')


# ---- expectations (the documented rewrites only) ----------------------------------------------------------------
def exp_command_arg(s):
    """custom_target / run_target / generator command strings: backslashes become '/'"""
    return s.replace('\\', '/')


def exp_define_arg(s):
    """per-target -D compile argument: backslashes are doubled"""
    return s.replace('\\', '\\\\')


CHUNK = 120


def chunks(lst, n=CHUNK):
    return [lst[i:i + n] for i in range(0, len(lst), n)]


def build_project(strings, root, dumpdir):
    """-> files, plan.  plan: list of (kind, ident, given strings, dump path(s), extra)"""
    plan = []
    L = ["project('argv', 'c', default_options: ['warning_level=0'])", "dump = find_program('%s')" % DUMP,
         # a test setup whose wrapper is transparent (env PROG ARGS... runs PROG ARGS...): every test must still receive its own args
         "add_test_setup('wrapped', exe_wrapper: [find_program('env')])"]
    plain = [s for s in strings if '\n' not in s and not has_template(s) and s != '&&']
    nl = [s for s in strings if '\n' in s and not has_template(s)]
    n = 0

    def dp(name):
        return os.path.join(dumpdir, name + '.dump')

    ENV_SPELLINGS = ('dict', 'list', 'obj-dict', 'obj-list', 'obj-set')

    def env_kw(prefix, vals, spelling, uid):
        """the same environment (PREFIX<i> = vals[i]) in each way a build definition can spell it -> text of the env: value"""
        if spelling == 'dict':
            return '{%s}' % ', '.join("'%s%d': %s" % (prefix, i, lit(v)) for i, v in enumerate(vals))
        if spelling == 'list':
            return '[%s]' % ', '.join(lit('%s%d=%s' % (prefix, i, v)) for i, v in enumerate(vals))
        var = 'ev_%s' % uid
        if spelling == 'obj-dict':
            L.append('%s = environment({%s})' % (var, ', '.join("'%s%d': %s" % (prefix, i, lit(v)) for i, v in enumerate(vals))))
        elif spelling == 'obj-list':
            L.append('%s = environment([%s])' % (var, ', '.join(lit('%s%d=%s' % (prefix, i, v)) for i, v in enumerate(vals))))
        else:
            L.append('%s = environment()' % var)
            for i, v in enumerate(vals):
                L.append("%s.set('%s%d', %s)" % (var, prefix, i, lit(v)))
        return var
    # custom_target modes
    for fam, lst in (('p', plain), ('n', nl)):
        for ci, ch in enumerate(chunks(lst)):
            args = ', '.join(lit(s) for s in ch)
            for mode in ('plain', 'capture', 'feed', 'env', 'console', 'depfile') + tuple('env:' + sp for sp in ENV_SPELLINGS[1:]):
                name = 'ct_%s_%s_%d' % (mode.replace(':', '_').replace('-', '_'), fam, ci)
                spelling = mode.split(':')[1] if ':' in mode else 'dict'
                mode = mode.split(':')[0]
                kw = ''
                first = "'--dump=%s'" % dp(name)
                if mode == 'capture':
                    kw = ', capture: true'
                    first = None
                elif mode == 'feed':
                    kw = ", feed: true, input: 'in.txt'"
                elif mode == 'env':
                    kw = ', env: ' + env_kw('CE', ch[:40], spelling, name)
                elif mode == 'console':
                    kw = ', console: true'
                elif mode == 'depfile':
                    kw = ", depfile: '%s.d'" % name
                cmd = ['dump'] + ([first] if first else []) + (["'--env=CE%d'" % i for i in range(min(40, len(ch)))] if mode == 'env' else [])
                L.append("custom_target('%s', output: '%s.out', command: [%s, %s]%s)" % (name, name, ', '.join(cmd), args, kw))
                plan.append(('ct', name, ch, dp(name) if mode != 'capture' else None, {'mode': mode, 'nenv': min(40, len(ch)) if mode == 'env' else 0}))
            # run_target (+ env)
            name = 'rt_%s_%d' % (fam, ci)
            L.append("run_target('%s', command: [dump, '--dump=%s', %s], env: {'RE0': %s})" % (name, dp(name), args, lit(ch[0])))
            plan.append(('rt', name, ch, dp(name), {}))
            # generator
            name = 'gen_%s_%d' % (fam, ci)
            L.append("g_%s = generator(dump, output: '@BASENAME@_%s.gen', arguments: ['--dump=@OUTPUT@', %s, '@INPUT@'])" % (name, name, args))
            L.append("executable('e_%s', 'main.c', g_%s.process('g.in'))" % (name, name))
            plan.append(('gen', name, ch, None, {}))
            # generator extra_args (spliced in for @EXTRA_ARGS@ after the generator's own rewrites: they arrive untouched),
            # for a generator without and with a depfile
            for dv, dkw in (('nodep', ''), ('dep', ", depfile: '@BASENAME@_x.d'")):
                name = 'genx_%s_%s_%d' % (dv, fam, ci)
                L.append("gx_%s = generator(dump, output: '@BASENAME@_%s.gen', arguments: ['--dump=@OUTPUT@', '@EXTRA_ARGS@', '@INPUT@']%s)" % (name, name, dkw))
                L.append("executable('ex_%s', 'main.c', gx_%s.process('g.in', extra_args: [%s]))" % (name, name, args))
                plan.append(('genx', name, ch, None, {}))
            # tests
            for pi_, proto in enumerate(('exitcode', 'tap', 'exitcode-workdir', 'exitcode:list', 'exitcode:obj-list', 'tap:obj-set', 'tap:obj-dict')):
                spelling = proto.split(':')[1] if ':' in proto else 'dict'
                proto = proto.split(':')[0]
                name = 't_%s_%s_%s_%d' % (proto.replace('-', '_'), spelling.replace('-', '_'), fam, ci)
                envd = env_kw('TE', ch[:40], spelling, name)
                targs = "'--dump=%s', %s%s, %s" % (dp(name), "'--tap', " if proto == 'tap' else '', ', '.join("'--env=TE%d'" % i for i in range(min(40, len(ch)))), args)
                wd = ", workdir: meson.current_source_dir() / 'w d'" if proto.endswith('workdir') else ''
                L.append("test('%s', dump, args: [%s], env: %s, protocol: '%s'%s)" % (name, targs, envd, proto.split('-')[0], wd))
                plan.append(('test', name, ch, dp(name), {'proto': proto, 'nenv': min(40, len(ch))}))
    # env values only (arguments stay harmless, so only the env value decides how the command is wrapped)
    for ci, ch in enumerate(chunks(plain + nl, 1)):
        if ci >= 60 and '\n' not in ch[0]:
            continue
        name = 'ct_envonly_%d' % ci
        L.append("custom_target('%s', output: '%s.out', command: [dump, '--dump=%s', '--env=CE0'], env: {'CE0': %s})" % (name, name, dp(name), lit(ch[0])))
        plan.append(('ct', name, [], dp(name), {'mode': 'envonly', 'nenv': 1, 'envvals': ch}))
    # option-like arguments, each in its own command so that no earlier '--' shields it from a wrapper's option parser
    for oi, o in enumerate(['--capture', '--feed', '--unpickle', '-h', '--help', '--', '--cap', '--fe', '-c', '--internal']):
        for mode in ('plain', 'capture', 'feed'):
            name = 'ct_opt_%s_%d' % (mode, oi)
            first = "'--dump=%s', " % dp(name) if mode != 'capture' else ''
            kw = {'plain': '', 'capture': ', capture: true', 'feed': ", feed: true, input: 'in.txt'"}[mode]
            L.append("custom_target('%s', output: '%s.out', command: [dump, %s%s, 'zz', %s, 'yy']%s)" % (name, name, first, lit(o), lit(o), kw))
            plan.append(('ct', name, [o, 'zz', o, 'yy'], dp(name) if mode != 'capture' else None, {'mode': mode, 'nenv': 0}))
    # two wrapped commands of the same program whose argument lists differ only in where the boundaries fall (whatever names
    # the serialised command must tell them apart); they share the dump file, each edge is run and read on its own
    pp = dp('ct_pair')
    for tag, lst in (('a', ['p q', 'r\ns', 't']), ('b', ['p', 'q r\ns', 't']), ('c', ['p q r\ns', 't']), ('d', ['p', 'q', 'r\ns t'])):
        name = 'ct_pair_' + tag
        L.append("custom_target('%s', output: '%s.out', command: [dump, '--dump=%s', %s])" % (name, name, pp, ', '.join(lit(x) for x in lst)))
        plan.append(('ct', name, lst, pp, {'mode': 'pair', 'nenv': 0}))
    L.append("pe = environment()")
    L.append("pe.prepend('PAIRPATH', 'x')")
    for tag, lst in (('a', ['hello world', 'z']), ('b', ['hello', 'world z']), ('c', ['hello', 'world', 'z'])):
        name = 'rt_pair_' + tag
        L.append("run_target('%s', command: [dump, '--dump=%s', %s], env: pe)" % (name, pp, ', '.join(lit(x) for x in lst)))
        plan.append(('rt', name, lst, pp, {}))
    # exact && separates commands: both halves observed
    for mode in ('plain', 'capture'):
        name = 'ct_andand_' + mode
        second = dp(name + '_2')
        if mode == 'plain':
            L.append("custom_target('%s', output: '%s.out', command: [dump, '--dump=@OUTPUT@', 'a b', '&&', '%s', '--dump=%s', 'c;d'])" % (name, name, DUMP, second))
        else:
            L.append("custom_target('%s', output: '%s.out', capture: true, command: [dump, 'a b', '&&', '%s', '--dump=%s', 'c;d'])" % (name, name, DUMP, second))
        plan.append(('andand', name, ['a b', 'c;d'], second, {'mode': mode}))
    # compile / link arguments: nothing is compiled; ARGS / LINK_ARGS are expanded and split by /bin/sh
    cl = [s for s in plain if s != '']
    for ci, ch in enumerate(chunks(cl, 60)):
        name = 'cc_%d' % ci
        cargs = ["'-DSENT_BEGIN'"] + [lit('-DV%d=%s' % (i, s)) for i, s in enumerate(ch)] + [lit('--verif%d=%s' % (i, s)) for i, s in enumerate(ch)] + ["'-DSENT_END'"]
        largs = ["'-Wl,--sent-begin'"] + [lit('--lverif%d=%s' % (i, s)) for i, s in enumerate(ch)] + ["'-Wl,--sent-end'"]
        L.append("executable('%s', 'main.c', c_args: [%s], link_args: [%s])" % (name, ', '.join(cargs), ', '.join(largs)))
        plan.append(('cc', name, ch, None, {}))
    # one target far above the response-file threshold: its compile/link statements use the rule's response-file variant
    # while every other statement of the same rule stays on the plain command line
    big = ', '.join("'-DBIG%d=%s'" % (i, 'x' * 60) for i in range(2600))
    bigl = ', '.join("'-Wl,--defsym=big%d=%d'" % (i, i) for i in range(9000))
    L.append("executable('bigrsp', 'main.c', c_args: [%s], link_args: [%s])" % (big, bigl))
    pa = cl[:60]
    L.insert(1, "add_project_arguments(%s, language: 'c')" % ', '.join(["'-DPSENT_BEGIN'"] + [lit('--pverif%d=%s' % (i, s)) for i, s in enumerate(pa)] + ["'-DPSENT_END'"]))
    L.insert(1, "add_global_arguments(%s, language: 'c')" % ', '.join(["'-DGSENT_BEGIN'"] + [lit('--gverif%d=%s' % (i, s)) for i, s in enumerate(pa)] + ["'-DGSENT_END'"]))
    L.insert(1, "add_project_link_arguments(%s, language: 'c')" % ', '.join(["'-Wl,--psent-begin'"] + [lit('--plverif%d=%s' % (i, s)) for i, s in enumerate(pa)] + ["'-Wl,--psent-end'"]))
    plan.append(('projargs', 'projargs', pa, None, {}))
    files = {'meson.build': '\n'.join(L) + '\n', 'main.c': 'int main(void) { return 0; }\n', 'in.txt': 'feed\n', 'g.in': 'x\n', 'w d/keep': ''}
    return files, plan


def sh_split(text, dumpfile, cwd):
    """let the real /bin/sh split a command-line fragment; returns argv as bytes list"""
    cmd = "exec %s --dump=%s %s" % (rn.shell_escape(DUMP), rn.shell_escape(dumpfile), text)
    r = subprocess.run(['/bin/sh', '-c', cmd], cwd=cwd, capture_output=True)
    if r.returncode != 0:
        return None, r.stderr.decode('utf-8', 'replace')
    args, _ = parse_dump(dumpfile)
    return args[1:], ''


def buildargv(text):
    """Python port of libiberty's buildargv(): how gcc/ld read a response file."""
    args = []
    i, n = 0, len(text)
    while i < n:
        while i < n and text[i] in ' \t\n\r\f\v':
            i += 1
        if i >= n:
            break
        arg = []
        sq = dq = bs = False
        while i < n:
            c = text[i]
            if c in ' \t\n\r\f\v' and not sq and not dq and not bs:
                break
            if bs:
                bs = False
                arg.append(c)
            elif c == '\\':
                bs = True
            elif sq:
                if c == "'":
                    sq = False
                else:
                    arg.append(c)
            elif dq:
                if c == '"':
                    dq = False
                else:
                    arg.append(c)
            elif c == "'":
                sq = True
            elif c == '"':
                dq = True
            else:
                arg.append(c)
            i += 1
        args.append(''.join(arg))
    return args


def between(args, a, z):
    try:
        i = args.index(a)
        j = args.index(z, i)
    except ValueError:
        return None
    return args[i + 1:j]


def run_project(job):
    from verif import mesonproc as mp
    pi, strings, rsp = job
    root = os.path.join(scratch_root(), 'c03.%d.%d' % (os.getpid(), pi))
    shutil.rmtree(root, ignore_errors=True)
    dumpdir = os.path.join(root, 'dumps')
    os.makedirs(dumpdir)
    files, plan = build_project(strings, root, dumpdir)
    mp.write_tree(root, files)
    env = mp.base_env(home=os.path.join(root, 'home'))
    if rsp:
        env['MESON_RSP_THRESHOLD'] = '0'
    out = {'viol': [], 'cases': 0, 'setup_rc': None, 'by_kind': {}, 'wrapped': 0, 'rsp_edges': 0}

    def viol(key, what, given, got):
        out['viol'].append((key, what, {'given': given, 'observed': got, 'rsp_forced': rsp}))

    def compare(kind, where, given, expected, got):
        """expected/got: lists of bytes"""
        out['cases'] += len(given)
        out['by_kind'][kind] = out['by_kind'].get(kind, 0) + len(given)
        if got is None:
            viol('C03:%s:no-observation' % kind, '%s: command did not run / no dump' % where, given[:5], None)
            return
        if len(got) != len(expected):
            viol('C03:%s:count' % kind, '%s: %d arguments given, %d arrived' % (where, len(expected), len(got)), given[:5], [x.decode('utf-8', 'replace') for x in got[:8]])
            return
        for g, e, x in zip(given, expected, got):
            if e != x:
                viol('C03:%s:changed' % kind, '%s: argument %r arrived as %r (expected %r)' % (where, g, x.decode('utf-8', 'replace'), e.decode('utf-8', 'replace')), g, x.decode('utf-8', 'replace'))
                break
    if rsp:
        # MESON_RSP_THRESHOLD is read when mesonbuild.backend.ninjabackend is imported: use an interpreter started with it
        with mp.Server(env_extra={'MESON_RSP_THRESHOLD': '0'}) as srv:
            r = srv.run(['setup', 'b'], root, env=env, timeout=600)
    else:
        r = mp.run_meson(['setup', 'b'], root, env=env, timeout=600)
    out['setup_rc'] = r.rc
    bdir = os.path.join(root, 'b')
    if r.rc != 0:
        # find which declaration meson refused
        viol('C03:setup-fails', 'meson setup rejects the project: ' + r.out[-400:], None, None)
        shutil.rmtree(root, ignore_errors=True)
        return out
    try:
        mf = rn.parse_file(os.path.join(bdir, 'build.ninja'))
    except rn.NinjaError as e:
        viol('C03:manifest-unreadable', 'build.ninja is not a valid manifest (an argument was not escaped for ninja?): %s' % e, None, None)
        shutil.rmtree(root, ignore_errors=True)
        return out
    sub_env = dict(env)
    for kind, name, given, dump, extra in plan:
        if kind in ('ct', 'andand'):
            e = mf.edge_for(name + '.out')
            if e is None:
                viol('C03:ct:no-edge', 'no build statement for ' + name, None, None)
                continue
            if 'meson' in e.command() and '--internal' in e.command():
                out['wrapped'] += 1
            rr = rn.run_edge(e, bdir, env=sub_env)
            mode = extra.get('mode')
            dpath = dump if mode != 'capture' or kind == 'andand' else os.path.join(bdir, name + '.out')
            if kind == 'andand':
                # first half
                first = os.path.join(bdir, name + '.out')
                if rr.rc != 0 or not os.path.exists(first) or not os.path.exists(dump):
                    viol('C03:andand:failed', '%s: && command failed or a half did not run: %s' % (name, rr.output[-200:]), None, None)
                    continue
                a1, _ = parse_dump(first)
                a2, _ = parse_dump(dump)
                a1 = [x for x in a1 if not x.startswith(b'--dump=')]
                a2 = [x for x in a2 if not x.startswith(b'--dump=')]
                compare('andand', name, ['a b'], [b'a b'], a1)
                compare('andand', name, ['c;d'], [b'c;d'], a2)
                continue
            if rr.rc != 0 or not os.path.exists(dpath):
                viol('C03:ct-%s:failed' % mode, '%s: edge failed (rc %d): %s' % (name, rr.rc, rr.output[-300:]), given[:5], None)
                continue
            args, envv = parse_dump(dpath)
            args = [x for x in args if not x.startswith(b'--dump=') and not x.startswith(b'--env=CE')]
            compare('ct-' + mode, name, given, [b(exp_command_arg(s)) for s in given], args)
            if mode in ('env', 'envonly'):
                vals = extra.get('envvals', given)
                for i in range(extra['nenv']):
                    out['cases'] += 1
                    given = vals
                    if envv.get('CE%d' % i) != b(given[i]):
                        viol('C03:ct-env:value', '%s: env value %r arrived as %r' % (name, given[i], envv.get('CE%d' % i)), given[i], repr(envv.get('CE%d' % i)))
                        break
        elif kind == 'rt':
            e = mf.edge_for(name)
            while e is not None and e.is_phony and e.ins:
                e = mf.edge_for(e.ins[0])     # run_target NAME is a phony alias of meson-internal__NAME
            if e is None:
                viol('C03:rt:no-edge', 'no build statement for ' + name, None, None)
                continue
            rr = rn.run_edge(e, bdir, env=sub_env)
            if rr.rc != 0 or not os.path.exists(dump):
                viol('C03:rt:failed', '%s: edge failed: %s' % (name, rr.output[-300:]), given[:5], None)
                continue
            args, _ = parse_dump(dump)
            args = [x for x in args if not x.startswith(b'--dump=')]
            compare('rt', name, given, [b(exp_command_arg(s)) for s in given], args)
        elif kind == 'gen':
            outp = [o for o in mf.producer if o.endswith('g_%s.gen' % name)]
            if not outp:
                viol('C03:gen:no-edge', 'no build statement for generator ' + name, None, None)
                continue
            e = mf.producer[outp[0]]
            rr = rn.run_edge(e, bdir, env=sub_env)
            if rr.rc != 0 or not os.path.exists(os.path.join(bdir, outp[0])):
                viol('C03:gen:failed', '%s: edge failed: %s' % (name, rr.output[-300:]), given[:5], None)
                continue
            args, _ = parse_dump(os.path.join(bdir, outp[0]))
            args = [x for x in args if not x.startswith(b'--dump=')][:-1]   # last one is @INPUT@
            compare('gen', name, given, [b(exp_command_arg(s)) for s in given], args)
        elif kind == 'genx':
            outp = [o for o in mf.producer if o.endswith('g_%s.gen' % name)]
            if not outp:
                viol('C03:genx:no-edge', 'no build statement for generator ' + name, None, None)
                continue
            e = mf.producer[outp[0]]
            rr = rn.run_edge(e, bdir, env=sub_env)
            if rr.rc != 0 or not os.path.exists(os.path.join(bdir, outp[0])):
                viol('C03:genx:failed', '%s: edge failed: %s' % (name, rr.output[-300:]), given[:5], None)
                continue
            args, _ = parse_dump(os.path.join(bdir, outp[0]))
            args = [x for x in args if not x.startswith(b'--dump=')][:-1]   # last one is @INPUT@
            compare('generator-extra_args', name, given, [b(s) for s in given], args)
        elif kind == 'cc':
            tgt = [e for e in mf.edges if e.rule.name.startswith('c_COMPILER') and e.outs and e.outs[0].startswith(name + '.p/')]
            lnk = mf.edge_for(name)
            if not tgt or lnk is None:
                viol('C03:cc:no-edge', 'no compile/link statement for ' + name, None, None)
                continue
            e = tgt[0]
            if e.get('rspfile'):
                out['rsp_edges'] += 1
                argv = [b(x) for x in buildargv(e.get('rspfile_content'))]
            else:
                argv, err = sh_split(e.scope.vars.get('ARGS', ''), os.path.join(dumpdir, name + '.cc.dump'), bdir)
            seg = between(argv or [], b'-DSENT_BEGIN', b'-DSENT_END')
            if seg is None:
                viol('C03:cc:no-sentinels', '%s: sentinels not found in compile arguments' % name, given[:3], None)
            else:
                k = len(given)
                compare('c_args-D', name, given, [b('-DV%d=%s' % (i, exp_define_arg(s))) for i, s in enumerate(given)], seg[:k])
                compare('c_args', name, given, [b('--verif%d=%s' % (i, s)) for i, s in enumerate(given)], seg[k:])
            if lnk.get('rspfile'):
                largv = [b(x) for x in buildargv(lnk.get('rspfile_content'))]
            else:
                largv, err = sh_split(lnk.scope.vars.get('LINK_ARGS', ''), os.path.join(dumpdir, name + '.ld.dump'), bdir)
            seg = between(largv or [], b'-Wl,--sent-begin', b'-Wl,--sent-end')
            if seg is None:
                viol('C03:link_args:no-sentinels', '%s: sentinels not found in link arguments' % name, given[:3], None)
            else:
                compare('link_args', name, given, [b('--lverif%d=%s' % (i, s)) for i, s in enumerate(given)], seg)
        elif kind == 'projargs':
            tgt = [e for e in mf.edges if e.rule.name.startswith('c_COMPILER')]
            lnks = [e for e in mf.edges if e.rule.name.startswith('c_LINKER')]
            if not tgt or not lnks:
                continue
            e = tgt[0]
            if e.get('rspfile'):
                argv = [b(x) for x in buildargv(e.get('rspfile_content'))]
            else:
                argv, err = sh_split(e.scope.vars.get('ARGS', ''), os.path.join(dumpdir, 'pa.dump'), bdir)
            for tag, pre in (('project_args', 'p'), ('global_args', 'g')):
                seg = between(argv or [], b('-D%sSENT_BEGIN' % pre.upper()), b('-D%sSENT_END' % pre.upper()))
                if seg is None:
                    viol('C03:%s:no-sentinels' % tag, 'sentinels not found', None, None)
                else:
                    compare(tag, tag, given, [b('--%sverif%d=%s' % (pre, i, s)) for i, s in enumerate(given)], seg)
            l0 = lnks[0]
            if l0.get('rspfile'):
                largv = [b(x) for x in buildargv(l0.get('rspfile_content'))]
            else:
                largv, err = sh_split(l0.scope.vars.get('LINK_ARGS', ''), os.path.join(dumpdir, 'pl.dump'), bdir)
            seg = between(largv or [], b'-Wl,--psent-begin', b'-Wl,--psent-end')
            if seg is None:
                viol('C03:project_link_args:no-sentinels', 'sentinels not found', None, None)
            else:
                compare('project_link_args', 'project_link_args', given, [b('--plverif%d=%s' % (i, s)) for i, s in enumerate(given)], seg)
    # tests through the real `meson test`
    tests = [p for p in plan if p[0] == 'test']
    for tsetup in ((None, 'wrapped') if tests else ()):
        for kind, name, given, dump, extra in tests:
            if os.path.exists(dump):
                os.unlink(dump)
        tr = mp.run_meson(['test', '-C', bdir, '--no-rebuild', '--num-processes', '4'] + (['--setup=' + tsetup] if tsetup else []), root, env=env, timeout=600)
        sfx = '' if tsetup is None else '+setup-exe_wrapper'
        for kind, name, given, dump, extra in tests:
            if not os.path.exists(dump):
                viol('C03:test%s:no-observation' % sfx, '%s: test did not run (meson test rc %d): %s' % (name, tr.rc, tr.out[-200:]), given[:5], None)
                continue
            args, envv = parse_dump(dump)
            args = [x for x in args if not x.startswith(b'--dump=') and not x.startswith(b'--env=TE') and x != b'--tap']
            compare('test-' + extra['proto'] + sfx, name, given, [b(s) for s in given], args)
            for i in range(extra['nenv']):
                out['cases'] += 1
                if envv.get('TE%d' % i) != b(given[i]):
                    viol('C03:test-env:value', '%s: env value %r arrived as %r' % (name, given[i], envv.get('TE%d' % i)), given[i], repr(envv.get('TE%d' % i)))
                    break
    shutil.rmtree(root, ignore_errors=True)
    return out


# ---- which language gets which project/global argument: all call sequences <= 3 over the language sets ------------------
LANGSETS = [('c',), ('cpp',), ('c', 'cpp')]


def lang_sequences(maxlen=3):
    out = []
    for n in range(1, maxlen + 1):
        out += list(itertools.product(range(len(LANGSETS)), repeat=n))
    return out


def build_lang_project():
    """Main project: one fixed sequence of add_global_(link_)arguments; one subproject per sequence of add_project_(link_)arguments
    calls.  Call i of a sequence gives the unique arguments -DSEQ<i>=<odd string> / -Wl,--seq<i>."""
    seqs = lang_sequences()
    odd = ["a b", "$x;y", "#z*", 'q"r', "é'"]
    gseq = (2, 0, 1, 2)
    L = ["project('langargs', 'c', 'cpp', default_options: ['warning_level=0'])"]
    for i, ls in enumerate(gseq):
        langs = ', '.join("'%s'" % l for l in LANGSETS[ls])
        L.append("add_global_arguments(%s, language: [%s])" % (lit('-DGSEQ%d=%s' % (i, odd[i % len(odd)])), langs))
        L.append("add_global_link_arguments('-Wl,--gseq%d', language: [%s])" % (i, langs))
    files = {'main.c': 'int main(void) { return 0; }\n', 'main.cpp': 'int main() { return 0; }\n', 'm2.cpp': 'int m2() { return 0; }\n',
             'm2.c': 'int m2(void) { return 0; }\n'}
    L.append("executable('top_c', 'main.c')")
    L.append("executable('top_cpp', 'main.cpp')")

    def mixed(name, gi):
        # one target, two languages of the same compiler family, per-language target arguments; both source orders
        ta = lambda lang: lit('-DTARG=%s %s' % (lang, odd[gi % len(odd)]))
        return ["executable('%s_mixa', 'main.c', 'm2.cpp', c_args: [%s], cpp_args: [%s])" % (name, ta('c'), ta('cpp')),
                "executable('%s_mixb', 'main.cpp', 'm2.c', c_args: [%s], cpp_args: [%s])" % (name, ta('c'), ta('cpp'))]
    L += mixed('top', 0)
    for si, seq in enumerate(seqs):
        sub = 's%d' % si
        S = ["project('%s', 'c', 'cpp')" % sub]
        for i, ls in enumerate(seq):
            langs = ', '.join("'%s'" % l for l in LANGSETS[ls])
            S.append("add_project_arguments(%s, language: [%s])" % (lit('-DSEQ%d=%s' % (i, odd[(si + i) % len(odd)])), langs))
            S.append("add_project_link_arguments('-Wl,--seq%d', language: [%s])" % (i, langs))
        S.append("executable('%s_c', 'main.c')" % sub)
        S.append("executable('%s_cpp', 'main.cpp')" % sub)
        S += mixed(sub, si)
        files['subprojects/%s/meson.build' % sub] = '\n'.join(S) + '\n'
        for fn in ('main.c', 'main.cpp', 'm2.c', 'm2.cpp'):
            files['subprojects/%s/%s' % (sub, fn)] = files[fn]
        L.append("subproject('%s')" % sub)
    files['meson.build'] = '\n'.join(L) + '\n'
    return files, seqs, gseq, odd


def run_lang_project(_job):
    from verif import mesonproc as mp
    root = os.path.join(scratch_root(), 'c03lang.%d' % os.getpid())
    shutil.rmtree(root, ignore_errors=True)
    files, seqs, gseq, odd = build_lang_project()
    mp.write_tree(root, files)
    env = mp.base_env(home=os.path.join(root, 'home'))
    out = {'viol': [], 'cases': 0, 'setup_rc': None, 'by_kind': {}, 'wrapped': 0, 'rsp_edges': 0}
    r = mp.run_meson(['setup', 'b'], root, env=env, timeout=600)
    bdir = os.path.join(root, 'b')
    if r.rc != 0:
        out['viol'].append(('C03:lang:setup-fails', 'meson setup rejects the language-set project: ' + r.out[-400:], {'given': None}))
        shutil.rmtree(root, ignore_errors=True)
        return out
    mf = rn.parse_file(os.path.join(bdir, 'build.ninja'))

    def observed(edge, var, prefix, tag):
        argv, err = sh_split(edge.scope.vars.get(var, ''), os.path.join(root, 'lang.dump'), bdir)
        return [x for x in (argv or []) if x.startswith(prefix)]

    def check(tname, lang, seq, glob, mixed=False):
        comp = [e for e in mf.edges if e.rule.name.startswith(lang + '_COMPILER') and e.outs and ('/' + tname + '.p/' in '/' + e.outs[0])]
        lnk = [e for e in mf.edges if e.rule.name.startswith(('cpp' if mixed else lang) + '_LINKER') and e.outs and e.outs[0].split('/')[-1] == tname]
        if not comp or not lnk or (mixed and len(comp) != 1):
            out['viol'].append(('C03:lang:no-edge', 'no (or not exactly the expected) compile/link statement for %s' % tname, {'given': tname}))
            return
        if mixed:
            # per-language arguments of one target that mixes two languages of one compiler family
            exp_t = [b('-DTARG=%s %s' % (lang, odd[glob % len(odd)]))]
            got_t = observed(comp[0], 'ARGS', b'-DTARG', 't')
            out['cases'] += 1
            out['by_kind']['target_args-by-language-mixed-target'] = out['by_kind'].get('target_args-by-language-mixed-target', 0) + 1
            if got_t != exp_t:
                out['viol'].append(('C03:target_args-by-language-mixed-target:' + ('count' if len(got_t) != len(exp_t) else 'changed'),
                                    '%s (sources of C and C++): the %s source should be compiled with %r, its ARGS has %r' % (tname, lang, exp_t, got_t),
                                    {'given': [x.decode() for x in exp_t], 'observed': [x.decode('utf-8', 'replace') for x in got_t], 'lang_sequence': list(seq)}))
        for var, edge, pre_p, pre_g, kind in (('ARGS', comp[0], b'-DSEQ', b'-DGSEQ', 'project_args-by-language'),
                                            ('LINK_ARGS', lnk[0], b'-Wl,--seq', b'-Wl,--gseq', 'project_link_args-by-language'))[:1 if mixed else 2]:
            exp_p, exp_g = [], []
            for i, ls in enumerate(seq):
                if lang in LANGSETS[ls]:
                    exp_p.append(b('-DSEQ%d=%s' % (i, odd[(glob + i) % len(odd)])) if var == 'ARGS' else b('-Wl,--seq%d' % i))
            for i, ls in enumerate(gseq):
                if lang in LANGSETS[ls]:
                    exp_g.append(b('-DGSEQ%d=%s' % (i, odd[i % len(odd)])) if var == 'ARGS' else b('-Wl,--gseq%d' % i))
            got_p = observed(edge, var, pre_p, 'p')
            got_g = observed(edge, var, pre_g, 'g')
            out['cases'] += len(exp_p) + len(exp_g) + 1
            out['by_kind'][kind] = out['by_kind'].get(kind, 0) + len(exp_p) + len(exp_g) + 1
            desc = 'calls for language sets %r' % ([list(LANGSETS[ls]) for ls in seq],)
            if got_p != exp_p:
                out['viol'].append(('C03:%s:%s' % (kind, 'count' if len(got_p) != len(exp_p) else 'changed'),
                                    '%s (%s): language %s should receive %r, its %s has %r' % (tname, desc, lang, exp_p, var, got_p),
                                    {'given': [x.decode() for x in exp_p], 'observed': [x.decode('utf-8', 'replace') for x in got_p], 'lang_sequence': list(seq)}))
            if got_g != exp_g:
                out['viol'].append(('C03:global-%s:%s' % (kind, 'count' if len(got_g) != len(exp_g) else 'changed'),
                                    '%s: language %s should receive the global %r, its %s has %r' % (tname, lang, exp_g, var, got_g),
                                    {'given': [x.decode() for x in exp_g], 'observed': [x.decode('utf-8', 'replace') for x in got_g], 'lang_sequence': list(gseq)}))
    for lang in ('c', 'cpp'):
        check('top_' + lang, lang, (), 0)
        for mix in ('mixa', 'mixb'):
            check('top_' + mix, lang, (), 0, mixed=True)
        for si, seq in enumerate(seqs):
            check('s%d_%s' % (si, lang), lang, seq, si)
            for mix in ('mixa', 'mixb'):
                check('s%d_%s' % (si, mix), lang, seq, si, mixed=True)
    shutil.rmtree(root, ignore_errors=True)
    return out


# ---- placeholder spellings: "@TEMPLATE@ placeholders are substituted" ------------------------------------------------------
# Every documented placeholder and its near-misses (zero-padded / out-of-range / non-ASCII digits, doubled, embedded, unterminated)
# as an argument of a generator and of a custom target.  What an undocumented spelling turns into is not specified; what is:
# configuration terminates, with success or an ordinary error - no traceback, no endless loop - and when it succeeds the
# documented spellings were replaced (the argument that reaches argv no longer contains them).
PLACEHOLDERS = ['@OUTPUT@', '@INPUT@', '@OUTPUT0@', '@INPUT0@', '@OUTPUT00@', '@INPUT00@', '@OUTPUT1@', '@INPUT1@', '@OUTPUT01@', '@OUTPUT\uff10@',
                '@OUTPUT\u0669@', 'x@OUTPUT0@y', '@OUTPUT0@@OUTPUT0@', '@OUTPUT0@@INPUT0@', '@OUTPUT-1@', '@OUTPUT+0@', '@OUTPUT 0@', '@OUTDIR@',
                '@BUILD_DIR@', '@CURRENT_SOURCE_DIR@', '@SOURCE_ROOT@', '@BUILD_ROOT@', '@PLAINNAME@', '@BASENAME@', '@DEPFILE@',
                '@EXTRA_ARGS@', '@PRIVATE_DIR@', '@SOURCE_DIR@', '@OUTPUT', 'OUTPUT@', '@@', '@OUTPUT@@', '@@OUTPUT@', '@OUTPUT999999999999999999999@']
DOCUMENTED = {'generator': ['@OUTPUT@', '@INPUT@', '@OUTPUT0@', '@PLAINNAME@', '@BASENAME@', '@BUILD_DIR@', '@SOURCE_ROOT@', '@BUILD_ROOT@', '@CURRENT_SOURCE_DIR@'],
              'custom_target': ['@OUTPUT@', '@INPUT@', '@OUTPUT0@', '@INPUT0@', '@OUTDIR@', '@PLAINNAME@', '@BASENAME@', '@PRIVATE_DIR@', '@SOURCE_ROOT@',
                                '@BUILD_ROOT@', '@CURRENT_SOURCE_DIR@']}


def run_placeholder(job):
    from verif import mesonproc as mp
    _, _, where, ph = job
    root = os.path.join(scratch_root(), 'c03ph.%d' % os.getpid())
    shutil.rmtree(root, ignore_errors=True)
    dumpfile = os.path.join(root, 'ph.dump')
    L = ["project('ph', 'c')", "dump = find_program(%s)" % lit(DUMP)]
    if where == 'generator':
        L.append("g = generator(dump, output: '@BASENAME@.c', arguments: ['--dump=%s', 'first', %s, 'last', '@INPUT@'])" % (dumpfile, lit(ph)))
        L.append("executable('e', g.process('a.in'))")
    else:
        L.append("custom_target('t', input: 'a.in', output: 'a.out', command: [dump, '--dump=%s', 'first', %s, 'last'], build_by_default: true)" % (dumpfile, lit(ph)))
    files = {'meson.build': '\n'.join(L) + '\n', 'a.in': 'int main(void) { return 0; }\n'}
    mp.write_tree(root, files)
    env = mp.base_env(home=os.path.join(root, 'home'))
    out = {'viol': [], 'cases': 1, 'by_kind': {'placeholder-' + where: 1}, 'wrapped': 0, 'rsp_edges': 0, 'ph': (where, ph, 'error')}
    r = mp.run_meson(['setup', 'b'], root, env=env, timeout=120)
    rep_ = {'given': ph, 'placeholder_position': where}
    if r.rc not in (0, 1) or r.unhandled or r.signaled:
        out['viol'].append(('C03:placeholder:%s' % ('endless-or-killed' if r.signaled else 'traceback'),
                            '%s argument %r: meson setup ends with status %r%s: %s' % (where, ph, r.rc, ' (Python traceback)' if r.unhandled else '', r.out[-300:].replace('\n', ' | ')), rep_))
    elif r.rc == 0:
        out['ph'] = (where, ph, 'configured')
        bdir = os.path.join(root, 'b')
        mf = rn.parse_file(os.path.join(bdir, 'build.ninja'))
        edges = [e for e in mf.edges if e.rule.name == 'CUSTOM_COMMAND' and any(o.endswith(('a.c', 'a.out')) for o in e.outs)]
        if len(edges) != 1:
            out['viol'].append(('C03:placeholder:no-edge', '%s argument %r: no statement for the output' % (where, ph), rep_))
        else:
            rr = rn.run_edge(edges[0], bdir)
            try:
                args, _ = parse_dump(dumpfile)
            except Exception:
                args = None
            if args is None or b('first') not in args or b('last') not in args:
                out['viol'].append(('C03:placeholder:command-fails', '%s argument %r: the generated command does not deliver its arguments (%s)' % (where, ph, rr.output[-200:]), rep_))
            else:
                mid = args[args.index(b('first')) + 1:args.index(b('last'))]
                if ph in DOCUMENTED[where] and (len(mid) != 1 or b(ph) in mid[0]):
                    out['viol'].append(('C03:placeholder:not-substituted', '%s argument %r (documented) arrives as %r' % (where, ph, mid), rep_))
                out['ph'] = (where, ph, 'substituted' if (mid and b(ph) not in mid[0]) or not mid else 'literal')
    shutil.rmtree(root, ignore_errors=True)
    return out


# ---- documented placeholders INSIDE an argument -------------------------------------------------------------------------------
# Reference manual (custom_target command, generator arguments): the listed strings are replaced wherever they occur in an argument
# ("--out=@OUTPUT@", "@OUTDIR@/@BASENAME@.h" are the manual's own examples).  Every context built from <= 2 atoms of {'@', 'u', ':'}
# in front of and behind the placeholder: the literal text must arrive unchanged around the value the placeholder stands for.  The
# atoms cannot spell a placeholder themselves (names are upper case), so prefix + value + suffix is the only documented reading.
EMB_ATOMS = ['@', 'u', ':']
EMB_SHAPES = [((1, 2), ['@INPUT@', '@INPUT0@', '@OUTPUT0@', '@OUTPUT1@', '@OUTDIR@', '@PLAINNAME@', '@BASENAME@']),
              ((2, 1), ['@INPUT0@', '@INPUT1@', '@OUTPUT@', '@OUTPUT0@', '@OUTDIR@']),
              ((2, 2), ['@INPUT0@', '@INPUT1@', '@OUTPUT0@', '@OUTPUT1@', '@OUTDIR@']),
              ((0, 1), ['@OUTPUT@', '@OUTPUT0@', '@OUTDIR@'])]
EMB_PH = {'custom_target': ['@OUTPUT@', '@INPUT@', '@OUTDIR@', '@PLAINNAME@', '@BASENAME@', '@OUTPUT0@', '@INPUT0@'],
          'run_target': ['@SOURCE_ROOT@', '@BUILD_ROOT@'],
          'generator': ['@OUTPUT@', '@INPUT@', '@PLAINNAME@', '@BASENAME@', '@BUILD_DIR@']}


def emb_contexts(n):
    ctx = ['']
    for k in range(1, n + 1):
        ctx += [''.join(t) for t in itertools.product(EMB_ATOMS, repeat=k)]
    return ctx


def run_embedded(job):
    from verif import mesonproc as mp
    _, _, where, n = job
    root = os.path.join(scratch_root(), 'c03em.%d' % os.getpid())
    shutil.rmtree(root, ignore_errors=True)
    ctx = emb_contexts(n)
    cases = []          # (name, placeholder, prefix, suffix, shape)
    for ph in EMB_PH[where]:
        for pre in ctx:
            for suf in ctx:
                cases.append(('e%d' % len(cases), ph, pre, suf, (1, 1)))
    if where == 'custom_target':
        # the number of inputs and outputs of the statement is a dimension: the placeholders a command may use depend on it, and
        # statements of different shapes stand next to each other in one build definition (declared interleaved)
        ctx1 = emb_contexts(1)
        extra = []
        for shape, phs in EMB_SHAPES:
            for ph in phs:
                for pre in ctx1:
                    for suf in ctx1:
                        extra.append((ph, pre, suf, shape))
        extra.sort(key=lambda c: (c[1], c[2], c[0]))
        for ph, pre, suf, shape in extra:
            cases.append(('e%d' % len(cases), ph, pre, suf, shape))
    L = ["project('em', 'c')", "dump = find_program(%s)" % lit(DUMP)]
    gens = []
    for name, ph, pre, suf, shape in cases:
        df = os.path.join(root, 'd', name + '.dump')
        arg = lit(pre + ph + suf)
        if where == 'generator':
            L.append("g_%s = generator(dump, output: '@BASENAME@_%s.c', arguments: ['--dump=%s', 'first', %s, 'last', '@INPUT@'])" % (name, name, df, arg))
            gens.append("g_%s.process('a.in')" % name)
        elif where == 'run_target':
            L.append("run_target('%s', command: [dump, '--dump=%s', 'first', %s, 'last'])" % (name, df, arg))
        else:
            ins = {0: '', 1: "input: 'a.in', ", 2: "input: ['a.in', 'b.in'], "}[shape[0]]
            outs = "'%s.out'" % name if shape[1] == 1 else "['%s.out', '%s.out2']" % (name, name)
            L.append("custom_target('%s', %soutput: %s, command: [dump, '--dump=%s', 'first', %s, 'last'])" % (name, ins, outs, df, arg))
    if gens:
        L.append("executable('ex', %s)" % ', '.join(gens))
    mp.write_tree(root, {'meson.build': '\n'.join(L) + '\n', 'a.in': 'int main(void) { return 0; }\n', 'b.in': 'b\n', 'd/.keep': ''})
    out = {'viol': [], 'cases': 0, 'by_kind': {}, 'wrapped': 0, 'rsp_edges': 0, 'emb': {'contexts': len(ctx), 'compared': 0, 'literal_at_before': 0}}
    r = mp.run_meson(['setup', 'b'], root, env=mp.base_env(home=os.path.join(root, 'home')), timeout=600)
    if r.rc != 0:
        out['viol'].append(('C03:embedded:%s:setup-fails' % where, 'a %s argument made of a documented placeholder between literal @ u : characters: meson setup fails: %s'
                            % (where, r.out[-300:].replace('\n', ' | ')), {'embedded': [where, n]}))
        shutil.rmtree(root, ignore_errors=True)
        return out
    bdir = os.path.join(root, 'b')
    mf = rn.parse_file(os.path.join(bdir, 'build.ninja'))
    got = {}
    for e in mf.edges:
        if e.rule.name != 'CUSTOM_COMMAND':
            continue
        m = re.search(r'/d/(e\d+)\.dump', e.command())
        if not m:
            continue
        rn.run_edge(e, bdir)
        try:
            args, _ = parse_dump(os.path.join(root, 'd', m.group(1) + '.dump'))
            got[m.group(1)] = args[args.index(b('first')) + 1:args.index(b('last'))]
        except Exception:
            got[m.group(1)] = None
    # the value a placeholder stands for: what the argument that is exactly the placeholder arrives as (for @OUTPUT@ it names the
    # statement's own output, so the target's name is put back in)
    ref = {}
    for name, ph, pre, suf, shape in cases:
        if not pre and not suf:
            v = got.get(name)
            ref[ph, shape] = (name, v[0] if v and len(v) == 1 else None)
    for name, ph, pre, suf, shape in cases:
        rname, rv = ref[ph, shape]
        out['emb']['other_shapes'] = out['emb'].get('other_shapes', 0) + (shape != (1, 1))
        rep_ = {'embedded': [where, n], 'given': pre + ph + suf}
        if rv is None or b(ph) in rv:
            if not pre and not suf:
                out['viol'].append(('C03:embedded:%s:not-substituted' % where, '%s argument %r arrives as %r' % (where, ph, got.get(name)), rep_))
            continue
        exp = b(pre) + rv.replace(b(rname), b(name)) + b(suf)
        out['cases'] += 1
        out['emb']['compared'] += 1
        out['emb']['literal_at_before'] += '@' in pre
        if got.get(name) != [exp]:
            shape = ('at-before' if '@' in pre else 'plain-before') + '+' + ('at-after' if '@' in suf else 'plain-after')
            out['viol'].append(('C03:embedded:%s:%s' % (where, shape), '%s argument %r: expected %r (the literal text around the value of %s), the process receives %r'
                                % (where, pre + ph + suf, [exp], ph, got.get(name)), rep_))
    out['by_kind']['embedded-placeholder-' + where] = out['emb']['compared']
    shutil.rmtree(root, ignore_errors=True)
    return out


# ---- environment() methods: set / append / prepend against a variable that is already set where the command runs -----------
# "env values arrive unchanged": what the build definition composes (documented in Reference-manual environment object: append /
# prepend join the given value with the EXISTING value of the variable, separator ':' unless given) is what the process sees.
ENVOP_VALUES = ['tail', 'two words', '$dollar;semi', "q'uote", '', 'é*?', '-opt=1', ' lead']


def run_envop_project(_job):
    from verif import mesonproc as mp
    # (the source directory's name holds a '=': a program from the source tree then has a '=' in its path, which env(1) would
    #  take for an assignment if the path were simply written behind the assignments)
    root = os.path.join(scratch_root(), 'c03e=o.%d' % os.getpid())
    shutil.rmtree(root, ignore_errors=True)
    dumpdir = os.path.join(root, 'dumps')
    os.makedirs(dumpdir)
    L = ["project('envop')", "dump = find_program('tool.sh')"]
    plan = []
    for vi, v in enumerate(ENVOP_VALUES):
        for method in ('set', 'append', 'prepend'):
            for sep in (None, ';'):
                if method == 'set' and sep:
                    continue
                for pos in ('run_target', 'custom_target', 'test'):
                    name = '%s_%s_%s_%d' % (pos[:2], method, 'd' if sep is None else 's', vi)
                    dp = os.path.join(dumpdir, name + '.dump')
                    L.append('e_%s = environment()' % name)
                    L.append("e_%s.%s('OPX', %s%s)" % (name, method, lit(v), '' if sep is None else ", separator: '%s'" % sep))
                    if pos == 'run_target':
                        L.append("run_target('%s', command: [dump, '--dump=%s', '--env=OPX'], env: e_%s)" % (name, dp, name))
                    elif pos == 'custom_target':
                        L.append("custom_target('%s', output: '%s.out', command: [dump, '--dump=%s', '--env=OPX'], env: e_%s)" % (name, name, dp, name))
                    else:
                        L.append("test('%s', dump, args: ['--dump=%s', '--env=OPX'], env: e_%s)" % (name, dp, name))
                    s_ = ':' if sep is None else sep
                    exp = v if method == 'set' else ('outer' + s_ + v if method == 'append' else v + s_ + 'outer')
                    plan.append((pos, name, method, sep, v, exp, dp))
    mp.write_tree(root, {'meson.build': '\n'.join(L) + '\n', 'tool.sh': '#!/bin/sh\nexec %s "$@"\n' % DUMP})
    os.chmod(os.path.join(root, 'tool.sh'), 0o755)
    env = mp.base_env(home=os.path.join(root, 'home'))
    env['OPX'] = 'outer'
    out = {'viol': [], 'cases': 0, 'by_kind': {}, 'wrapped': 0, 'rsp_edges': 0}
    r = mp.run_meson(['setup', 'b'], root, env=env, timeout=600)
    if r.rc != 0:
        out['viol'].append(('C03:envop:setup-fails', 'meson setup rejects the environment-method project: ' + r.out[-400:], {'given': None}))
        return out
    bdir = os.path.join(root, 'b')
    mf = rn.parse_file(os.path.join(bdir, 'build.ninja'))
    byname = {}
    for e in mf.edges:
        for o in e.outs:
            byname[o.split('/')[-1]] = e
    mp.run_meson(['test', '-C', bdir, '--no-rebuild', '--num-processes', '4'], root, env=env, timeout=600)
    for pos, name, method, sep, v, exp, dp in plan:
        if pos != 'test':
            e = byname.get('meson-internal__' + name) or byname.get(name + '.out') or byname.get(name)
            if e is None:
                out['viol'].append(('C03:envop:no-edge', 'no statement for ' + name, {'given': v}))
                continue
            rn.run_edge(e, bdir, env=dict(env))
        out['cases'] += 1
        kind = 'env-%s-%s' % (method, pos)
        out['by_kind'][kind] = out['by_kind'].get(kind, 0) + 1
        try:
            _, envv = parse_dump(dp)
            got = envv.get('OPX')
        except Exception:
            got = None
        if got != b(exp):
            out['viol'].append(('C03:envop:%s:%s' % (method, pos), '%s(%r%s) with OPX=outer in the environment: the process sees %r, expected %r'
                                % (method, v, '' if sep is None else ', separator %r' % sep, got, exp), {'given': v, 'envop': [pos, method, sep]}))
    shutil.rmtree(root, ignore_errors=True)
    return out


# ---- test() / benchmark() arguments that are not strings: built targets, files, programs among the strings ---------------------
TESTOBJ_KINDS = {'executable': ('texe', 'texe'), 'static_library': ('tlib', 'libtlib.a'), 'custom_target': ('tct', 'tct.out'),
                 'custom_target-index': ('tct2[1]', 'tct2_b.out'), 'files': ("files('data file.txt')", 'data file.txt'),
                 'program': ('dump', os.path.basename(DUMP)), 'native-executable': ('nexe', 'nexe')}
TESTOBJ_STRINGS = ['before', 'two words', '$x;y', "q'uote", 'after']


def run_testobj_project(_job):
    from verif import mesonproc as mp
    root = os.path.join(scratch_root(), 'c03to.%d' % os.getpid())
    shutil.rmtree(root, ignore_errors=True)
    dumpdir = os.path.join(root, 'dumps')
    os.makedirs(dumpdir)
    L = ["project('testobj', 'c', default_options: ['warning_level=0'])", "dump = find_program(%s)" % lit(DUMP),
         "texe = executable('texe', 'main.c')", "nexe = executable('nexe', 'main.c', native: true)", "tlib = static_library('tlib', 'lib.c')",
         "tct = custom_target('tct', output: 'tct.out', command: ['touch', '@OUTPUT@'])",
         "tct2 = custom_target('tct2', output: ['tct2_a.out', 'tct2_b.out'], command: ['touch', '@OUTPUT@'])"]
    plan = []
    for kind, (expr, base) in TESTOBJ_KINDS.items():
        for pos in range(len(TESTOBJ_STRINGS) + 1):
            for fn in ('test', 'benchmark'):
                name = '%s_%s_%d' % (fn[0], kind.replace('-', '_'), pos)
                dp = os.path.join(dumpdir, name + '.dump')
                args = [lit(x) for x in TESTOBJ_STRINGS]
                args.insert(pos, expr)
                L.append("%s('%s', dump, args: ['--dump=%s', %s])" % (fn, name, dp, ', '.join(args)))
                plan.append((fn, name, kind, pos, base, dp))
    mp.write_tree(root, {'meson.build': '\n'.join(L) + '\n', 'main.c': 'int main(void) { return 0; }\n', 'lib.c': 'int l(void) { return 0; }\n',
                         'data file.txt': 'x\n'})
    env = mp.base_env(home=os.path.join(root, 'home'))
    out = {'viol': [], 'cases': 0, 'by_kind': {}, 'wrapped': 0, 'rsp_edges': 0}
    r = mp.run_meson(['setup', 'b'], root, env=env, timeout=600)
    if r.rc != 0:
        out['viol'].append(('C03:testobj:setup-fails', 'meson setup rejects the project: ' + r.out[-400:], {'given': None}))
        return out
    bdir = os.path.join(root, 'b')
    mp.run_meson(['test', '-C', bdir, '--no-rebuild', '--num-processes', '8'], root, env=env, timeout=600)
    mp.run_meson(['test', '-C', bdir, '--no-rebuild', '--benchmark', '--num-processes', '8'], root, env=env, timeout=600)
    for fn, name, kind, pos, base, dp in plan:
        out['cases'] += 1
        k = 'test-arg-object-' + kind
        out['by_kind'][k] = out['by_kind'].get(k, 0) + 1
        try:
            args, _ = parse_dump(dp)
        except Exception:
            args = None
        if args is None:
            out['viol'].append(('C03:testobj:no-observation', '%s did not run' % name, {'given': [kind, pos]}))
            continue
        args = [x for x in args if not x.startswith(b'--dump=')]
        exp = [b(x) for x in TESTOBJ_STRINGS]
        ok = len(args) == len(exp) + 1 and args[:pos] == exp[:pos] and args[pos + 1:] == exp[pos:] and (args[pos] == b(base) or args[pos].endswith(b('/' + base)))
        if not ok:
            out['viol'].append(('C03:testobj:%s:%s' % (fn, 'count' if len(args) != len(exp) + 1 else 'changed'),
                                '%s(args: [...]) with a %s at position %d of %r: the process received %r' % (fn, kind, pos, TESTOBJ_STRINGS, args),
                                {'given': [kind, pos], 'observed': [x.decode('utf-8', 'replace') for x in args]}))
    shutil.rmtree(root, ignore_errors=True)
    return out


# ---- histories of one build directory / sibling targets: "what the build definition specifies" is the CURRENT definition of ----
# ---- THIS target -------------------------------------------------------------------------------------------------------
# A definition of one command = (environment definition, argument list).  Family `reconf`: for every ordered pair (A, B) of
# distinct definitions the build directory is configured with A, the build file is edited to B and the directory reconfigured
# (`meson setup --reconfigure`, what ninja does itself after an edit); the command then has to receive what B says (thorough
# tier: then back to A).  Family `siblings`: for every unordered pair {A, B} of environment definitions two targets of ONE
# configuration run the very same command line, one with A and one with B; each has to receive its own environment.
# The variables are set where the command runs (HV=outerV, HW=outerW), so set / append / prepend / unset / separator all differ
# in what the process must see (Reference manual, environment object: append/prepend join with the existing value, separator
# ':' unless given; unset removes the variable; a variable the definition does not mention is inherited).
HIST_OUTER = {'HV': 'outerV', 'HW': 'outerW'}
HIST_ENVDEFS = [
    ('none', []),
    ('set', [('set', 'HV', 'one', None)]),
    ('append', [('append', 'HV', 'one', None)]),
    ('prepend', [('prepend', 'HV', 'one', None)]),
    ('append-sep', [('append', 'HV', 'one', ';')]),
    ('unset', [('unset', 'HV', None, None)]),
    ('set-one-odd', [('set', 'HV', 'one;HW,two', None)]),
    ('set-two', [('set', 'HV', 'one', None), ('set', 'HW', 'two', None)]),
    # thorough tier only
    ('prepend-sep', [('prepend', 'HV', 'one', ';')]),
    ('append-two', [('append', 'HV', 'one', None), ('prepend', 'HW', 'two', None)]),
    ('set-other', [('set', 'HV', 'two', None)]),
]
HIST_ARGDEFS = [['a b', 'c'], ['a', 'b\nc'], ['a b\nc']]     # without / with a newline (the latter is always serialised)
HIST_POSITIONS = ('custom_target', 'run_target')


def hist_defs(ne, na):
    return [(e, a) for e in range(ne) for a in range(na)]


def hist_env_expected(ei):
    """the model: {variable: bytes or None (not in the environment)} after the operations of the definition, from the docs"""
    cur = dict(HIST_OUTER)
    for method, var, val, sep in HIST_ENVDEFS[ei][1]:
        s_ = ':' if sep is None else sep
        if method == 'set':
            cur[var] = val
        elif method == 'unset':
            cur[var] = None
        elif method == 'append':
            cur[var] = val if cur[var] is None else cur[var] + s_ + val
        else:
            cur[var] = val if cur[var] is None else val + s_ + cur[var]
    return {k: (None if v is None else b(v)) for k, v in cur.items()}


def hist_decl(L, name, pos, d, dump):
    """append the declaration of target `name` with definition d = (envdef index, argdef index) to the build file lines"""
    ei, ai = d
    kw = ''
    if HIST_ENVDEFS[ei][1]:
        L.append('e_%s = environment()' % name)
        for method, var, val, sep in HIST_ENVDEFS[ei][1]:
            if method == 'unset':
                L.append("e_%s.unset('%s')" % (name, var))
            else:
                L.append("e_%s.%s('%s', %s%s)" % (name, method, var, lit(val), '' if sep is None else ", separator: '%s'" % sep))
        kw = ', env: e_%s' % name
    cmd = "[dump, '--dump=%s', '--env=HV', '--env=HW', %s]" % (dump, ', '.join(lit(x) for x in HIST_ARGDEFS[ai]))
    if pos == 'custom_target':
        L.append("custom_target('%s', output: '%s.out', command: %s%s)" % (name, name, cmd, kw))
    else:
        L.append("run_target('%s', command: %s%s)" % (name, cmd, kw))


def hist_observe(bdir, env, names):
    """run the statements of the named targets -> {name: (argv, {HV, HW}) or None}; wrapped = how many go through meson --internal exe"""
    mf = rn.parse_file(os.path.join(bdir, 'build.ninja'))
    byname = {}
    for e in mf.edges:
        for o in e.outs:
            byname[o.split('/')[-1]] = e
    res = {}
    pickled = 0
    for name, dump in names:
        e = byname.get('meson-internal__' + name) or byname.get(name + '.out')
        if e is None:
            res[name] = None
            continue
        if '--unpickle' in e.command():
            pickled += 1
        if os.path.exists(dump):
            os.unlink(dump)
        rn.run_edge(e, bdir, env=dict(env))
        try:
            args, envv = parse_dump(dump)
            res[name] = ([x for x in args if not x.startswith((b'--dump=', b'--env='))], {k: envv.get(k) for k in HIST_OUTER})
        except Exception:
            res[name] = None
    return res, pickled


def hist_unset_ignored(ei, got):
    """the definition's environment consists of unset() calls only and the process sees the outer environment untouched"""
    ops = HIST_ENVDEFS[ei][1]
    return bool(ops) and all(o[0] == 'unset' for o in ops) and got is not None and got[1] == {k: b(v) for k, v in HIST_OUTER.items()}


def hist_describe(d):
    return '%s %r' % (HIST_ENVDEFS[d[0]][0], HIST_ARGDEFS[d[1]])


def run_history(job):
    """job = (idx, 'RC', index of A in defs, [indices of B], ne, na, steps)"""
    from verif import mesonproc as mp
    _, _, ia, ibs, ne, na, steps = job
    defs = hist_defs(ne, na)
    A = defs[ia]
    root = os.path.join(scratch_root(), 'c03rc.%d.%d' % (os.getpid(), ia))
    shutil.rmtree(root, ignore_errors=True)
    dumpdir = os.path.join(root, 'dumps')
    os.makedirs(dumpdir)
    out = {'viol': [], 'cases': 0, 'by_kind': {}, 'wrapped': 0, 'rsp_edges': 0, 'hist': {'histories': 0, 'pickled': 0, 'outcome_differs': 0, 'observed_steps': 0}}
    targets = []
    for ib in ibs:
        for pos in HIST_POSITIONS:
            name = '%s_%d_%d' % (pos[:2], ia, ib)
            targets.append((name, pos, ib, os.path.join(dumpdir, name + '.dump')))
    env = mp.base_env(home=os.path.join(root, 'home'))
    env.update(HIST_OUTER)
    history = [A, None, A][:steps]
    for step, which in enumerate(history):
        L = ["project('history')", "dump = find_program(%s)" % lit(DUMP)]
        for name, pos, ib, dump in targets:
            hist_decl(L, name, pos, which or defs[ib], dump)
        mp.write_tree(root, {'meson.build': '\n'.join(L) + '\n'})
        r = mp.run_meson(['setup', 'b'] if step == 0 else ['setup', '--reconfigure', 'b'], root, env=env, timeout=600)
        if r.rc != 0:
            out['viol'].append(('C03:reconfigure:setup-fails', 'step %d of the history starting with %s: meson setup fails: %s' % (step, hist_describe(A), r.out[-300:]),
                                {'history': [ia, list(ibs)], 'hist_space': [ne, na, steps]}))
            break
        if step == 0 and steps < 3:
            continue            # (quick tier: the first configuration is only the pre-state; single configurations are family envop's)
        obs, pickled = hist_observe(os.path.join(root, 'b'), env, [(t[0], t[3]) for t in targets])
        out['hist']['pickled'] += pickled
        out['hist']['observed_steps'] += 1
        for name, pos, ib, dump in targets:
            cur = which or defs[ib]
            prev = A if which is None else (defs[ib] if step == 2 else None)
            exp = ([b(exp_command_arg(x)) for x in HIST_ARGDEFS[cur[1]]], hist_env_expected(cur[0]))
            out['cases'] += 1
            kind = 'reconfigured-' + pos
            out['by_kind'][kind] = out['by_kind'].get(kind, 0) + 1
            if step == 1:
                out['hist']['histories'] += 1
                if exp != ([b(exp_command_arg(x)) for x in HIST_ARGDEFS[A[1]]], hist_env_expected(A[0])):
                    out['hist']['outcome_differs'] += 1
            got = obs.get(name)
            if got == exp:
                continue
            rep_ = {'history': [ia, [ib]], 'hist_space': [ne, na, steps], 'position': pos, 'step': step,
                    'given': [hist_describe(d) for d in ([A, defs[ib], A][:step + 1])], 'observed': repr(got), 'expected': repr(exp)}
            if got is None:
                key = 'C03:reconfigure:no-observation'
            elif hist_unset_ignored(cur[0], got):
                key = 'C03:unset-only-env-ignored:' + pos
            elif prev is not None and got[1] != exp[1] and got[1] == hist_env_expected(prev[0]):
                key = 'C03:reconfigure:env-of-earlier-definition'
            elif got[1] != exp[1]:
                key = 'C03:reconfigure:env-value'
            else:
                key = 'C03:reconfigure:argv'
            out['viol'].append((key, '%s configured as {%s}, edited to {%s} and reconfigured%s: the process receives argv %r env %r, the current definition says argv %r env %r'
                                % (pos, hist_describe(A), hist_describe(defs[ib]), ' (then back again)' if step == 2 else '', got and got[0], got and got[1], exp[0], exp[1]), rep_))
    shutil.rmtree(root, ignore_errors=True)
    return out


def run_siblings(job):
    """job = (idx, 'SB', argdef index, ne)"""
    from verif import mesonproc as mp
    _, _, ai, ne = job
    root = os.path.join(scratch_root(), 'c03sb.%d.%d' % (os.getpid(), ai))
    shutil.rmtree(root, ignore_errors=True)
    dumpdir = os.path.join(root, 'dumps')
    os.makedirs(dumpdir)
    out = {'viol': [], 'cases': 0, 'by_kind': {}, 'wrapped': 0, 'rsp_edges': 0, 'sib': {'pairs': 0, 'pickled': 0, 'outcome_differs': 0}}
    L = ["project('siblings')", "dump = find_program(%s)" % lit(DUMP)]
    targets = []
    for ea, eb in itertools.combinations(range(ne), 2):
        for pos in HIST_POSITIONS:
            dump = os.path.join(dumpdir, '%s_%d_%d.dump' % (pos[:2], ea, eb))      # the two siblings run the same command line
            for mine, other in ((ea, eb), (eb, ea)):
                name = '%s_%d_%d_is%d' % (pos[:2], ea, eb, mine)
                hist_decl(L, name, pos, (mine, ai), dump)
                targets.append((name, pos, mine, other, dump))
    mp.write_tree(root, {'meson.build': '\n'.join(L) + '\n'})
    env = mp.base_env(home=os.path.join(root, 'home'))
    env.update(HIST_OUTER)
    r = mp.run_meson(['setup', 'b'], root, env=env, timeout=600)
    if r.rc != 0:
        out['viol'].append(('C03:siblings:setup-fails', 'meson setup rejects the sibling-target project: ' + r.out[-300:], {'siblings': [ai, ne]}))
        return out
    obs, pickled = hist_observe(os.path.join(root, 'b'), env, [(t[0], t[4]) for t in targets])
    out['sib']['pickled'] = pickled
    for name, pos, mine, other, dump in targets:
        exp = ([b(exp_command_arg(x)) for x in HIST_ARGDEFS[ai]], hist_env_expected(mine))
        out['cases'] += 1
        kind = 'sibling-' + pos
        out['by_kind'][kind] = out['by_kind'].get(kind, 0) + 1
        out['sib']['pairs'] += 1
        if hist_env_expected(other) != exp[1]:
            out['sib']['outcome_differs'] += 1
        got = obs.get(name)
        if got == exp:
            continue
        if got is None:
            key = 'C03:siblings:no-observation'
        elif hist_unset_ignored(mine, got):
            key = 'C03:unset-only-env-ignored:' + pos
        elif got[1] != exp[1] and got[1] == hist_env_expected(other):
            key = 'C03:siblings:env-of-other-target'
        elif got[1] != exp[1]:
            key = 'C03:siblings:env-value'
        else:
            key = 'C03:siblings:argv'
        out['viol'].append((key, '%s with env {%s} next to a %s running the same command %r with env {%s}: the process receives argv %r env %r, its definition says env %r'
                            % (pos, HIST_ENVDEFS[mine][0], pos, HIST_ARGDEFS[ai], HIST_ENVDEFS[other][0], got and got[0], got and got[1], exp[1]),
                            {'siblings': [ai, ne], 'position': pos, 'given': [HIST_ENVDEFS[mine][0], HIST_ENVDEFS[other][0]], 'observed': repr(got), 'expected': repr(exp)}))
    shutil.rmtree(root, ignore_errors=True)
    return out


def run_any(job):
    if job[1] == 'RC':
        return run_history(job)
    if job[1] == 'SB':
        return run_siblings(job)
    if job[1] == 'TO':
        return run_testobj_project(job)
    if job[1] == 'EO':
        return run_envop_project(job)
    if job[1] == 'PH':
        return run_placeholder(job)
    if job[1] == 'EM':
        return run_embedded(job)
    return run_lang_project(job) if job[1] == 'LANG' else run_project(job)


def main():
    ck = Check('C03', 'exploration')
    n = ck.q(2, 3)
    strings = all_strings(n)
    if ck.args.replay:
        d = json.load(open(ck.args.replay))
        g = d.get('given')
        lst = g if isinstance(g, list) else [g]
        if d.get('embedded'):
            from verif import mesonproc as mp
            mp.preimport()
            res = run_embedded((0, 'EM', d['embedded'][0], d['embedded'][1]))
            res['viol'] = [v for v in res['viol'] if v[2].get('given') == d.get('given')]
            for k, w, _ in res['viol']:
                print(k, w)
            sys.exit(1 if res['viol'] else 0)
        if d.get('placeholder_position'):
            from verif import mesonproc as mp
            mp.preimport()
            res = run_placeholder((0, 'PH', d['placeholder_position'], g))
            for k, w, _ in res['viol']:
                print(k, w)
            sys.exit(1 if res['viol'] else 0)
        if d.get('history') or d.get('siblings'):
            from verif import mesonproc as mp
            mp.preimport()
            if d.get('history'):
                res = run_history((0, 'RC', d['history'][0], d['history'][1]) + tuple(d['hist_space']))
            else:
                res = run_siblings((0, 'SB') + tuple(d['siblings']))
            res['viol'] = [v for v in res['viol'] if v[2].get('position') == d.get('position') and (d.get('siblings') is None or v[2].get('given') == d.get('given'))]
            for k, w, r_ in res['viol']:
                print(k, w)
                print('  expected', r_.get('expected'))
                print('  observed', r_.get('observed'))
            sys.exit(1 if res['viol'] else 0)
        res = run_project((0, [s for s in lst if isinstance(s, str)] or ['a'], d.get('rsp_forced', False)))
        for k, w, _ in res['viol']:
            print(k, w)
        sys.exit(1 if res['viol'] else 0)
    from verif import mesonproc as mp
    mp.preimport()
    if not os.path.exists(DUMP):
        ck.internal('tools/bin/argv_dump missing: run ./setup.sh')
    # split the strings over projects (so that 16 workers are busy); each project carries every position/mode
    per = max(200, (len(strings) + NCPU - 1) // NCPU)
    parts = [strings[i:i + per] for i in range(0, len(strings), per)]
    jobs = []
    if ck.want('strings'):
        for pi, part in enumerate(parts):
            jobs.append((len(jobs), part, False))
        for pi, part in enumerate(parts):
            jobs.append((len(jobs), part, True))
    # histories (configure, edit, reconfigure) and sibling targets: see HIST_ENVDEFS
    h_ne, h_na, h_steps = ck.q(8, len(HIST_ENVDEFS)), ck.q(2, len(HIST_ARGDEFS)), ck.q(2, 3)
    if ck.want('reconf'):
        nd = len(hist_defs(h_ne, h_na))
        for ia in range(nd):
            jobs.append((len(jobs), 'RC', ia, [ib for ib in range(nd) if ib != ia], h_ne, h_na, h_steps))
    if ck.want('siblings'):
        for ai in range(h_na):
            jobs.append((len(jobs), 'SB', ai, h_ne))
    if ck.want('lang'):
        jobs.insert(0, (len(jobs), 'LANG', False))
    if ck.want('envop'):
        jobs.insert(0, (len(jobs), 'EO', False))
    if ck.want('testobj'):
        jobs.insert(0, (len(jobs), 'TO', False))
    if ck.want('placeholders'):
        for where in ('generator', 'custom_target'):
            for ph in PLACEHOLDERS:
                jobs.append((len(jobs), 'PH', where, ph))
    if ck.want('embedded'):
        for where in EMB_PH:
            jobs.insert(0, (len(jobs), 'EM', where, ck.q(2, 3)))
    emb = {}
    tot = {'cases': 0, 'projects': 0, 'wrapped_edges': 0, 'rsp_edges': 0}
    hist = {}
    sib = {}
    kinds = {}
    ph_outcomes = {}
    for res in pmap(run_any, jobs, chunksize=1):
        tot['projects'] += 1
        tot['cases'] += res['cases']
        tot['wrapped_edges'] += res['wrapped']
        tot['rsp_edges'] += res['rsp_edges']
        for k, v in res['by_kind'].items():
            kinds[k] = kinds.get(k, 0) + v
        for key, what, rep in res['viol']:
            ck.violation(key, what, rep)
        for src, dst in ((res.get('hist'), hist), (res.get('sib'), sib)):
            for k, v in (src or {}).items():
                dst[k] = dst.get(k, 0) + v
        for k, v in res.get('emb', {}).items():
            emb[k] = v if k == 'contexts' else emb.get(k, 0) + v
        if 'ph' in res:
            ph_outcomes.setdefault(res['ph'][2], []).append('%s:%s' % res['ph'][:2])
    if ph_outcomes:
        ck.part('placeholders', spellings=len(PLACEHOLDERS), **{k: len(v) for k, v in ph_outcomes.items()})
        if not ck.n_viol:
            ck.require(len(ph_outcomes.get('substituted', [])) >= 12 and ph_outcomes.get('error'), 'placeholder family one-sided: %r' % {k: len(v) for k, v in ph_outcomes.items()})
    if ck.want('embedded'):
        ck.part('embedded_placeholders', atoms=EMB_ATOMS, placeholders=EMB_PH, **emb)
        ck.require((emb.get('compared', 0) > 1500 and emb.get('literal_at_before', 0) > 500 and emb.get('other_shapes', 0) > 200) or ck.n_viol, 'embedded placeholder family vacuous: %r' % emb)
    if ck.want('reconf'):
        ck.part('reconfigure_histories', definitions=len(hist_defs(h_ne, h_na)), env_definitions=h_ne, arg_definitions=h_na, steps=h_steps, **hist)
        ck.require(hist.get('histories', 0) == len(hist_defs(h_ne, h_na)) * (len(hist_defs(h_ne, h_na)) - 1) * len(HIST_POSITIONS) or ck.n_viol,
                   'not every ordered pair of definitions was taken through configure/edit/reconfigure: %r' % hist)
        ck.require((hist.get('pickled', 0) > hist.get('histories', 0) // 3 and hist.get('outcome_differs', 0) > hist.get('histories', 0) // 2) or ck.n_viol,
                   'reconfigure family vacuous (few statements through the pickled wrapper / edits that change nothing): %r' % hist)
    if ck.want('siblings'):
        ck.part('sibling_targets', env_definitions=h_ne, arg_definitions=h_na, **sib)
        ck.require((sib.get('pickled', 0) > 0 and sib.get('outcome_differs', 0) > sib.get('pairs', 0) // 2) or ck.n_viol, 'sibling family vacuous: %r' % sib)
    ck.part('positions', **kinds)
    if not ck.want('strings'):
        print('keys', json.dumps(ck._seen_keys, sort_keys=True), json.dumps(ck._known_hit, sort_keys=True))
        ck.finish(evaluations=tot['cases'], distinct_nontrivial=len(kinds), rule='partial run (--only)', exhaustive=False)
    ck.require(tot['rsp_edges'] > 0, 'no response-file statement seen')
    ck.part('totals', strings=len(strings), max_atoms=n, **tot)
    ck.sample({'strings': strings[30:36], 'positions': sorted(kinds)})
    ck.require(tot['wrapped_edges'] > 0 and tot['rsp_edges'] > 0 and len(kinds) >= 12, 'not every wrapping mode was exercised: %r %r' % (tot, sorted(kinds)))
    ck.assume('ninja variable expansion and $in/$out escaping come from lib/verif/refninja.py; response files are decoded by a port of libiberty buildargv (what gcc/ld use for @file)')
    ck.assume('strings that form a @TEMPLATE@ placeholder, and newline-bearing strings in compile/link argument positions (meson refuses them with an error), are not enumerated')
    ck.finish(evaluations=tot['cases'], distinct_nontrivial=len(kinds),
              rule='all %d strings of <= %d atoms over a 26-atom alphabet (+ %d specials) x positions {custom_target plain/capture/feed/env/console/depfile, run_target, generator, '
                   'test args+env x {exitcode,tap}, c_args -D family, c_args neutral, link_args, project/global/project-link args} x {direct, response files forced}; '
                   'plus all ordered pairs of command definitions (env method/separator/unset/values x argument lists) as configure-edit-reconfigure histories of one '
                   'build directory, and all pairs of env definitions on two targets with the same command line; '
                   'plus every documented placeholder between all contexts of <= 2 (thorough 3) literal atoms of {@,u,:} on either side, in custom_target / run_target / generator arguments, for custom targets also with 0-2 inputs and 1-2 outputs (statements of different shapes interleaved in one build definition); '
                   'evaluations = argument occurrences compared; distinct_nontrivial = positions/modes observed' % (len(strings), n, len(SPECIALS)),
              exhaustive=True)


run_main(main)
