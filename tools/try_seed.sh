#!/bin/bash
# tools/try_seed.sh <seeded-dir> [check args...]  -- run the property's quick check against a scratch copy of /repo with the
# seeded change applied (VERIF_REPO), so that /repo itself stays untouched while seed agents use it as their reference.
d="$(realpath "$1")"; shift
id=$(python3 -c "import json,sys; print(json.load(open('$d/meta.json'))['property'])")
dst="/dev/shm/tryseed.$$"
rm -rf "$dst"; rsync -a --exclude .git --exclude __pycache__ /repo/ "$dst/"
( cd "$dst" && patch -p1 -s < "$d/patch.diff" ) || { echo APPLY-FAILED; rm -rf "$dst"; exit 3; }
cd /verif && VERIF_REPO="$dst" timeout 3000 ./check "$id" --tier quick --no-evidence "$@" > "$dst.log" 2>&1
grep -E "VIOLATION|key=|KNOWN|internal|Error" "$dst.log" | cut -c1-400 | head -${TRY_LINES:-10}; tail -2 "$dst.log" | cut -c1-600
rm -rf "$dst" "$dst.log" /verif/replays/${id}-*
