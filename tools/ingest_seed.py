#!/usr/bin/env python3
"""tools/ingest_seed.py <cNN> <id> <needs> <breaks>  -- copy a sub-agent's seeded change from /tmp/seed/<cNN>/out into seeded/<id>/"""
import json, os, shutil, sys, glob
c, sid, needs, breaks = sys.argv[1:5]
src = '/tmp/seed/%s/out' % c
dst = os.path.join(os.path.dirname(os.path.dirname(os.path.abspath(__file__))), 'seeded', sid)
os.makedirs(dst, exist_ok=True)
for f in glob.glob(src + '/patch.diff') + glob.glob(src + '/demo.*') + glob.glob(src + '/README.md'):
    shutil.copy(f, dst)
json.dump({'property': c[:3].upper(), 'source': 'independent sub-agent given only the property text', 'needs': needs, 'breaks': breaks,
           'verified': 'tools/verify_seed.sh (patch applies to a scratch copy of /repo, pinned suite passes with it, demo fails on the patched copy and passes on /repo)'},
          open(os.path.join(dst, 'meta.json'), 'w'), indent=1)
print(dst)
