#!/bin/bash
# tools/verify_seed.sh <seeded-dir>   -- confirm a seeded change: applies to a scratch copy of /repo, pinned suite passes,
# the demonstration fails on the patched copy and passes on /repo. Prints one JSON-ish line.
d="$(realpath "$1")"
dst="/dev/shm/seedverify.$$"
rm -rf "$dst"; rsync -a --exclude .git --exclude __pycache__ /repo/ "$dst/"
( cd "$dst" && patch -p1 -s < "$d/patch.diff" ) || { echo "APPLY-FAILED $1"; rm -rf "$dst"; exit 3; }
suite=$(cd "$dst" && PYTHONPATH="$dst" PYTHONDONTWRITEBYTECODE=1 /venv/bin/python -m pytest -q -p no:cacheprovider unittests/cargotests.py unittests/optiontests.py unittests/taptests.py unittests/versiontests.py 2>&1 | tail -1)
demo=$(ls "$d"/demo.* | head -1)
run() { case "$demo" in *.py) NINJA=/tmp/seed/ninja-stub PYTHONDONTWRITEBYTECODE=1 timeout 600 /venv/bin/python "$demo" "$1" >/dev/null 2>&1;; *) NINJA=/tmp/seed/ninja-stub timeout 600 bash "$demo" "$1" >/dev/null 2>&1;; esac; echo $?; }
on_patched=$(run "$dst"); on_clean=$(run /repo)
rm -rf "$dst"
echo "$(basename "$d"): suite=[$suite] demo_on_patched=$on_patched demo_on_clean=$on_clean"
